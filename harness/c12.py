"""C12 — RINEX navigation files are parsed into exactly the ephemerides they contain.

translate:   translator/extract_rinexnav.py → lean/Midgard/Generated/RinexNavCols.lean
prove:       lean/Midgard/Props/C12.lean
correspond:  files rendered by an independent writer (RINEX 3.04 table A5.. / 2.11 table A4 formats typed
             here) are parsed by the real parsers and by the compiled Lean model; columns compared value by value
oracle:      generating ephemeris model vs the real parsers' output
"""
from __future__ import annotations

import json
import os
import tempfile
import warnings
from datetime import datetime, timedelta
from fractions import Fraction

import numpy as np

from . import common
from .common import Ctx, hexs

WEEK = 604800
GPS0 = datetime(1980, 1, 6)
KEPT = "GECJI"

# the 7 x 4 broadcast-orbit slots of a record (general names) — RINEX 3.04 tables A6, A8, A10, A12, A14
ORBIT = [
    ["iode", "crs", "delta_n", "m0"],
    ["cuc", "e", "cus", "sqrt_a"],
    ["toe", "cic", "Omega", "cis"],
    ["i0", "crc", "omega", "Omega_dot"],
    ["idot", "gnss_data_info", "gnss_week", "gnss_l2p_flag"],
    ["sv_accuracy", "sv_health", "gnss_tgd_bgd", "gnss_iodc_groupdelay"],
    ["transmission_time", "gnss_interval", None, None],
]
# system specific meaning of the general slots (RINEX 3.04)
RENAME = {
    "gnss_data_info": {"G": "codes_l2", "J": "codes_l2", "E": "data_source"},
    "gnss_interval": {"G": "fit_interval", "J": "fit_interval", "C": "age_of_clock_corr"},
    "gnss_iodc_groupdelay": {"G": "iodc", "J": "iodc", "E": "bgd_e1_e5b", "C": "tgd_b2_b3"},
    "gnss_l2p_flag": {"G": "l2p_flag", "J": "l2p_flag"},
    "gnss_tgd_bgd": {"G": "tgd", "J": "tgd", "E": "bgd_e1_e5a", "C": "tgd_b1_b3", "I": "tgd"},
}
SEC_OFF = {"C": 14}
WEEK_OFF = {"C": 1356}


# ------------------------------------------------------------------------------------------
# independent writer


def num19(rng, q: Fraction | None = None, style=None):
    """an abstract 19-column real (the `Num19` of lean/Midgard/Spec/RinexNavFile.lean): None = blank, else
    {x: exponent letter, lead: integer digit printed, neg, m: mantissa in units of 1e-12, e: exponent}"""
    if q is None and rng.random() < 0.07:
        return None  # blank means zero
    style = style or rng.choice(["0.dD", ".dE", "d.de", "0.dE", "d.dE"])
    x = "E" if style.endswith("E") else ("D" if style.endswith("D") else "e")
    if q is None:
        mant = rng.randint(0, 10**12 - 1)
        e = rng.randint(-12, 9)
        neg = rng.random() < 0.45
        if style.startswith("0."):
            return {"x": x, "lead": True, "neg": neg, "m": mant, "e": e}
        if style.startswith("."):
            return {"x": x, "lead": False, "neg": neg, "m": mant, "e": e}
        return {"x": x, "lead": True, "neg": neg, "m": rng.randint(1, 9) * 10**12 + mant, "e": e}
    # a given number (callers only pass values with <= 12 significant digits): d.ddd…X+ee or 0.ddd…X+ee
    neg = q < 0
    a = abs(q)
    e = 0
    if a != 0:
        while a >= 10:
            a /= 10
            e += 1
        while a < 1:
            a *= 10
            e -= 1
    mant13 = int(a * 10**12)
    assert Fraction(mant13, 10**12) == a, q
    if style.startswith("d."):
        n = {"x": x, "lead": True, "neg": neg, "m": mant13, "e": e}
    else:
        assert mant13 % 10 == 0, q
        n = {"x": x, "lead": style.startswith("0."), "neg": neg, "m": mant13 // 10, "e": e + 1 if a != 0 else 0}
    assert num_val(n) == q, (q, n)
    return n


def num_val(n) -> Fraction:
    if n is None:
        return Fraction(0)
    v = Fraction(n["m"], 10**12) * Fraction(10) ** n["e"]
    return -v if n["neg"] else v


def num_text(n) -> str:
    """the independent writer's D19.12 (and its spellings), right-justified in 19 columns"""
    if n is None:
        return " " * 19
    m = n["m"]
    t = f"{'-' if n['neg'] else ''}{m // 10**12 if n['lead'] else ''}.{m % 10**12:012d}{n['x']}{'+' if n['e'] >= 0 else '-'}{abs(n['e']):02d}"
    assert len(t) <= 19, t
    return t.rjust(19)


def num_wire(n) -> str:
    return "_" if n is None else f"{n['x']}:{int(n['lead'])}:{int(n['neg'])}:{n['m']}:{n['e']}"


def d19(rng, q: Fraction | None = None, style=None):
    """a 19-column real: (text, exact Fraction)"""
    n = num19(rng, q, style)
    return num_text(n), num_val(n)


def gen_record(rng, system, prn, toc_gps: datetime, both_dirs=False):
    """one ephemeris: values by general slot name, with the true GPS-scale instants"""
    rec = {"system": system, "prn": prn}
    off = SEC_OFF.get(system, 0)
    rec["toc_sys"] = toc_gps - timedelta(seconds=off)  # epoch as printed (system time)
    rec["toc_gps"] = toc_gps
    # toe within +-2 h of toc, whole seconds; transmission up to 3 h before toe
    toe_gps = toc_gps + timedelta(seconds=rng.choice([0, 0, 16, -16, 7200, -7200, rng.randint(-7200, 7200)]))
    ttx_gps = toe_gps - timedelta(seconds=rng.choice([0, 30, 6900, 7200, rng.randint(0, 10800)]))
    # fractional seconds of week (0.1 … 0.9 and 1e-3 steps): the values are printed reals, not integers
    if rng.random() < 0.25:
        toe_gps += timedelta(milliseconds=rng.choice([100 * rng.randint(1, 9), rng.randint(1, 999)]))
    if rng.random() < 0.3:
        ttx_gps += timedelta(milliseconds=rng.choice([100 * rng.randint(1, 9), 600, 500, rng.randint(1, 999)]))
    rec["toe_gps"], rec["ttx_gps"] = toe_gps, ttx_gps
    # as printed: in the satellite system's own time and week numbering
    us = timedelta(microseconds=1)
    toe_sys_s = Fraction((toe_gps - GPS0) // us, 10**6) - off
    ttx_sys_s = Fraction((ttx_gps - GPS0) // us, 10**6) - off
    week_gps_num = int(toe_sys_s // WEEK)
    rec["week_print"] = week_gps_num - WEEK_OFF.get(system, 0)
    rec["toe_print"] = toe_sys_s - week_gps_num * WEEK
    mode = rng.choice(["adjusted", "own-week"])
    rec["ttx_mode"] = mode
    rec["ttx_print"] = ttx_sys_s - week_gps_num * WEEK if mode == "adjusted" else ttx_sys_s % WEEK
    vals = {}
    for row in ORBIT:
        for name in row:
            if name:
                vals[name] = None
    rec["vals"] = vals
    return rec


def abstract_record3(rng, rec, style=None):
    """the record as an item of the abstract file + the expected values by general slot name"""
    t = rec["toc_sys"]
    exp = {}
    clock = []
    for name in ("sat_clock_bias", "sat_clock_drift", "sat_clock_drift_rate"):
        n = num19(rng, style=style)
        clock.append(n)
        exp[name] = num_val(n)
    rows = []
    for row in ORBIT:
        cells = []
        for name in row:
            if name is None:
                continue
            if name == "toe":
                n = num19(rng, Fraction(rec["toe_print"]), style)
            elif name == "gnss_week":
                n = num19(rng, Fraction(rec["week_print"]), style)
            elif name == "transmission_time":
                n = num19(rng, Fraction(rec["ttx_print"]), style)
            elif name == "iode":
                n = num19(rng, Fraction(rng.randint(0, 255)), style)
            elif name in ("sv_health", "gnss_data_info"):
                n = num19(rng, Fraction(rng.choice([0, 1, 63, 258, 513, 516, 517, 455])), style)
            else:
                n = num19(rng, style=style)
            cells.append(n)
            exp[name] = num_val(n)
        rows.append({"cells": cells, "cut": rng.random() < 0.6})
    # a whole broadcast-orbit line left blank (all four values zero): printed as an empty line or as a line of blanks
    if rng.random() < 0.05:
        k = rng.choice([1, 3])
        rows[k]["cells"] = [None, None, None, None]
        rows[k]["cut"] = rng.random() < 0.7
        for name in ORBIT[k]:
            exp[name] = Fraction(0)
    # the two spare columns of the last line: absent, blank or zero
    rows[-1]["cells"] += [rng.choice([None, {"x": "E", "lead": True, "neg": False, "m": 0, "e": 0}]) for _ in range(rng.choice([0, 0, 1, 2]))]
    item = {"kind": "N", "sys": rec["system"], "prn": rec["prn"], "zero": rng.random() < 0.8,
            "date": [t.year, t.month, t.day, t.hour, t.minute, t.second], "clock": clock, "rows": rows}
    return item, exp


def abstract_glo_sbas(rng, system, prn, t):
    """a GLONASS / SBAS record: epoch line + 3 orbit lines (RINEX 3.04 tables A10/A16), 4 for GLONASS in 3.05,
    and other counts — the parser must skip it whatever its length"""
    nrows = rng.choice([3, 3, 3, 4, 4, 1, 2, 5])
    rows = [{"cells": [num19(rng) for _ in range(4 if rng.random() < 0.9 else rng.randint(1, 3))], "cut": rng.random() < 0.5} for _ in range(nrows)]
    return {"kind": "S", "sys": system, "prn": prn, "date": [t.year, t.month, t.day, t.hour, t.minute, t.second],
            "clock": [num19(rng) for _ in range(3)], "rows": rows}


def item_lines3(it):
    """RINEX 3.04: A1,I2.2,1X,I4,5(1X,I2.2),3D19.12 / 4X,4D19.12 (independent writer)"""
    y, mo, d, h, mi, sec = it["date"]
    prn_txt = f"{it['prn']:02d}" if it.get("zero", True) else f"{it['prn']:2d}"
    lines = [f"{it['sys']}{prn_txt} {y:04d} {mo:02d} {d:02d} {h:02d} {mi:02d} {sec:02d}" + "".join(num_text(n) for n in it["clock"])]
    for row in it["rows"]:
        line = "    " + "".join(num_text(n) for n in row["cells"])
        lines.append(line.rstrip() if row["cut"] else line)
    return lines


def item_wire(it):
    o = [it["kind"], hexs(it["sys"]), str(it["prn"])]
    if it["kind"] == "N":
        o.append("1" if it["zero"] else "0")
    o += [str(v) for v in it["date"]] + [num_wire(n) for n in it["clock"]]
    if it["kind"] == "N":
        for row in it["rows"][:6]:
            o += [num_wire(n) for n in row["cells"]] + ["1" if row["cut"] else "0"]
        last = it["rows"][6]
        o += [num_wire(n) for n in last["cells"][:2]] + [str(len(last["cells"]) - 2)] + [num_wire(n) for n in last["cells"][2:]] + ["1" if last["cut"] else "0"]
    else:
        o.append(str(len(it["rows"])))
        for row in it["rows"]:
            o += [str(len(row["cells"]))] + [num_wire(n) for n in row["cells"]] + ["1" if row["cut"] else "0"]
    return o


def header3(sat_sys, rng):
    """(version, type, system letter, rest of the system text, further header lines as (content, label))"""
    names = {"G": ": GPS", "E": ": GALILEO", "C": ": BDS", "J": ": QZSS", "I": ": IRNSS", "M": ": MIXED"}
    out = [("verif-writer".ljust(20) + "C12".ljust(20) + "20260929 000000 UTC", "PGM / RUN BY / DATE")]
    if rng.random() < 0.5:
        out.append(("a comment", "COMMENT"))
    if rng.random() < 0.5:
        out.append(("GPSA   4.6566D-09  1.4901D-08 -5.9605D-08 -1.1921D-07", "IONOSPHERIC CORR"))
    if rng.random() < 0.5:
        out.append(("GPUT -9.3132257462E-10-1.776356839E-15 405504 2071", "TIME SYSTEM CORR"))
    if rng.random() < 0.5:
        out.append(("    18    18  1929     7", "LEAP SECONDS"))
    return {"version": "     3.04", "ftype": "N: GNSS NAV DATA", "sys": sat_sys, "systext": names[sat_sys], "hlines": out}


def py_render3(F):
    lines = [f"{F['version']:<20}{F['ftype']:<20}{F['sys']}{F['systext']:<19}RINEX VERSION / TYPE"]
    lines += [f"{c:<60}{l}" for c, l in F["hlines"]]
    lines.append(f"{'':<60}END OF HEADER")
    for it in F["items"]:
        lines += item_lines3(it)
    return "\n".join(lines) + "\n"


def wire3(F):
    o = [hexs(F["version"]), hexs(F["ftype"]), hexs(F["sys"]), hexs(F["systext"]), str(len(F["hlines"]))]
    for c, l in F["hlines"]:
        o += [hexs(c), hexs(l)]
    o.append(str(len(F["items"])))
    for it in F["items"]:
        o += item_wire(it)
    return " ".join(o)


def item_lines2(it):
    """RINEX 2.11 (table A4): I2,1X,I2.2,1X,I2,1X,I2,1X,I2,1X,I2,F5.1,3D19.12 / 3X,4D19.12 (independent writer)"""
    y, mo, d, h, mi, sec = it["date"]
    lines = [f"{it['prn']:2d} {y % 100:02d} {mo:2d} {d:2d} {h:2d} {mi:2d}{sec:5.1f}" + "".join(num_text(n) for n in it["clock"])]
    for row in it["rows"]:
        line = "   " + "".join(num_text(n) for n in row["cells"])
        lines.append(line.rstrip() if row["cut"] else line)
    return lines


def header2(version, rng):
    v = {"2.11": "     2.11", "2.10": "     2.10", "2": "     2", "2.12": "     2.12"}[version]
    out = [("verif-writer".ljust(20) + "C12".ljust(20) + "29-SEP-26 00:00", "PGM / RUN BY / DATE")]
    if rng.random() < 0.5:
        out.append(("a comment", "COMMENT"))
    if version != "2.12" and rng.random() < 0.5:
        out.append(("    0.1583D-07  0.0000D+00 -0.1192D-06  0.0000D+00", "ION ALPHA"))
        out.append(("    0.1126D+06 -0.1638D+05 -0.2621D+06  0.6554D+05", "ION BETA"))
    if rng.random() < 0.5:
        out.append(("    18", "LEAP SECONDS"))
    return {"version": v, "ftype": "N: GPS NAV DATA", "sys": "G", "systext": "", "hlines": out}


def py_render2(F):
    lines = [f"{F['version']:<20}{F['ftype']:<40}RINEX VERSION / TYPE"]
    lines += [f"{c:<60}{l}" for c, l in F["hlines"]]
    lines.append(f"{'':<60}END OF HEADER")
    for it in F["items"]:
        lines += item_lines2(it)
    return "\n".join(lines) + "\n"


def gen_epoch(rng, near_week_boundary, system="G"):
    """a GPS-scale record epoch (whole seconds), 1980-2035 (BeiDou: from its week 0 = GPS week 1356)"""
    lo = 1357 if system == "C" else 1
    week = rng.randint(lo, 2900) if rng.random() < 0.7 or system == "C" else rng.choice([1, 2, 51, 52, 53, 1042, 1043, rng.randint(1, 1050)])
    if near_week_boundary:
        sow = rng.choice([0, 16, 3600, 7184, WEEK - 16, WEEK - 3600, WEEK - 7200, WEEK - 1, 1])
    else:
        sow = rng.randint(0, WEEK - 1) // 16 * 16 if rng.random() < 0.5 else rng.randint(0, WEEK - 1)
    return GPS0 + timedelta(weeks=week, seconds=sow)


def gen_file3(rng, quick):
    kind = rng.choice(["G", "E", "C", "J", "I", "M", "M", "M"])
    n = rng.randint(1, 8 if quick else 40)
    style = rng.choice([None, None, "0.dD", ".dE", "d.de"])
    near = rng.random() < 0.5
    F = header3(kind, rng)
    recs, items = [], []
    # merged broadcast files repeat the same few printed epochs for satellites of all constellations
    shared = [gen_epoch(rng, near, "C") for _ in range(rng.randint(1, 2))] if kind == "M" and rng.random() < 0.4 else None
    skip_first = kind == "M" and rng.random() < 0.2
    if skip_first:
        items.append(abstract_glo_sbas(rng, rng.choice("RS"), rng.randint(1, 24), gen_epoch(rng, False)))
    for k in range(n):
        system = kind if kind != "M" else rng.choice("GECJI")
        if kind == "M" and k > 0 and rng.random() < 0.25:
            for _ in range(rng.choice([1, 1, 2])):
                items.append(abstract_glo_sbas(rng, rng.choice("RS"), rng.randint(1, 24), gen_epoch(rng, False)))
        if shared:
            printed = rng.choice(shared)                                     # the epoch as printed, in system time
            toc = printed + timedelta(seconds=SEC_OFF.get(system, 0))        # the same instant on the GPS scale
        else:
            toc = gen_epoch(rng, near, system)
        rec = gen_record(rng, system, rng.randint(1, 36), toc)
        it, exp = abstract_record3(rng, rec, style)
        rec["exp"] = exp
        recs.append(rec)
        items.append(it)
    skip_last = kind == "M" and rng.random() < 0.3
    if skip_last:
        items.append(abstract_glo_sbas(rng, "R", 7, gen_epoch(rng, False)))
    F["items"] = items
    return {"version": "3", "sat_sys": kind, "model": F, "text": py_render3(F), "recs": recs, "ext": ".rnx",
            "skip_first": skip_first, "skip_last": skip_last, "shared": bool(shared)}


def gen_file2(rng, quick, parser, system=None):
    system = system or rng.choice(["G", "G", "E"])
    n = rng.randint(1, 8 if quick else 40)
    style = rng.choice([None, "0.dD", "0.dD", "d.de"])
    near = rng.random() < 0.5
    version = "2.12" if parser == "rinex212_nav" else rng.choice(["2.11", "2.10", "2"])
    F = header2(version, rng)
    recs, items = [], []
    for _ in range(n):
        toc = gen_epoch(rng, near, system)
        if rng.random() < 0.15:                       # the two-digit year pivot: 1980..1999 / 2000..
            toc = toc.replace(year=rng.choice([1980, 1989, 1999, 2000, 2001, 2035]), month=max(toc.month, 2), day=min(toc.day, 28))
        rec = gen_record(rng, system, rng.randint(1, 32), toc)
        it, exp = abstract_record3(rng, rec, style)
        it["sys"] = "G"                               # no system letter is printed in RINEX 2 (the file name decides)
        rec["exp"] = exp
        recs.append(rec)
        items.append(it)
    F["items"] = items
    out = {"version": version, "sat_sys": system, "text": py_render2(F), "recs": recs,
           "ext": ".19n" if system == "G" else ".19l"}
    if system == "G":
        out["model2"] = F
    return out


# ------------------------------------------------------------------------------------------
# real code


class Impl:
    def __init__(self):
        self.dir = tempfile.mkdtemp(prefix="c12-")
        self.n = 0
        from midgard.parsers.rinex2_nav import Rinex2NavParser
        from midgard.parsers.rinex212_nav import Rinex212NavParser
        from midgard.parsers.rinex3_nav import Rinex3NavParser

        self.classes = {"rinex3_nav": Rinex3NavParser, "rinex2_nav": Rinex2NavParser, "rinex212_nav": Rinex212NavParser}

    def path(self, ext):
        self.n += 1
        return os.path.join(self.dir, f"nav{self.n % 8}{ext}")

    def parse(self, parser, text, ext, unique=False):
        import pathlib

        if unique:  # a path no call has seen before
            self.n += 1
            os.makedirs(os.path.join(self.dir, f"u{self.n}"))
            fn = os.path.join(self.dir, f"u{self.n}", f"nav0{ext}")
        else:
            fn = self.path(ext)
        with open(fn, "w", newline="") as f:
            f.write(text)
        try:
            with warnings.catch_warnings():
                warnings.simplefilter("ignore")
                p = self.classes[parser](pathlib.Path(fn))
                p.parse()
            return "ok", p, fn
        except BaseException as e:  # noqa: BLE001  (log.fatal raises SystemExit)
            if isinstance(e, KeyboardInterrupt):
                raise
            return "raises", f"{type(e).__name__}: {e}", fn

    def cleanup(self):
        import shutil

        shutil.rmtree(self.dir, ignore_errors=True)


def gps_seconds(t):
    """exact-ish GPS seconds of a midgard Time array (week*604800 + seconds of week), as Fractions"""
    ws = t.gps_ws
    w = np.atleast_1d(np.asarray(ws.week, dtype=float))
    s = np.atleast_1d(np.asarray(ws.seconds, dtype=float))
    return [Fraction(float(a)) * WEEK + Fraction(float(b)) for a, b in zip(w, s)]


TIME_TOL = Fraction(1, 10**6)


def impl_columns(p):
    """{name: list} with floats as Fractions/None, text as str, times as GPS seconds"""
    out = {}
    for k, v in p.data.items():
        if k in ("time", "toe", "transmission_time"):
            out[k] = ("t", gps_seconds(v))
        elif k in ("system", "satellite"):
            out[k] = ("s", [str(x) for x in v])
        elif k == "nav_type" or k.startswith(("shs_", "dvs_")):
            continue  # derived flags, not part of the statement
        else:
            out[k] = ("f", [None if x is None else Fraction(float(x)) for x in v])
    return out


def model_columns(ans):
    j = json.loads(ans)
    out = {}
    for k, kind, vals in j:
        k = common.unhex(k)
        if kind == "t":
            out[k] = ("t", [Fraction(x) for x in vals])
        elif kind == "s":
            out[k] = ("s", [common.unhex(x) for x in vals])
        else:
            out[k] = ("f", [None if x is None else Fraction(float(Fraction(x))) for x in vals])
    return out


def diff_columns(m, i):
    if list(m) != list(i) and sorted(m) != sorted(i):
        return f"keys differ: model-only {sorted(set(m) - set(i))} impl-only {sorted(set(i) - set(m))}"
    for k in m:
        (km, vm), (ki, vi) = m[k], i[k]
        if km != ki or len(vm) != len(vi):
            return f"{k}: kind/length {km}/{len(vm)} vs {ki}/{len(vi)}"
        for n, (a, b) in enumerate(zip(vm, vi)):
            if km == "t":
                if abs(a - b) > TIME_TOL:
                    return f"{k}[{n}]: {float(a)} vs {float(b)}"
            elif a != b:
                return f"{k}[{n}]: {a!r} vs {b!r}"
    return None


# ------------------------------------------------------------------------------------------
# oracle


def expected_name(general, system):
    return RENAME.get(general, {}).get(system) if general in RENAME else general


def oracle(ctx, case, f, p, parser):
    recs = f["recs"]
    data = p.data
    n = len(recs)
    lens = {k: len(v) for k, v in data.items()}
    if len(set(lens.values())) != 1:
        ctx.violate("columns-unequal", f"columns have different lengths: {sorted(set(lens.values()))}", case)
        return
    if lens.get("time") != n:
        ctx.violate("record-count", f"{n} supported records written, {lens.get('time')} returned", case)
        return
    single = parser != "rinex3_nav"
    for i, r in enumerate(recs):
        s = r["system"]
        if str(data["system"][i]) != s or str(data["satellite"][i]) != f"{s}{r['prn']:02d}":
            ctx.violate("satellite", f"record {i}: {data['system'][i]}/{data['satellite'][i]} vs {s}{r['prn']:02d}", case)
            return
        for general, q in r["exp"].items():
            name = expected_name(general, s)
            if general == "gnss_week":
                # the week column is the GPS week of toe (BeiDou weeks shifted by 1356)
                want_week = r["week_print"] + (WEEK_OFF.get(s, 0) if f["sat_sys"] in ("M", "C") else 0)
                if float(data["gnss_week"][i]) != float(want_week):
                    ctx.violate(f"gnss_week:{'C' if s == 'C' else 'x'}", f"record {i} ({s}{r['prn']:02d}) gnss_week: expected GPS week {want_week}, "
                                f"parser returned {data['gnss_week'][i]!r}", {**case, "record": i})
                    return
                continue
            if general in ("toe", "transmission_time"):
                continue
            if name is None:
                continue
            if name not in data:
                ctx.violate(f"field-missing:{name}", f"field {name} (system {s}) is not returned", case)
                return
            got = data[name][i]
            if got is None or float(got) != float(q):
                ctx.violate(f"value:{general}", f"record {i} ({s}{r['prn']:02d}) {name}: file has {float(q)!r}, parser returned {got!r}",
                            {**case, "record": i, "field": name})
                return
        if not single:
            for general, per in RENAME.items():
                for other in set(per.values()):
                    if per.get(s) != other and other in data and data[other][i] is not None:
                        ctx.violate(f"rename-leak:{other}", f"record {i} (system {s}) has a value under {other}", case)
                        return
    tt = gps_seconds(data["time"])
    te = gps_seconds(data["toe"])
    tx = gps_seconds(data["transmission_time"])
    for i, r in enumerate(recs):
        for nm, got, want in (("time", tt[i], r["toc_gps"]), ("toe", te[i], r["toe_gps"]), ("transmission_time", tx[i], r["ttx_gps"])):
            w = Fraction((want - GPS0) // timedelta(microseconds=1), 10**6)
            if abs(got - w) > TIME_TOL:
                kind = "week-crossing" if (r["toc_gps"] - GPS0).days // 7 != (want - GPS0).days // 7 else "same-week"
                ctx.violate(f"time:{nm}:{r['system'] if r['system'] == 'C' else 'x'}:{kind}:{r['ttx_mode'] if nm == 'transmission_time' else ''}",
                            f"record {i} ({r['system']}{r['prn']:02d}) {nm}: expected GPS {want.isoformat()}, parser is off by "
                            f"{float(got - w)} s", {**case, "record": i})
                return


# ------------------------------------------------------------------------------------------


def one_file(ctx, impl, drv, f, parser):
    case = {"parser": parser, "ext": f["ext"], "file": f["text"]}
    ctx.case({"p": parser, "t": common.digest(f["text"])}, nontrivial=len(f["recs"]) > 0)
    ctx.count(f"parser:{parser}")
    ctx.count(f"sat_sys:{f['sat_sys']}")
    for src in ("model", "model2"):
        for it in f.get(src, {}).get("items", []):
            for row in it["rows"] if it["kind"] == "N" else []:
                if all(c is None for c in row["cells"][:4]) and len(row["cells"]) >= 4:
                    ctx.count("records with an all-blank orbit line: " + ("empty line" if row["cut"] else "line of blanks"))
    for r in f["recs"]:
        if r["toe_gps"].microsecond:
            ctx.count("records with fractional toe")
        if r["ttx_gps"].microsecond:
            ctx.count("records with fractional transmission time")
        ctx.count(f"sys:{r['system']}")
        if (r["toc_gps"] - GPS0).days // 7 != (r["toe_gps"] - GPS0).days // 7 or (r["toc_gps"] - GPS0).days // 7 != (r["ttx_gps"] - GPS0).days // 7:
            ctx.count("records whose toe / transmission time lies in another week than the epoch")
    a = None
    rows = None
    if "model" in f:
        F = f["model"]
        skips = [it for it in F["items"] if it["kind"] == "S"]
        for it in skips:
            ctx.count(f"skipped record {it['sys']} with {len(it['rows'])} orbit lines")
        if f["skip_first"]:
            ctx.count("files starting with a skipped record")
        if f["skip_last"]:
            ctx.count("files ending with a skipped record")
        kinds = [it["kind"] for it in F["items"]]
        if any(kinds[i] == "N" and kinds[i + 1] == "S" and "N" in kinds[i + 2:] for i in range(len(kinds) - 1)):
            ctx.count("files with skipped records between supported ones")
        if any(kinds[i] == "S" and kinds[i + 1] == "S" for i in range(len(kinds) - 1)):
            ctx.count("files with two skipped records in a row")
        if f["shared"]:
            seen = {}
            for r in f["recs"]:
                key = r["toc_sys"]
                for other in seen.get(key, []):
                    if (other == "C") != (r["system"] == "C"):
                        ctx.count("shared printed epoch: BeiDou record first" if other == "C" else "shared printed epoch: BeiDou record later")
                        break
                seen.setdefault(key, []).append(r["system"])
        ans = drv.ask1("c12 model3 " + wire3(F))
        if ans == "bad-op":
            ctx.disagree("rinex3 abstract file not accepted by the driver", case, ans, "")
            return
        m = json.loads(ans)
        if not m["wf"]:
            ctx.disagree("rinex3 generated file does not satisfy NavFile.wf (generator outside the theorem's hypotheses)", case, "wf=false", "")
        elif not m["thm"]:
            ctx.disagree("rinex3 file_records_v3 instance: compiled accumV3 (render3 F) differs from expectedState", case, "thm=false", "")
        lean_text = common.unhex(m["text"])
        if lean_text != f["text"]:
            la, lb = lean_text.split("\n"), f["text"].split("\n")
            i = next((k for k, (x, y) in enumerate(zip(la, lb)) if x != y), -1)
            ctx.disagree("rinex3 spec writer (Lean render3) vs independent writer (Python)", case, la[i] if i >= 0 else f"{len(la)} lines", lb[i] if i >= 0 else f"{len(lb)} lines")
        a = "RAISES" if m["cols"] == "RAISES" else json.dumps(m["cols"])
        rows = m
    if "model2" in f:
        F = f["model2"]
        for it in F["items"]:
            ctx.count(f"rinex2 record year {'19yy' if it['date'][0] < 2000 else '20yy'}")
        ans = drv.ask1(f"c12 model2 {parser} " + wire3(F))
        if ans == "bad-op":
            ctx.disagree("rinex2 abstract file not accepted by the driver", case, ans, "")
            return
        m = json.loads(ans)
        if not m["wf"]:
            ctx.disagree("rinex2 generated file does not satisfy NavFile.wf2 (generator outside the theorem's hypotheses)", case, "wf=false", "")
        elif not m["thm"]:
            ctx.disagree("rinex2 file_records_v2 instance: compiled accumV2 (render2 F) differs from expectedState", case, "thm=false", "")
        lean_text = common.unhex(m["text"])
        if lean_text != f["text"]:
            la, lb = lean_text.split("\n"), f["text"].split("\n")
            i = next((k for k, (x, y) in enumerate(zip(la, lb)) if x != y), -1)
            ctx.disagree("rinex2 spec writer (Lean render2) vs independent writer (Python)", case, la[i] if i >= 0 else f"{len(la)} lines", lb[i] if i >= 0 else f"{len(lb)} lines")
        a = "RAISES" if m["cols"] == "RAISES" else json.dumps(m["cols"])
        rows = m
    st, p, fn = impl.parse(parser, f["text"], f["ext"])
    if a is None:
        a = drv.ask1(f"c12 {parser} {f['ext'][-1]} {hexs(f['text'])}")
    if st == "raises":
        ctx.violate(f"raises:{p.split(':')[0]}", f"well-formed file makes {parser} raise {p}", case)
        if a != "RAISES":
            ctx.disagree(f"{parser} (model returns, code raises)", case, "value", p)
        return
    if a in ("RAISES", "bad-op"):
        ctx.disagree(f"{parser} (model raises, code returns)", case, a, "value")
    else:
        d = diff_columns(model_columns(a), impl_columns(p))
        if d:
            ctx.disagree(f"{parser} columns", case, d, "")
    if rows is not None:
        # post_record / post_record_v2: the columns computed record by record (postSem / postSem2, compiled) vs the real parser,
        # and the compiled instance of the theorem (postV3 / postV2 on the read columns = the per-record columns)
        ctx.count("per-record rows (postSem) compared with the real parser")
        if not rows.get("post", False):
            ctx.disagree(f"{parser}: compiled instance of post_record (postV3/postV2 columns differ from the per-record columns)", case, "post=false", "")
        if rows["rows"] == "RAISES":
            ctx.disagree(f"{parser} (per-record model refuses the file, code returns)", case, "RAISES", "value")
        else:
            d = diff_columns(model_columns(json.dumps(rows["rows"])), impl_columns(p))
            if d:
                ctx.disagree(f"{parser} per-record columns (postSem) vs real parser", case, d, "")
    oracle(ctx, case, f, p, parser)
    if ctx.evaluations % 3 == 0:
        dataset_form(ctx, case, p, parser)
    return fn


def dataset_form(ctx, case, p, parser):
    """`as_dataset()` is the same table as `as_dict()` / `parser.data`: same number of rows, the same fields, every value the same
    (None of a system-specific field = NaN), times the same instants"""
    import math

    ctx.count("as_dataset compared with the parsed columns")
    try:
        with warnings.catch_warnings():
            warnings.simplefilter("ignore")
            ds = p.as_dataset()
    except BaseException as e:  # noqa: BLE001
        if isinstance(e, KeyboardInterrupt):
            raise
        ctx.violate(f"dataset:raises:{type(e).__name__}", f"{parser}.as_dataset() raises {type(e).__name__}: {e}", case)
        return
    data = p.data
    n = len(data["time"])
    if ds.num_obs != n:
        ctx.violate("dataset:num_obs", f"{parser}.as_dataset() has {ds.num_obs} rows, the parser returned {n} records", case)
        return
    missing = sorted(set(data) - set(ds.fields))
    extra = sorted(set(ds.fields) - set(data))
    if missing or extra:
        ctx.violate("dataset:fields", f"{parser}.as_dataset(): fields missing {missing}, fields not in the parsed data {extra}", case)
        return
    for k, v in data.items():
        if k in ("time", "toe", "transmission_time"):
            a, b = gps_seconds(ds[k]), gps_seconds(v)
            bad = next((i for i in range(n) if abs(a[i] - b[i]) > TIME_TOL), None)
            if bad is not None:
                ctx.violate(f"dataset:time:{k}", f"{parser}.as_dataset(): {k}[{bad}] is {float(a[bad])} s, the parser returned {float(b[bad])} s (GPS seconds)",
                            {**case, "record": bad})
                return
        elif k in ("nav_type", "satellite", "system"):
            got = [str(x) for x in ds[k]]
            if got != [str(x) for x in v]:
                ctx.violate(f"dataset:text:{k}", f"{parser}.as_dataset(): text field {k} differs from the parsed column", case)
                return
        else:
            col = np.atleast_1d(np.asarray(ds[k], dtype=float))
            for i, x in enumerate(v):
                y = float(col[i])
                same = math.isnan(y) if x is None or (isinstance(x, float) and math.isnan(x)) else y == float(x)
                if not same:
                    ctx.violate(f"dataset:value:{k if k in ('gnss_week', 'iode') else 'field'}", f"{parser}.as_dataset(): {k}[{i}] = {y!r}, the parser returned {x!r}",
                                {**case, "record": i, "field": k})
                    return


def float_cases(ctx, drv, rng, n):
    """`_float` of the three parser modules vs the model, on the spellings the statement lists"""
    from midgard.parsers import rinex2_nav, rinex3_nav, rinex212_nav

    texts = []
    for _ in range(n):
        t, _v = d19(rng)
        k = rng.random()
        if k < 0.1:
            t = t.replace("E", "d").replace("D", "d")
        elif k < 0.15:
            t = rng.choice(["", " ", "   ", "0", "-1", "1.5", "+2.5E0", "1D0", "1e+3", ".5", "5."])
        texts.append(t)
    ans = drv.ask([f"c12 float {hexs(t)}" for t in texts])
    for t, a in zip(texts, ans):
        case = {"float": t}
        ctx.case(case)
        ctx.count("float")
        vals = []
        for mod in (rinex3_nav, rinex2_nav, rinex212_nav):
            try:
                vals.append(Fraction(mod._float(t)))
            except ValueError:
                vals.append("ValueError")
        if len(set(map(str, vals))) != 1:
            ctx.violate("float:parsers-differ", f"_float({t!r}) differs between the nav parsers: {vals}", case)
        m = "ValueError" if a == "RAISES" else a if a == "bad-op" else Fraction(float(Fraction(a)))
        if m != vals[0]:
            ctx.disagree("_float", case, str(m), str(vals[0]))
        # oracle: D, E, e and d exponents all denote the same number; blank is zero
        if t.strip() == "":
            want = Fraction(0)
        else:
            try:
                want = Fraction(float(t.strip().replace("D", "e").replace("d", "e").replace("E", "e")))
            except ValueError:
                continue
        if vals[0] != want:
            ctx.violate("float:lower-case-d" if "d" in t else "float:value", f"_float({t!r}) = {vals[0]} but the column holds {want}", case)


def run(ctx: Ctx):
    from translator import extract_rinexnav

    ctx.extra["tables_regenerated"] = bool(extract_rinexnav.main())
    ctx.proof = common.prove("C12")
    drv = ctx.driver
    rng = ctx.rng
    quick = not ctx.thorough
    impl = Impl()
    ctx.rule = ("ephemeris models (epoch, toe within 2 h, transmission time up to 3 h earlier, 28 further values) for "
                "G/E/C/J/I as abstract files (Spec/RinexNavFile.lean `NavFile`) rendered in RINEX 3.04 by the Lean spec writer AND by an independent Python writer "
                "(texts must be equal), each checked against NavFile.wf and the compiled instance of file_records_v3 (single-system and mixed files with "
                "GLONASS/SBAS records of 1..5 orbit lines at the start, in between, in a row and at the end; mixed files in which records of different systems incl. BeiDou share the printed epoch) "
                "and rendered by the Python writer in 2.10/2.11/2.12 layouts; 19-column reals in D/E/e spellings, "
                "with and without leading zero, negative values abutting the previous field, blank fields, lines cut "
                "after the last value; half of the files have their epochs within 2 h of a GPS week boundary; "
                "a case is non-trivial when the file has at least one supported record; distinct by file text")
    ctx.trusted += ["float(text) is compared with the correctly rounded double of the model's exact rational",
                    "midgard Time(gps_ws / datetime) constructors are taken as given (C02); instants compared to 1e-6 s",
                    "dateutil.parser.parse / strptime on the ISO text built by the parser are modelled as the civil date",
                    "the driver's wire parser for abstract files (lean/Driver/C12.lean, namespace Wire); the Lean spec writers are compared byte for byte with the independent Python writer on every generated file"]
    ctx.assumptions += ["record epochs 1980-2035, whole seconds", "IODE integral for GPS/QZSS (the parser refuses CNAV)",
                        "header: only version / file type / satellite system enter the model"]
    try:
        for fcase in sorted((common.VERIF / "corpus" / "C12").glob("*.json")):
            c = json.loads(fcase.read_text())
            c = c.get("replay", c)
            st, p, _ = impl.parse(c["parser"], c["file"], c["ext"])
            ctx.case({"corpus": fcase.name})
            ctx.count("corpus")
            a = drv.ask1(f"c12 {c['parser']} {c['ext'][-1]} {hexs(c['file'])}")
            if st == "raises":
                ctx.violate(f"raises:{p.split(':')[0]}", f"corpus file makes {c['parser']} raise {p}", c)
            elif a in ("RAISES", "bad-op") or diff_columns(model_columns(a), impl_columns(p)):
                ctx.disagree(f"{c['parser']} (corpus {fcase.name})", c, a[:200], "")
        float_cases(ctx, drv, rng, ctx.budget(1500, 20000))
        for _ in range(ctx.budget(400, 4000)):
            one_file(ctx, impl, drv, gen_file3(rng, quick), "rinex3_nav")
        for parser in ("rinex2_nav", "rinex212_nav"):
            for _ in range(ctx.budget(120, 1200)):
                one_file(ctx, impl, drv, gen_file2(rng, quick, parser), parser)
        dispatch_cases(ctx, impl, rng)
        sysname_cases(ctx, drv, rng, ctx.budget(300, 3000))
        from . import c12_adv

        c12_adv.adversarial_cases(ctx, impl, drv, rng, ctx.budget(180, 1800), extra=True)
        history_cases(ctx, impl, drv, rng, ctx.budget(40, 400), ctx.budget(8, 40))
    finally:
        impl.cleanup()
    ctx.traces = ctx.evaluations


NAME_POOL = ["brdc0010.19n", "brdc0010.21l", "brdc0010.19g", "BRDC0010.19N", "brdc0010.19L", "x.rnx", "ABCD00NOR_R_20190010000_01D_GN.rnx",
             "ABCD00NOR_R_20190010000_01D_EN.rnx", "ABCD00NOR_R_20190010000_01D_MN.rnx", "ABCD00NOR_R_20190010000_01D_gn.rnx",
             "ABCD00NOR_R_20190010000_01D_GN.rnx.gz", "brdc0010.19n.gz", "brdc0010.19n.Z", "file", ".hidden", ".19n", "name.", "a.b.c", "a.b.l",
             "..19n", "x.19n.", "a..n", "n", "ab.rnx", "abcde.rnx", "abcdef.rnx", "GN.rnx", "xGN.rnx", "a.rnx.n", "a.xrnxy", "a.19h", "a.19p", "a.19q",
             "a.gz", "a.n.gz", "a.gz.n", "b.crx", "brdm0010.19p"]


def sysname_cases(ctx, drv, rng, n):
    """`_get_system_from_file_extension` of the two RINEX 2.x parser classes vs `systemOfName2` / `systemOfName212`"""
    import pathlib
    import string

    from midgard.parsers.rinex2_nav import Rinex2NavParser
    from midgard.parsers.rinex212_nav import Rinex212NavParser

    names = list(NAME_POOL)
    alphabet = string.ascii_letters + string.digits + "_"
    while len(names) < n:
        k = rng.random()
        if k < 0.3:
            names.append(rng.choice(NAME_POOL))
        else:
            parts = ["".join(rng.choice(alphabet) for _ in range(rng.randint(0, 9))) for _ in range(rng.randint(1, 4))]
            if rng.random() < 0.75:
                parts.append(rng.choice(["19n", "21l", "20g", "rnx", "gz", "RNX", "n", "N", "rnx.gz", "19l", "l", "G"]))
            nm = ".".join(parts)
            names.append(nm if nm.strip(".") else "a" + nm)
    asks = []
    for nm in names:
        asks += [f"c12 sysname 2 {hexs(nm)}", f"c12 sysname 212 {hexs(nm)}"]
    ans = drv.ask(asks)
    for i, nm in enumerate(names):
        for j, (which, cls) in enumerate((("2", Rinex2NavParser), ("212", Rinex212NavParser))):
            case = {"sysname": which, "name": nm}
            ctx.case(case)
            try:
                with warnings.catch_warnings():
                    warnings.simplefilter("ignore")
                    got = "=" + cls(pathlib.Path("/nonexistent-verif") / nm).system
            except BaseException as e:  # noqa: BLE001
                if isinstance(e, KeyboardInterrupt):
                    raise
                got = "RAISES"
            ctx.count(f"sysname {which}: {got if got == 'RAISES' else 'system ' + got[1:] if got[1:] in 'GRE' else 'another letter'}")
            if ans[2 * i + j] != got:
                ctx.disagree(f"GNSS from the file name (rinex{which}_nav)", case, ans[2 * i + j], got)


def dispatch_cases(ctx, impl, rng):
    """rinex_nav.get_rinex2_or_rinex3 picks the parser by the version in the first header line"""
    import pathlib

    from midgard.parsers import rinex_nav

    for parser, gen in (("rinex3_nav", lambda: gen_file3(rng, True)), ("rinex2_nav", lambda: gen_file2(rng, True, "rinex2_nav")),
                        ("rinex212_nav", lambda: gen_file2(rng, True, "rinex212_nav"))):
        f = gen()
        fn = impl.path(f["ext"])
        with open(fn, "w", newline="") as fh:
            fh.write(f["text"])
        case = {"dispatch": parser, "file": f["text"], "ext": f["ext"], "parser": parser}
        ctx.case({"dispatch": parser, "t": common.digest(f["text"])})
        ctx.count("dispatch")
        try:
            with warnings.catch_warnings():
                warnings.simplefilter("ignore")
                p = rinex_nav.get_rinex2_or_rinex3(pathlib.Path(fn))
            if p.parser_name != parser:
                ctx.violate("dispatch", f"version {f['version']} dispatched to {p.parser_name}, expected {parser}", case)
        except BaseException as e:  # noqa: BLE001
            if isinstance(e, KeyboardInterrupt):
                raise
            ctx.violate(f"dispatch:raises:{type(e).__name__}", f"dispatch raised {type(e).__name__}: {e}", case)


# ------------------------------------------------------------------------------------------
# histories through the public dispatcher: parsers.parse_file("rinex_nav", path)
#
# The statement is about the file that is at the path *now*.  One process parses several paths, the content of a path
# is replaced (another RINEX version, or another file of the same version) and parsed again: every call must return
# what a fresh interpreter returns for the current content, whatever was parsed from that path (or any other) before.

# (file name, GNSS the name stands for in RINEX 2, kinds of content the name admits)
HIST_NAMES = [
    ("brdc{k:03d}0.19n", "G", ("rinex2_nav", "rinex212_nav", "rinex3_nav")),
    ("brdc{k:03d}0.19l", "E", ("rinex2_nav", "rinex212_nav", "rinex3_nav")),
    ("VRF{k}00NOR_R_20190010000_01D_GN.rnx", "G", ("rinex212_nav", "rinex3_nav")),
    ("VRF{k}00NOR_R_20190010000_01D_EN.rnx", "E", ("rinex212_nav", "rinex3_nav")),
    ("VRF{k}00NOR_R_20190010000_01D_MN.rnx", None, ("rinex3_nav",)),
]


def canon_columns(cols):
    """impl_columns → JSON-able (exact rationals as text)"""
    return {k: [kind, [None if x is None else str(x) for x in vals]] for k, (kind, vals) in sorted(cols.items())}


def dispatch_parse(path, as_str=False, via="parse_file"):
    """the public entry points; → ("ok", parser) | ("raises", text)"""
    import pathlib

    from midgard import parsers

    try:
        with warnings.catch_warnings():
            warnings.simplefilter("ignore")
            arg = str(path) if as_str else pathlib.Path(path)
            if via == "parse_file":
                p = parsers.parse_file("rinex_nav", arg)
            elif via == "parse_file_kw":
                p = parsers.parse_file(parser_name="rinex_nav", file_path=arg)
            else:  # the registered plugin function, then Parser.parse() as parse_file does
                from midgard.parsers import rinex_nav

                p = rinex_nav.get_rinex2_or_rinex3(pathlib.Path(path))
                p.parse()
        return "ok", p
    except BaseException as e:  # noqa: BLE001  (log.fatal raises SystemExit)
        if isinstance(e, KeyboardInterrupt):
            raise
        return "raises", f"{type(e).__name__}: {e}"


def fresh_main(argv):
    """worker of `fresh_interpreter`: one path, parsed by the dispatcher in an interpreter that has parsed nothing else"""
    st, p = dispatch_parse(argv[0])
    if st == "raises":
        print(json.dumps({"status": "raises", "error": p}))
    else:
        print(json.dumps({"status": "ok", "parser": p.parser_name, "cols": canon_columns(impl_columns(p))}))


def fresh_interpreter(paths):
    """[{status, parser, cols}] — each path parsed by `parsers.parse_file("rinex_nav", path)` in its own new interpreter"""
    import subprocess
    import sys

    code = ("import sys, warnings; warnings.filterwarnings('ignore'); sys.path[:0] = [%r, %r]; "
            "from harness import c12; c12.fresh_main(sys.argv[1:])" % (str(common.REPO), str(common.VERIF)))
    out = []
    todo = list(paths)
    while todo:
        batch, todo = todo[:8], todo[8:]
        procs = [subprocess.Popen([sys.executable, "-W", "ignore", "-c", code, str(p)], stdout=subprocess.PIPE, stderr=subprocess.DEVNULL,
                                  text=True, env={**os.environ, "MIDGARD_REPO": str(common.REPO)}) for p in batch]
        for pr in procs:
            txt, _ = pr.communicate(timeout=300)
            lines = [l for l in txt.splitlines() if l.startswith("{")]
            out.append(json.loads(lines[-1]) if lines else {"status": "raises", "error": f"no answer (exit {pr.returncode})"})
    return out


def write_step(path, text, keep_mtime):
    """replace the content of `path`; `keep_mtime`: the new file carries the time stamps of the old one (a file restored from
    an archive, `cp -p`, a file system with coarse time stamps)"""
    old = os.stat(path) if keep_mtime and os.path.exists(path) else None
    with open(path, "w", newline="") as fh:
        fh.write(text)
    if old is not None:
        os.utime(path, ns=(old.st_atime_ns, old.st_mtime_ns))


def hist_ext(name, sysletter, kind):
    """extension under which the concrete parser class reads the same text (RINEX 2: the extension carries the GNSS)"""
    return os.path.splitext(name)[1] if sysletter is None or kind == "rinex3_nav" else (".19n" if sysletter == "G" else ".19l")


class _Prefixed:
    """the record oracle, reporting under history:… keys"""

    def __init__(self, ctx):
        self.ctx = ctx
        self.failed = False

    def violate(self, key, what, case):
        self.failed = True
        self.ctx.violate("history:" + key, "after earlier parses in the same process: " + what, case)


def gen_history(rng, nhist):
    """paths and steps of one history: [(name, sysletter, kinds)], [{"path": i, "kind": parser, …}]"""
    npaths = rng.choice([1, 2, 2, 3])
    picks = [rng.choice(HIST_NAMES) for _ in range(npaths)]
    paths = [(name.format(k=nhist % 1000 * 4 + i) if "{k:03d}" in name else name.format(k=i), s, kinds) for i, (name, s, kinds) in enumerate(picks)]
    steps = []
    last = {}
    for _ in range(rng.randint(3, 7)):
        i = rng.randrange(npaths)
        kinds = paths[i][2]
        prev = last.get(i)
        others = [k for k in kinds if k != prev]
        kind = rng.choice(others) if others and (prev is None or rng.random() < 0.75) else prev
        last[i] = kind
        steps.append({"path": i, "kind": kind, "keep_mtime": rng.random() < 0.3, "as_str": rng.random() < 0.3,
                      "via": rng.choice(["parse_file", "parse_file", "parse_file_kw", "plugin"])})
    return paths, steps


def history_cases(ctx, impl, drv, rng, n, n_fresh):
    quick = not ctx.thorough
    to_fresh = []  # (history so far, path, canonical in-process result)
    for h in range(n):
        paths, steps = gen_history(rng, h)
        hdir = os.path.join(impl.dir, f"h{h}")
        os.makedirs(hdir)
        ctx.count(f"history: {len(paths)} path(s)")
        done = []
        current = {}  # path index → (kind, canonical result)
        for st in steps:
            name, sysletter, _ = paths[st["path"]]
            kind = st["kind"]
            f = gen_file3(rng, quick) if kind == "rinex3_nav" else gen_file2(rng, quick, kind, system=sysletter)
            prev = current.get(st["path"])
            step = {"name": name, "sys": sysletter, "parser": kind, "file": f["text"], "keep_mtime": st["keep_mtime"], "as_str": st["as_str"], "via": st["via"]}
            done.append(step)
            case = {"history": list(done)}
            ctx.case({"history": [(s["name"], common.digest(s["file"])) for s in done]}, nontrivial=len(done) > 1)
            ctx.count("history step: " + ("first content of the path" if prev is None else
                                          f"{prev[0]} replaced by {kind}" if prev[0] != kind else f"{kind} replaced by another {kind} file"))
            if st["keep_mtime"] and prev is not None:
                ctx.count("history step: content replaced, time stamps kept")
            ctx.count(f"history step via {st['via']}{' (str path)' if st['as_str'] else ''}")
            path = os.path.join(hdir, name)
            write_step(path, f["text"], st["keep_mtime"])
            # an earlier, completed use of the library's process-wide switches (constant.use_source blocks that end, are nested,
            # are left through an exception the caller handles) must not change what is parsed afterwards
            if rng.random() < 0.4:
                from . import c13_hist

                op = c13_hist.gen_op(rng, sources=c13_hist.all_sources())
                ctx.count("history step after a constant.use_source block: " + c13_hist.run_op(op))
                step["prelude"] = op
            status, p = dispatch_parse(path, st["as_str"], st["via"])
            if status == "raises":
                ctx.violate(f"history:raises:{p.split(':')[0]}",
                            f"parse_file('rinex_nav', {name}) raises {p} on a well-formed {kind} file (step {len(done)} of a history in one process)", case)
                current[st["path"]] = (kind, None)
                continue
            if p.parser_name != kind:
                ctx.violate("history:dispatch", f"step {len(done)}: the file at {name} is now a {kind} file (version {f['version']}), "
                            f"the dispatcher used {p.parser_name}", case)
            got = impl_columns(p)
            # the generating records vs the returned columns (independent of any parser state)
            pref = _Prefixed(ctx)
            oracle(pref, case, f, p, kind)
            # the concrete parser class on a path never used before
            st2, p2, fn2 = impl.parse(kind, f["text"], hist_ext(name, sysletter, kind), unique=True)
            os.remove(fn2)
            if st2 == "ok":
                d = diff_columns(impl_columns(p2), got)
                if d:
                    ctx.violate("history:differs-from-first-parse", f"step {len(done)}: parse_file('rinex_nav', {name}) differs from {kind} on the same "
                                f"text at a path never used before: {d}", case)
            # the compiled Lean model (a function of the current text only)
            a = drv.ask1(f"c12 rinex_nav {hexs(name)} {hexs(f['text'])}")
            if a in ("RAISES", "bad-op"):
                ctx.disagree(f"history: parseNav (model raises, code returns)", case, a, "value")
            else:
                m = json.loads(a)
                if m["parser"] != p.parser_name:
                    ctx.disagree("history: parser chosen by the dispatcher (model parseNav vs code)", case, m["parser"], p.parser_name)
                d = diff_columns(model_columns(json.dumps(m["cols"])), got)
                if d:
                    ctx.disagree(f"history: columns of parseNav vs parse_file('rinex_nav')", case, d, "")
            current[st["path"]] = (kind, {"status": "ok", "parser": p.parser_name, "cols": canon_columns(got)})
            if len(to_fresh) < n_fresh and prev is not None and rng.random() < 0.5:
                to_fresh.append((case, path, f["text"], current[st["path"]][1]))
                ctx.count("history step compared with a fresh interpreter")
    # the same contents, each in an interpreter that has parsed nothing else
    fdir = os.path.join(impl.dir, "fresh")
    os.makedirs(fdir)
    fpaths = []
    for k, (case, path, text, _) in enumerate(to_fresh):
        d = os.path.join(fdir, str(k))
        os.makedirs(d)
        fp = os.path.join(d, os.path.basename(path))
        with open(fp, "w", newline="") as fh:
            fh.write(text)
        fpaths.append(fp)
    for (case, path, text, mine), theirs in zip(to_fresh, fresh_interpreter(fpaths)):
        if theirs != mine:
            what = (theirs.get("error") if theirs["status"] != "ok" else
                    f"parser {theirs['parser']} vs {mine['parser']}" if theirs["parser"] != mine["parser"] else
                    next((f"column {k}" for k in theirs["cols"] if theirs["cols"][k] != mine["cols"].get(k)), "column names"))
            ctx.violate("history:differs-from-fresh-interpreter", f"the last step of the history returns something else than a fresh interpreter "
                        f"for the same file ({what})", case)


def replay_history(impl, steps):
    """re-run the steps in this (new) process: same names in a new directory"""
    bad = 0
    hdir = os.path.join(impl.dir, "h")
    os.makedirs(hdir)
    last = None
    for k, st in enumerate(steps, 1):
        path = os.path.join(hdir, st["name"])
        write_step(path, st["file"], st.get("keep_mtime", False))
        if st.get("prelude"):
            from . import c13_hist

            print(f"step {k}: before parsing, constant.use_source({st['prelude']['source']!r}) block: {c13_hist.run_op(st['prelude'])}")
        status, p = dispatch_parse(path, st.get("as_str", False), st.get("via", "parse_file"))
        version = st["file"].split("\n", 1)[0].split()[0]
        if status == "raises":
            print(f"step {k}: {st['name']} now holds RINEX {version} ({st['parser']}): VIOLATION (replayed): raises {p}")
            bad = 1
            last = None
            continue
        sysletter = st.get("sys")
        st2, p2, _ = impl.parse(st["parser"], st["file"], hist_ext(st["name"], sysletter, st["parser"]), unique=True)
        d = diff_columns(impl_columns(p2), impl_columns(p)) if st2 == "ok" else None
        print(f"step {k}: {st['name']} now holds RINEX {version} ({st['parser']}): dispatcher used {p.parser_name}, "
              f"{len(p.data.get('time', []))} records; vs {st['parser']} on a new path: {d or 'equal'}")
        if p.parser_name != st["parser"] or d:
            print("VIOLATION (replayed)")
            bad = 1
        last = (path, {"status": "ok", "parser": p.parser_name, "cols": canon_columns(impl_columns(p))})
    if last:
        fd = os.path.join(impl.dir, "fresh")
        os.makedirs(fd)
        fp = os.path.join(fd, os.path.basename(last[0]))
        with open(fp, "w", newline="") as fh:
            fh.write(steps[-1]["file"])
        theirs = fresh_interpreter([fp])[0]
        print("last step vs a fresh interpreter:", "equal" if theirs == last[1] else "DIFFERENT")
        if theirs != last[1]:
            print("VIOLATION (replayed)")
            bad = 1
    return bad


def replay(payload):
    c = payload.get("replay", payload)
    ctx = Ctx("C12", "quick", 0)
    impl = Impl()
    try:
        if "history" in c:
            print("key:", payload.get("key"), "|", payload.get("what"))
            return replay_history(impl, c["history"])
        if "file" in c:
            st, p, _ = impl.parse(c["parser"], c["file"], c["ext"])
            print("key:", payload.get("key"), "|", payload.get("what"))
            if st == "raises":
                print("VIOLATION (replayed): raises", p)
                return 1
            a = ctx.driver.ask1(f"c12 {c['parser']} {c['ext'][-1]} {hexs(c['file'])}")
            d = diff_columns(model_columns(a), impl_columns(p)) if a not in ("RAISES", "bad-op") else a
            print("model vs code:", d or "agree")
            if "record" in c:
                i = c["record"]
                print({k: (str(v[i]) if k not in ("time", "toe", "transmission_time") else float(gps_seconds(v)[i])) for k, v in p.data.items()
                       if k in ("time", "toe", "transmission_time", "satellite")})
        elif "float" in c:
            from midgard.parsers import rinex3_nav

            try:
                print("_float(%r) = %r" % (c["float"], rinex3_nav._float(c["float"])))
            except ValueError as e:
                print("VIOLATION (replayed): _float(%r) raises %s" % (c["float"], e))
                return 1
    finally:
        impl.cleanup()
    return 0
