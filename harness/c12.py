"""C12 — RINEX navigation files are parsed into exactly the ephemerides they contain.

translate:   translator/extract_rinexnav.py → lean/Midgard/Generated/RinexNavCols.lean
prove:       lean/Midgard/Props/C12.lean
correspond:  files rendered by an independent writer (RINEX 3.04 table A5.. / 2.11 table A4 formats typed
             here) are parsed by the real parsers and by the compiled Lean model; columns compared value by value
oracle:      generating ephemeris model vs the real parsers' output
"""
from __future__ import annotations

import json
import os
import tempfile
import warnings
from datetime import datetime, timedelta
from fractions import Fraction

import numpy as np

from . import common
from .common import Ctx, hexs

WEEK = 604800
GPS0 = datetime(1980, 1, 6)
KEPT = "GECJI"

# the 7 x 4 broadcast-orbit slots of a record (general names) — RINEX 3.04 tables A6, A8, A10, A12, A14
ORBIT = [
    ["iode", "crs", "delta_n", "m0"],
    ["cuc", "e", "cus", "sqrt_a"],
    ["toe", "cic", "Omega", "cis"],
    ["i0", "crc", "omega", "Omega_dot"],
    ["idot", "gnss_data_info", "gnss_week", "gnss_l2p_flag"],
    ["sv_accuracy", "sv_health", "gnss_tgd_bgd", "gnss_iodc_groupdelay"],
    ["transmission_time", "gnss_interval", None, None],
]
# system specific meaning of the general slots (RINEX 3.04)
RENAME = {
    "gnss_data_info": {"G": "codes_l2", "J": "codes_l2", "E": "data_source"},
    "gnss_interval": {"G": "fit_interval", "J": "fit_interval", "C": "age_of_clock_corr"},
    "gnss_iodc_groupdelay": {"G": "iodc", "J": "iodc", "E": "bgd_e1_e5b", "C": "tgd_b2_b3"},
    "gnss_l2p_flag": {"G": "l2p_flag", "J": "l2p_flag"},
    "gnss_tgd_bgd": {"G": "tgd", "J": "tgd", "E": "bgd_e1_e5a", "C": "tgd_b1_b3", "I": "tgd"},
}
SEC_OFF = {"C": 14}
WEEK_OFF = {"C": 1356}


# ------------------------------------------------------------------------------------------
# independent writer


def d19(rng, q: Fraction | None = None, style=None):
    """a 19-column real: (text, exact Fraction). styles as found in the wild"""
    if q is None:
        if rng.random() < 0.07:
            return " " * 19, Fraction(0)  # blank means zero
        mant = rng.randint(0, 10**12 - 1)
        e = rng.randint(-12, 9)
        neg = rng.random() < 0.45
    style = style or rng.choice(["0.dD", ".dE", "d.de", "0.dE", "d.dE"])
    if q is not None:
        # exact integer-valued or given number: write as d.ddd…E+xx with 12 decimals
        neg = q < 0
        a = abs(q)
        e = 0
        if a != 0:
            while a >= 10:
                a /= 10
                e += 1
            while a < 1:
                a *= 10
                e -= 1
        mant12 = int(a * 10**12)  # truncation: callers only pass values with <= 13 significant digits
        digits = f"{mant12:013d}"
        ch = "E" if style.endswith("E") else ("D" if style.endswith("D") else "e")
        if style.startswith("d."):
            t = f"{'-' if neg else ' '}{digits[0]}.{digits[1:]}{ch}{'+' if e >= 0 else '-'}{abs(e):02d}"
        elif style.startswith("0."):
            e1 = e + 1 if a != 0 else 0
            t = f"{'-' if neg else ' '}0.{digits[:12]}{ch}{'+' if e1 >= 0 else '-'}{abs(e1):02d}"
        else:
            e1 = e + 1 if a != 0 else 0
            t = f" {'-' if neg else ' '}.{digits[:12]}{ch}{'+' if e1 >= 0 else '-'}{abs(e1):02d}"
        assert len(t) == 19, (t, len(t))
        val = Fraction(t.strip().replace("D", "e").replace("E", "e"))
        return t, val
    ch = "E" if style.endswith("E") else ("D" if style.endswith("D") else "e")
    es = f"{'+' if e >= 0 else '-'}{abs(e):02d}"
    m = f"{mant:012d}"
    if style.startswith("0."):
        t = f"{'-' if neg else ' '}0.{m}{ch}{es}"
    elif style.startswith("."):
        t = f" {'-' if neg else ' '}.{m}{ch}{es}"
    else:
        t = f"{'-' if neg else ' '}{rng.randint(1, 9)}.{m}{ch}{es}"
    assert len(t) == 19, t
    return t, Fraction(t.strip().replace("D", "e").replace("E", "e"))


def gen_record(rng, system, prn, toc_gps: datetime, both_dirs=False):
    """one ephemeris: values by general slot name, with the true GPS-scale instants"""
    rec = {"system": system, "prn": prn}
    off = SEC_OFF.get(system, 0)
    rec["toc_sys"] = toc_gps - timedelta(seconds=off)  # epoch as printed (system time)
    rec["toc_gps"] = toc_gps
    # toe within +-2 h of toc, whole seconds; transmission up to 3 h before toe
    toe_gps = toc_gps + timedelta(seconds=rng.choice([0, 0, 16, -16, 7200, -7200, rng.randint(-7200, 7200)]))
    ttx_gps = toe_gps - timedelta(seconds=rng.choice([0, 30, 6900, 7200, rng.randint(0, 10800)]))
    rec["toe_gps"], rec["ttx_gps"] = toe_gps, ttx_gps
    # as printed: in the satellite system's own time and week numbering
    toe_sys_s = int((toe_gps - GPS0).total_seconds()) - off
    ttx_sys_s = int((ttx_gps - GPS0).total_seconds()) - off
    week_gps_num = toe_sys_s // WEEK
    rec["week_print"] = week_gps_num - WEEK_OFF.get(system, 0)
    rec["toe_print"] = toe_sys_s - week_gps_num * WEEK
    mode = rng.choice(["adjusted", "own-week"])
    rec["ttx_mode"] = mode
    rec["ttx_print"] = ttx_sys_s - week_gps_num * WEEK if mode == "adjusted" else ttx_sys_s % WEEK
    vals = {}
    for row in ORBIT:
        for name in row:
            if name:
                vals[name] = None
    rec["vals"] = vals
    return rec


def render_record3(rng, rec, style=None):
    """RINEX 3.04: A1,I2.2,1X,I4,5(1X,I2.2),3D19.12 / 4X,4D19.12 — returns (lines, expected dict)"""
    t = rec["toc_sys"]
    exp = {}
    cells = []
    for name in ("sat_clock_bias", "sat_clock_drift", "sat_clock_drift_rate"):
        txt, v = d19(rng, style=style)
        cells.append(txt)
        exp[name] = v
    prn_txt = f"{rec['prn']:02d}" if rng.random() < 0.8 else f"{rec['prn']:2d}"
    lines = [f"{rec['system']}{prn_txt} {t.year:4d} {t.month:02d} {t.day:02d} {t.hour:02d} {t.minute:02d} {t.second:02d}" + "".join(cells)]
    for row in ORBIT:
        cells = []
        for name in row:
            if name is None:
                cells.append(rng.choice([" " * 19, " 0.000000000000E+00", ""]) if True else "")
                continue
            if name == "toe":
                txt, v = d19(rng, Fraction(rec["toe_print"]), style)
            elif name == "gnss_week":
                txt, v = d19(rng, Fraction(rec["week_print"]), style)
            elif name == "transmission_time":
                txt, v = d19(rng, Fraction(rec["ttx_print"]), style)
            elif name == "iode":
                txt, v = d19(rng, Fraction(rng.randint(0, 255)), style)
            elif name in ("sv_health", "gnss_data_info"):
                txt, v = d19(rng, Fraction(rng.choice([0, 1, 63, 258, 513, 516, 517, 455])), style)
            else:
                txt, v = d19(rng, style=style)
            cells.append(txt)
            exp[name] = v
        # trailing blank cells may be cut off the line
        line = "    " + "".join(c.ljust(19) if c else "" for c in cells)
        lines.append(line.rstrip() if rng.random() < 0.6 else line)
    return lines, exp


def render_glo_sbas(rng, system, prn, t):
    """a GLONASS / SBAS record: epoch line + 3 orbit lines (RINEX 3.04 tables A10/A16)"""
    lines = [f"{system}{prn:02d} {t.year:4d} {t.month:02d} {t.day:02d} {t.hour:02d} {t.minute:02d} {t.second:02d}"
             + "".join(d19(rng)[0] for _ in range(3))]
    for _ in range(3):
        lines.append("    " + "".join(d19(rng)[0] for _ in range(4)))
    return lines


def header3(sat_sys, rng):
    names = {"G": "G: GPS", "E": "E: GALILEO", "C": "C: BDS", "J": "J: QZSS", "I": "I: IRNSS", "M": "M: MIXED"}
    out = [f"{'     3.04':<20}{'N: GNSS NAV DATA':<20}{names[sat_sys]:<20}RINEX VERSION / TYPE",
           f"{'verif-writer':<20}{'C12':<20}{'20260929 000000 UTC':<20}PGM / RUN BY / DATE"]
    if rng.random() < 0.5:
        out.append(f"{'a comment':<60}COMMENT")
    if rng.random() < 0.5:
        out.append(f"{'GPSA   4.6566D-09  1.4901D-08 -5.9605D-08 -1.1921D-07':<60}IONOSPHERIC CORR")
    if rng.random() < 0.5:
        out.append(f"{'GPUT -9.3132257462E-10-1.776356839E-15 405504 2071':<60}TIME SYSTEM CORR")
    if rng.random() < 0.5:
        out.append(f"{'    18    18  1929     7':<60}LEAP SECONDS")
    out.append(f"{'':<60}END OF HEADER")
    return out


def render_record2(rng, rec, style=None):
    """RINEX 2.11 (table A4): I2,1X,I2.2,1X,I2,1X,I2,1X,I2,1X,I2,F5.1,3D19.12 / 3X,4D19.12"""
    t = rec["toc_sys"]
    exp = {}
    cells = []
    for name in ("sat_clock_bias", "sat_clock_drift", "sat_clock_drift_rate"):
        txt, v = d19(rng, style=style)
        cells.append(txt)
        exp[name] = v
    lines = [f"{rec['prn']:2d} {t.year % 100:02d} {t.month:2d} {t.day:2d} {t.hour:2d} {t.minute:2d}{t.second:5.1f}" + "".join(cells)]
    for row in ORBIT:
        cells = []
        for name in row:
            if name is None:
                cells.append(" " * 19)
                continue
            if name == "toe":
                txt, v = d19(rng, Fraction(rec["toe_print"]), style)
            elif name == "gnss_week":
                txt, v = d19(rng, Fraction(rec["week_print"]), style)
            elif name == "transmission_time":
                txt, v = d19(rng, Fraction(rec["ttx_print"]), style)
            elif name == "iode":
                txt, v = d19(rng, Fraction(rng.randint(0, 255)), style)
            elif name in ("sv_health", "gnss_data_info"):
                txt, v = d19(rng, Fraction(rng.choice([0, 1, 63, 258, 513, 516, 517])), style)
            else:
                txt, v = d19(rng, style=style)
            cells.append(txt)
            exp[name] = v
        line = "   " + "".join(cells)
        lines.append(line.rstrip() if rng.random() < 0.6 else line)
    return lines, exp


def header2(version, rng):
    v = {"2.11": "     2.11", "2.10": "     2.10", "2": "     2", "2.12": "     2.12"}[version]
    out = [f"{v:<20}{'N: GPS NAV DATA':<40}RINEX VERSION / TYPE",
           f"{'verif-writer':<20}{'C12':<20}{'29-SEP-26 00:00':<20}PGM / RUN BY / DATE"]
    if rng.random() < 0.5:
        out.append(f"{'a comment':<60}COMMENT")
    if version != "2.12" and rng.random() < 0.5:
        out.append(f"{'    0.1583D-07  0.0000D+00 -0.1192D-06  0.0000D+00':<60}ION ALPHA")
        out.append(f"{'    0.1126D+06 -0.1638D+05 -0.2621D+06  0.6554D+05':<60}ION BETA")
    if rng.random() < 0.5:
        out.append(f"{'    18':<60}LEAP SECONDS")
    out.append(f"{'':<60}END OF HEADER")
    return out


def gen_epoch(rng, near_week_boundary, system="G"):
    """a GPS-scale record epoch (whole seconds), 1980-2035 (BeiDou: from its week 0 = GPS week 1356)"""
    lo = 1357 if system == "C" else 1
    week = rng.randint(lo, 2900) if rng.random() < 0.7 or system == "C" else rng.choice([1, 2, 51, 52, 53, 1042, 1043, rng.randint(1, 1050)])
    if near_week_boundary:
        sow = rng.choice([0, 16, 3600, 7184, WEEK - 16, WEEK - 3600, WEEK - 7200, WEEK - 1, 1])
    else:
        sow = rng.randint(0, WEEK - 1) // 16 * 16 if rng.random() < 0.5 else rng.randint(0, WEEK - 1)
    return GPS0 + timedelta(weeks=week, seconds=sow)


def gen_file3(rng, quick):
    kind = rng.choice(["G", "E", "C", "J", "I", "M", "M", "M"])
    n = rng.randint(1, 8 if quick else 40)
    style = rng.choice([None, None, "0.dD", ".dE", "d.de"])
    near = rng.random() < 0.5
    recs, lines = [], header3(kind, rng)
    for _ in range(n):
        system = kind if kind != "M" else rng.choice("GECJI")
        if kind == "M" and rng.random() < 0.25:
            lines += render_glo_sbas(rng, rng.choice("RS"), rng.randint(1, 24), gen_epoch(rng, False))
        rec = gen_record(rng, system, rng.randint(1, 36), gen_epoch(rng, near, system))
        ls, exp = render_record3(rng, rec, style)
        rec["exp"] = exp
        recs.append(rec)
        lines += ls
    if kind == "M" and rng.random() < 0.3:
        lines += render_glo_sbas(rng, "R", 7, gen_epoch(rng, False))
    return {"version": "3", "sat_sys": kind, "text": "\n".join(lines) + "\n", "recs": recs, "ext": ".rnx"}


def gen_file2(rng, quick, parser):
    system = rng.choice(["G", "G", "E"])
    n = rng.randint(1, 8 if quick else 40)
    style = rng.choice([None, "0.dD", "0.dD", "d.de"])
    near = rng.random() < 0.5
    version = "2.12" if parser == "rinex212_nav" else rng.choice(["2.11", "2.10", "2"])
    recs, lines = [], header2(version, rng)
    for _ in range(n):
        rec = gen_record(rng, system, rng.randint(1, 32), gen_epoch(rng, near, system))
        ls, exp = render_record2(rng, rec, style)
        rec["exp"] = exp
        recs.append(rec)
        lines += ls
    return {"version": version, "sat_sys": system, "text": "\n".join(lines) + "\n", "recs": recs,
            "ext": ".19n" if system == "G" else ".19l"}


# ------------------------------------------------------------------------------------------
# real code


class Impl:
    def __init__(self):
        self.dir = tempfile.mkdtemp(prefix="c12-")
        self.n = 0
        from midgard.parsers.rinex2_nav import Rinex2NavParser
        from midgard.parsers.rinex212_nav import Rinex212NavParser
        from midgard.parsers.rinex3_nav import Rinex3NavParser

        self.classes = {"rinex3_nav": Rinex3NavParser, "rinex2_nav": Rinex2NavParser, "rinex212_nav": Rinex212NavParser}

    def path(self, ext):
        self.n += 1
        return os.path.join(self.dir, f"nav{self.n % 8}{ext}")

    def parse(self, parser, text, ext):
        import pathlib

        fn = self.path(ext)
        with open(fn, "w", newline="") as f:
            f.write(text)
        try:
            with warnings.catch_warnings():
                warnings.simplefilter("ignore")
                p = self.classes[parser](pathlib.Path(fn))
                p.parse()
            return "ok", p, fn
        except BaseException as e:  # noqa: BLE001  (log.fatal raises SystemExit)
            if isinstance(e, KeyboardInterrupt):
                raise
            return "raises", f"{type(e).__name__}: {e}", fn

    def cleanup(self):
        import shutil

        shutil.rmtree(self.dir, ignore_errors=True)


def gps_seconds(t):
    """exact-ish GPS seconds of a midgard Time array (week*604800 + seconds of week), as Fractions"""
    ws = t.gps_ws
    w = np.atleast_1d(np.asarray(ws.week, dtype=float))
    s = np.atleast_1d(np.asarray(ws.seconds, dtype=float))
    return [Fraction(float(a)) * WEEK + Fraction(float(b)) for a, b in zip(w, s)]


TIME_TOL = Fraction(1, 10**6)


def impl_columns(p):
    """{name: list} with floats as Fractions/None, text as str, times as GPS seconds"""
    out = {}
    for k, v in p.data.items():
        if k in ("time", "toe", "transmission_time"):
            out[k] = ("t", gps_seconds(v))
        elif k in ("system", "satellite"):
            out[k] = ("s", [str(x) for x in v])
        elif k == "nav_type" or k.startswith(("shs_", "dvs_")):
            continue  # derived flags, not part of the statement
        else:
            out[k] = ("f", [None if x is None else Fraction(float(x)) for x in v])
    return out


def model_columns(ans):
    j = json.loads(ans)
    out = {}
    for k, kind, vals in j:
        k = common.unhex(k)
        if kind == "t":
            out[k] = ("t", [Fraction(x) for x in vals])
        elif kind == "s":
            out[k] = ("s", [common.unhex(x) for x in vals])
        else:
            out[k] = ("f", [None if x is None else Fraction(float(Fraction(x))) for x in vals])
    return out


def diff_columns(m, i):
    if list(m) != list(i) and sorted(m) != sorted(i):
        return f"keys differ: model-only {sorted(set(m) - set(i))} impl-only {sorted(set(i) - set(m))}"
    for k in m:
        (km, vm), (ki, vi) = m[k], i[k]
        if km != ki or len(vm) != len(vi):
            return f"{k}: kind/length {km}/{len(vm)} vs {ki}/{len(vi)}"
        for n, (a, b) in enumerate(zip(vm, vi)):
            if km == "t":
                if abs(a - b) > TIME_TOL:
                    return f"{k}[{n}]: {float(a)} vs {float(b)}"
            elif a != b:
                return f"{k}[{n}]: {a!r} vs {b!r}"
    return None


# ------------------------------------------------------------------------------------------
# oracle


def expected_name(general, system):
    return RENAME.get(general, {}).get(system) if general in RENAME else general


def oracle(ctx, case, f, p, parser):
    recs = f["recs"]
    data = p.data
    n = len(recs)
    lens = {k: len(v) for k, v in data.items()}
    if len(set(lens.values())) != 1:
        ctx.violate("columns-unequal", f"columns have different lengths: {sorted(set(lens.values()))}", case)
        return
    if lens.get("time") != n:
        ctx.violate("record-count", f"{n} supported records written, {lens.get('time')} returned", case)
        return
    single = parser != "rinex3_nav"
    for i, r in enumerate(recs):
        s = r["system"]
        if str(data["system"][i]) != s or str(data["satellite"][i]) != f"{s}{r['prn']:02d}":
            ctx.violate("satellite", f"record {i}: {data['system'][i]}/{data['satellite'][i]} vs {s}{r['prn']:02d}", case)
            return
        for general, q in r["exp"].items():
            name = expected_name(general, s)
            if general == "gnss_week":
                # the week column is the GPS week of toe (BeiDou weeks shifted by 1356)
                want_week = r["week_print"] + (WEEK_OFF.get(s, 0) if f["sat_sys"] in ("M", "C") else 0)
                if float(data["gnss_week"][i]) != float(want_week):
                    ctx.violate(f"gnss_week:{'C' if s == 'C' else 'x'}", f"record {i} ({s}{r['prn']:02d}) gnss_week: expected GPS week {want_week}, "
                                f"parser returned {data['gnss_week'][i]!r}", {**case, "record": i})
                    return
                continue
            if general in ("toe", "transmission_time"):
                continue
            if name is None:
                continue
            if name not in data:
                ctx.violate(f"field-missing:{name}", f"field {name} (system {s}) is not returned", case)
                return
            got = data[name][i]
            if got is None or float(got) != float(q):
                ctx.violate(f"value:{general}", f"record {i} ({s}{r['prn']:02d}) {name}: file has {float(q)!r}, parser returned {got!r}",
                            {**case, "record": i, "field": name})
                return
        if not single:
            for general, per in RENAME.items():
                for other in set(per.values()):
                    if per.get(s) != other and other in data and data[other][i] is not None:
                        ctx.violate(f"rename-leak:{other}", f"record {i} (system {s}) has a value under {other}", case)
                        return
    tt = gps_seconds(data["time"])
    te = gps_seconds(data["toe"])
    tx = gps_seconds(data["transmission_time"])
    for i, r in enumerate(recs):
        for nm, got, want in (("time", tt[i], r["toc_gps"]), ("toe", te[i], r["toe_gps"]), ("transmission_time", tx[i], r["ttx_gps"])):
            w = Fraction(int((want - GPS0).total_seconds()))
            if abs(got - w) > TIME_TOL:
                kind = "week-crossing" if (r["toc_gps"] - GPS0).days // 7 != (want - GPS0).days // 7 else "same-week"
                ctx.violate(f"time:{nm}:{r['system'] if r['system'] == 'C' else 'x'}:{kind}:{r['ttx_mode'] if nm == 'transmission_time' else ''}",
                            f"record {i} ({r['system']}{r['prn']:02d}) {nm}: expected GPS {want.isoformat()}, parser is off by "
                            f"{float(got - w)} s", {**case, "record": i})
                return


# ------------------------------------------------------------------------------------------


def one_file(ctx, impl, drv, f, parser):
    case = {"parser": parser, "ext": f["ext"], "file": f["text"]}
    ctx.case({"p": parser, "t": common.digest(f["text"])}, nontrivial=len(f["recs"]) > 0)
    ctx.count(f"parser:{parser}")
    ctx.count(f"sat_sys:{f['sat_sys']}")
    for r in f["recs"]:
        ctx.count(f"sys:{r['system']}")
    st, p, fn = impl.parse(parser, f["text"], f["ext"])
    a = drv.ask1(f"c12 {parser} {f['ext'][-1]} {hexs(f['text'])}")
    if st == "raises":
        ctx.violate(f"raises:{p.split(':')[0]}", f"well-formed file makes {parser} raise {p}", case)
        if a != "RAISES":
            ctx.disagree(f"{parser} (model returns, code raises)", case, "value", p)
        return
    if a in ("RAISES", "bad-op"):
        ctx.disagree(f"{parser} (model raises, code returns)", case, a, "value")
    else:
        d = diff_columns(model_columns(a), impl_columns(p))
        if d:
            ctx.disagree(f"{parser} columns", case, d, "")
    oracle(ctx, case, f, p, parser)
    return fn


def float_cases(ctx, drv, rng, n):
    """`_float` of the three parser modules vs the model, on the spellings the statement lists"""
    from midgard.parsers import rinex2_nav, rinex3_nav, rinex212_nav

    texts = []
    for _ in range(n):
        t, _v = d19(rng)
        k = rng.random()
        if k < 0.1:
            t = t.replace("E", "d").replace("D", "d")
        elif k < 0.15:
            t = rng.choice(["", " ", "   ", "0", "-1", "1.5", "+2.5E0", "1D0", "1e+3", ".5", "5."])
        texts.append(t)
    ans = drv.ask([f"c12 float {hexs(t)}" for t in texts])
    for t, a in zip(texts, ans):
        case = {"float": t}
        ctx.case(case)
        ctx.count("float")
        vals = []
        for mod in (rinex3_nav, rinex2_nav, rinex212_nav):
            try:
                vals.append(Fraction(mod._float(t)))
            except ValueError:
                vals.append("ValueError")
        if len(set(map(str, vals))) != 1:
            ctx.violate("float:parsers-differ", f"_float({t!r}) differs between the nav parsers: {vals}", case)
        m = "ValueError" if a == "RAISES" else a if a == "bad-op" else Fraction(float(Fraction(a)))
        if m != vals[0]:
            ctx.disagree("_float", case, str(m), str(vals[0]))
        # oracle: D, E, e and d exponents all denote the same number; blank is zero
        if t.strip() == "":
            want = Fraction(0)
        else:
            try:
                want = Fraction(float(t.strip().replace("D", "e").replace("d", "e").replace("E", "e")))
            except ValueError:
                continue
        if vals[0] != want:
            ctx.violate("float:lower-case-d" if "d" in t else "float:value", f"_float({t!r}) = {vals[0]} but the column holds {want}", case)


def run(ctx: Ctx):
    from translator import extract_rinexnav

    ctx.extra["tables_regenerated"] = bool(extract_rinexnav.main())
    ctx.proof = common.prove("C12")
    drv = ctx.driver
    rng = ctx.rng
    quick = not ctx.thorough
    impl = Impl()
    ctx.rule = ("ephemeris models (epoch, toe within 2 h, transmission time up to 3 h earlier, 28 further values) for "
                "G/E/C/J/I rendered by an independent writer in RINEX 3.04 (single-system and mixed files with "
                "GLONASS/SBAS records in between) and 2.10/2.11/2.12 layouts; 19-column reals in D/E/e spellings, "
                "with and without leading zero, negative values abutting the previous field, blank fields, lines cut "
                "after the last value; half of the files have their epochs within 2 h of a GPS week boundary; "
                "a case is non-trivial when the file has at least one supported record; distinct by file text")
    ctx.trusted += ["float(text) is compared with the correctly rounded double of the model's exact rational",
                    "midgard Time(gps_ws / datetime) constructors are taken as given (C02); instants compared to 1e-6 s",
                    "dateutil.parser.parse / strptime on the ISO text built by the parser are modelled as the civil date"]
    ctx.assumptions += ["record epochs 1980-2035, whole seconds", "IODE integral for GPS/QZSS (the parser refuses CNAV)",
                        "header: only version / file type / satellite system enter the model"]
    try:
        for fcase in sorted((common.VERIF / "corpus" / "C12").glob("*.json")):
            c = json.loads(fcase.read_text())
            c = c.get("replay", c)
            st, p, _ = impl.parse(c["parser"], c["file"], c["ext"])
            ctx.case({"corpus": fcase.name})
            ctx.count("corpus")
            a = drv.ask1(f"c12 {c['parser']} {c['ext'][-1]} {hexs(c['file'])}")
            if st == "raises":
                ctx.violate(f"raises:{p.split(':')[0]}", f"corpus file makes {c['parser']} raise {p}", c)
            elif a in ("RAISES", "bad-op") or diff_columns(model_columns(a), impl_columns(p)):
                ctx.disagree(f"{c['parser']} (corpus {fcase.name})", c, a[:200], "")
        float_cases(ctx, drv, rng, ctx.budget(1500, 20000))
        for _ in range(ctx.budget(400, 4000)):
            one_file(ctx, impl, drv, gen_file3(rng, quick), "rinex3_nav")
        for parser in ("rinex2_nav", "rinex212_nav"):
            for _ in range(ctx.budget(120, 1200)):
                one_file(ctx, impl, drv, gen_file2(rng, quick, parser), parser)
        dispatch_cases(ctx, impl, rng)
    finally:
        impl.cleanup()
    ctx.traces = ctx.evaluations


def dispatch_cases(ctx, impl, rng):
    """rinex_nav.get_rinex2_or_rinex3 picks the parser by the version in the first header line"""
    import pathlib

    from midgard.parsers import rinex_nav

    for parser, gen in (("rinex3_nav", lambda: gen_file3(rng, True)), ("rinex2_nav", lambda: gen_file2(rng, True, "rinex2_nav")),
                        ("rinex212_nav", lambda: gen_file2(rng, True, "rinex212_nav"))):
        f = gen()
        fn = impl.path(f["ext"])
        with open(fn, "w", newline="") as fh:
            fh.write(f["text"])
        case = {"dispatch": parser, "file": f["text"], "ext": f["ext"], "parser": parser}
        ctx.case({"dispatch": parser, "t": common.digest(f["text"])})
        ctx.count("dispatch")
        try:
            with warnings.catch_warnings():
                warnings.simplefilter("ignore")
                p = rinex_nav.get_rinex2_or_rinex3(pathlib.Path(fn))
            if p.parser_name != parser:
                ctx.violate("dispatch", f"version {f['version']} dispatched to {p.parser_name}, expected {parser}", case)
        except BaseException as e:  # noqa: BLE001
            if isinstance(e, KeyboardInterrupt):
                raise
            ctx.violate(f"dispatch:raises:{type(e).__name__}", f"dispatch raised {type(e).__name__}: {e}", case)


def replay(payload):
    c = payload.get("replay", payload)
    ctx = Ctx("C12", "quick", 0)
    impl = Impl()
    try:
        if "file" in c:
            st, p, _ = impl.parse(c["parser"], c["file"], c["ext"])
            print("key:", payload.get("key"), "|", payload.get("what"))
            if st == "raises":
                print("VIOLATION (replayed): raises", p)
                return 1
            a = ctx.driver.ask1(f"c12 {c['parser']} {c['ext'][-1]} {hexs(c['file'])}")
            d = diff_columns(model_columns(a), impl_columns(p)) if a not in ("RAISES", "bad-op") else a
            print("model vs code:", d or "agree")
            if "record" in c:
                i = c["record"]
                print({k: (str(v[i]) if k not in ("time", "toe", "transmission_time") else float(gps_seconds(v)[i])) for k, v in p.data.items()
                       if k in ("time", "toe", "transmission_time", "satellite")})
        elif "float" in c:
            from midgard.parsers import rinex3_nav

            try:
                print("_float(%r) = %r" % (c["float"], rinex3_nav._float(c["float"])))
            except ValueError as e:
                print("VIOLATION (replayed): _float(%r) raises %s" % (c["float"], e))
                return 1
    finally:
        impl.cleanup()
    return 0
