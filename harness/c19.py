"""C19 — configuration lookup follows profile priority and fallback; typed accessors; text round trip.

translate:   translator/extract_config.py → Generated/ConfigTables.lean (_BOOLEAN_STATES, FILE_WIDTH,
             the regex of _replace, the exception classes `get` catches, key_width default)
prove:       lean/Midgard/Props/C19.lean about lean/Midgard/Model/Config.lean
correspond:  histories of update / update_from_dict / _options / _config_section / _file / profiles /
             master_section / fallback links / update_vars on three real Configuration objects (main -> fb -> fb2)
             versus the compiled model; files with DEFAULT / __replace__ / __vars__ sections; after the steps a battery
             of get / [] / exists / sources / view / as_str / write_to_file+read_from_file observations and of looks
             (ops G, I) at the entry handed back: .str, .source, whose variable dictionary it holds, .replaced,
             .replace(), typed accessors of the replaced entry; typed accessors and entry.replace on grammar values;
             configurations aimed at the text form (theorem text_roundtrip: op `w` = asStr against as_str character
             for character, op `r` = Cfg.updateFromText against ConfigParser+update_from_file on the written file
             incl. the per-profile store, op `t` = the theorem's hypothesis WfText against the oracle's wf_text)
oracle:      a reference store {profile: {section: {key: value}}} kept by the harness states the
             property directly: override → first listed profile → profile-less → fallback → default →
             MissingSection/MissingEntry error; master when no section; accessors vs re.split / the eight
             spellings / int(); replace touches known variables only; an answer is filled in from the variables of the
             configuration it belongs to (asked configuration for own entry / override / default, the defining fallback
             otherwise) — by reference substitution and, without it, against a configuration with the same variables
             and no fallback / the fallback asked itself; written file reads back to the view
"""
from __future__ import annotations

import itertools
import json
import os
import re
import shutil
import tempfile
from pathlib import Path

from . import common
from .common import Ctx, hexs

SECTIONS = ["s1", "s2"]
KEYS = ["k1", "k2", "k3"]
PROFILES = ["p1", "p2", "p3"]
NAMES = ["main", "fb", "fb2"]


def _imp():
    from midgard.config.config import Configuration, ConfigurationEntry
    from midgard.dev import exceptions

    return Configuration, ConfigurationEntry, exceptions


def err_name(ex):
    from midgard.dev import exceptions

    for cls, nm in ((exceptions.MissingSectionError, "missingSection"), (exceptions.MissingEntryError, "missingEntry"),
                    (exceptions.MissingConfigurationError, "missingConfiguration"), (IndexError, "index"),
                    (ValueError, "value"), (RecursionError, "recursion"), (KeyError, "key")):
        if isinstance(ex, cls):
            return nm
    import configparser

    if isinstance(ex, configparser.Error):
        return "ini"
    tb = ex.__traceback__
    while tb is not None and tb.tb_next is not None:
        tb = tb.tb_next
    if tb is not None and tb.tb_frame.f_code.co_filename.endswith("configparser.py"):
        return "ini"  # e.g. AttributeError for a continuation line after a valueless option (Python < 3.13)
    return f"other:{type(ex).__name__}"


def o(x):
    return "-" if x is None else hexs(x)


# ------------------------------------------------------------------------------------------------
# value grammar

WORDS = ["alpha", "beta_2", "gnss", "vlbi", "Kartverket", "x"]
VARS = {"var_1": "one", "var_2": "two", "year": "2019", "nest": "<{var_1}>", "pad": "ab",
        # known variables whose value is falsy: substituted like any other known variable
        "empty": "", "zero": 0, "off": False, "nest0": "[{empty}{zero}]"}


def gen_value(rng, long_ok=True):
    k = rng.random()
    if k < 0.16:
        return rng.choice(WORDS)
    if k < 0.28:
        return rng.choice(["42", "-3", "+17", "1_000", "3.14", "0012", " 7 ", "1e3", "0x10", "1__0", "_1", "12_", "- 5"])
    if k < 0.40:
        return rng.choice(["On", "TRUE", "no", "0", "1", "off", "Yes", "false", "maybe", "2", "t", ""])
    if k < 0.55:
        n = rng.randint(1, 6)
        sep = rng.choice([", ", ",", " ", " , "])
        return sep.join(rng.choice(WORDS + ["1", "2.5", "a:1", "b:2", "c:", ":d", "e:f:g"]) for _ in range(n))
    if k < 0.67:
        return rng.choice(["/data/{year}/file_{var_1}.txt", "~/midgard/{unknown}/x", "/a/b/c.conf", "{var_1}", "pre{var_2}post",
                           "{unknown}", "{var_1:>8}|", "{pad:<5}|{pad:^6}|", "{unknown:>9}", "{nest} and {nest}", "{{var_1}}",
                           "{var_1", "x{}y", "{9}", "a{unknown:03d}b", "{var_1:*^9}", "{year:7}",
                           "run{empty}.log", "{empty}", "obs_{zero}_{unknown}.dat", "{off}/{empty}/{var_1}", "{nest0}|{empty:>3}|",
                           "{empty}{unknown}{zero}"])
    if k < 0.75 and long_ok:
        n = rng.randint(20, 60)
        return rng.choice([", ", " "]).join(rng.choice(WORDS) + str(i) for i in range(n))
    if k < 0.80 and long_ok:
        return "/very/long/path/" + "/".join("directory_%d" % i for i in range(rng.randint(10, 25))) + "/file.txt"
    if k < 0.90:
        return rng.choice(["a  b", " lead", "trail ", "two\nlines", "tab\there", "a = b", "semi;colon", "x #y", "[brackets]",
                           "k:v", "=", "a,,b", ",", "  "])
    return "v%d" % rng.randint(0, 99)


def is_blank(c):
    return 9 <= ord(c) <= 13 or 28 <= ord(c) <= 32


def word_ok(x):
    return x != "" and all(not is_blank(c) and c != "%" for c in x) and x[0] not in "#;"


def wf_text_value(v):
    ws = v.split()
    return " ".join(ws) == v and all(word_ok(x) for x in ws) and v.isascii()


def key_ok(k):
    return k != "" and all(not is_blank(c) and c != "=" for c in k) and k.lower() == k and k[0] not in "[#;" and k.isascii()


def fits(width, k, key_width=30):
    return max(key_width, len(k)) + 2 <= width


def wf_text(view, width):
    """the configurations whose text form (as_str at `width`, key column 30) must read back: the same predicate as
    `WfText true width 30` of the theorem text_roundtrip (lean/Midgard/Proofs/ConfigDoc.lean); the two are compared
    on every generated configuration (op `t`).  view: section -> key -> (value, source, meta)"""
    for n, d in view.items():
        if any(is_blank(c) for c in n) or n.partition("__")[0] == "" or n == "DEFAULT" or not d or not n.isascii():
            return False
        for k, e in d.items():
            if not (key_ok(k) and ":" not in k and fits(width, k) and wf_text_value(e[0])):
                return False
            for mk, mv in (e[2] or {}).items():
                if not key_ok(f"{k}:{mk}"):
                    return False
                if mv is not None and not (fits(width, f"{k}:{mk}") and wf_text_value(str(mv))):
                    return False
    return True


# ------------------------------------------------------------------------------------------------
# the world: two real configurations + the reference store of the oracle


class Ref:
    """reference semantics of one configuration (independent of the Lean model)"""

    def __init__(self, name):
        self.name = name
        self.store = {}  # profile -> section -> key -> (value, source, meta)
        self.profiles = [None]
        self.master = None
        self.vars = {}
        self._version, self._cached = 0, None
        self.hidden = set()  # sections deleted from the flattened view (del cfg[name] / clear()) until the next rebuild

    def resolve(self, section, key):
        for p in self.profiles:
            e = self.store.get(p, {}).get(section, {}).get(key)
            if e is not None:
                return e
        return None

    def has_section(self, section):
        return any(self.store.get(p, {}).get(section) for p in self.profiles)

    def view(self):
        """sections → keys → entry, every (section, key) defined by a listed profile (read-only for the callers)"""
        key = (self._version, tuple(self.profiles), frozenset(self.hidden))
        if self._cached is not None and self._cached[0] == key:
            return self._cached[1]
        out = {}
        for p in reversed(self.profiles):  # dict order of the view: lowest priority first (matters only for
            for s, d in self.store.get(p, {}).items():  # which entries a refused multi-entry update got through)
                for k in d:
                    out.setdefault(s, {}).setdefault(k, None)
        for s in out:
            for k in out[s]:
                out[s][k] = self.resolve(s, k)
        for s in self.hidden:
            out.pop(s, None)
        self._cached = (key, out)
        return out

    def put(self, profile, section, key, value, source, meta):
        self._version += 1
        self.store.setdefault(profile, {}).setdefault(section, {})[key] = (str(value), source, meta or {})


class World:
    def __init__(self, tmp):
        Configuration, _, _ = _imp()
        self.cfg = [Configuration(n) for n in NAMES]
        self.ref = [Ref(n) for n in NAMES]
        self.linked = False   # fb is the fallback of main
        self.linked2 = False  # fb2 is the fallback of fb
        self.tmp = tmp
        self.nfile = 0

    def chain_idx(self, i):
        """the configuration asked followed by its fallback configurations (indices)"""
        if i == 0:
            return [0] + (self.chain_idx(1) if self.linked else [])
        if i == 1:
            return [1] + ([2] if self.linked2 else [])
        return [2]

    def chain(self, i):
        return [self.ref[j] for j in self.chain_idx(i)]


# ------------------------------------------------------------------------------------------------
# canonical observation text (same grammar as Driver/C19.lean)


def show_meta(meta):
    if not meta:
        return ""
    return "{" + ";".join(f"{hexs(k)}={'~' if v is None else hexs(str(v))}" for k, v in meta.items()) + "}"


def show_entry(k, e, with_source):
    return f"{hexs(k)}={hexs(e._value)}" + (f"@{hexs(e.source)}" if with_source else "") + show_meta(e.meta)


def show_section(name, sec, with_source):
    return f"{hexs(name)}[" + ",".join(show_entry(k, e, with_source) for k, e in sec.data.items()) + "]"


def show_sections(secs, with_source):
    if not secs:
        return "{}"
    return "/".join(show_section(n, s, with_source) for n, s in secs.items())


def show_view(cfg, with_source):
    return show_sections(cfg._sections, with_source)


def show_store(cfg):
    """`_profile_sections`: profile (`~` = None) `>` its sections, in insertion order"""
    return "|".join(("~" if p is None else hexs(p)) + ">" + show_sections(secs, False) for p, secs in cfg._profile_sections.items())


def kvs(d, sep=","):
    if not d:
        return "[]"
    return sep.join(f"{hexs(k)}={'~' if v is None else hexs(str(v))}" for k, v in d.items())


def hexlist(l):
    return ",".join(hexs(x) for x in l) if l else "[]"


# ------------------------------------------------------------------------------------------------
# executing one op on the real code; returns (driver token, observation text)


def run_op(w: World, op: dict):
    Configuration, ConfigurationEntry, exceptions = _imp()
    t = op["op"]
    i = op.get("cfg", 0)
    cfg = w.cfg[i]
    try:
        if t == "U":
            tok = ":".join(["U", str(i), hexs(op["sec"]), hexs(op["key"]), hexs(op["val"]), o(op.get("profile")), hexs(op["source"]),
                            "1" if op["allow_new"] else "0", "-" if not op.get("meta") else kvs(op["meta"], ";")])
            cfg.update(op["sec"], op["key"], op["val"], profile=op.get("profile"), source=op["source"],
                       meta=dict(op["meta"]) if op.get("meta") else None, allow_new=op["allow_new"])
            return tok, "ok"
        if t == "D":
            tok = ":".join(["D", str(i), o(op.get("sec")), "1" if op["allow_new"] else "0", kvs(op["dict"])])
            cfg.update_from_dict(dict(op["dict"]), section=op.get("sec"), allow_new=op["allow_new"])
            return tok, "ok"
        if t == "O":
            tok = ":".join(["O", str(i), o(op.get("profile")), "1" if op["allow_new"] else "0", hexlist(op["options"])])
            unused = cfg.update_from_options(list(op["options"]), profile=op.get("profile"), allow_new=op["allow_new"])
            return tok, "ok;unused=" + hexlist(sorted(unused))
        if t == "S":
            j = op["from"]
            tok = ":".join(["S", str(i), str(j), hexs(op["fromsec"]), o(op.get("sec")), "1" if op["allow_new"] else "0"])
            other = w.cfg[j]._sections[op["fromsec"]]
            cfg.update_from_config_section(other, section=op.get("sec"), allow_new=op["allow_new"])
            return tok, "ok"
        if t == "F":
            w.nfile += 1
            path = Path(w.tmp) / f"f{w.nfile}.conf"
            path.write_text(op["text"])
            op["_path"] = str(path)
            tok = ":".join(["F", str(i), "1" if op["allow_new"] else "0", "1" if op["case_sensitive"] else "0", hexs(str(path)),
                            hexs(op["text"])])
            cfg.update_from_file(path, allow_new=op["allow_new"], case_sensitive=op["case_sensitive"])
            return tok, "ok"
        if t == "P":
            v = op["profiles"]
            tok = f"P:{i}:" + ("-" if v is None else "[]" if not v else ",".join("~" if p is None else hexs(p) for p in v))
            cfg.profiles = None if v is None else list(v)
            return tok, "ok"
        if t == "M":
            tok = f"M:{i}:{o(op['master'])}"
            cfg.master_section = op["master"]
            return tok, "ok"
        if t == "L":
            tok = f"L:{1 if op['on'] else 0}"
            w.cfg[0].fallback_config = w.cfg[1] if op["on"] else None
            w.linked = bool(op["on"])
            return tok, "ok"
        if t == "X":
            tok = f"X:{i}:{hexs(op['name'])}"
            del cfg[op["name"]]
            return tok, "ok"
        if t == "C":
            tok = f"C:{i}"
            cfg.clear()
            return tok, "ok"
        if t == "Y":
            return run_alias(cfg, i, op)
        if t == "K":
            tok = f"K:{1 if op['on'] else 0}"
            w.cfg[1].fallback_config = w.cfg[2] if op["on"] else None
            w.linked2 = bool(op["on"])
            return tok, "ok"
        if t == "V":
            tok = f"V:{i}:{kvs(op['vars'])}"
            cfg.update_vars(dict(op["vars"]))
            return tok, "ok"
        # ---------------- queries
        if t == "g":
            tok = ":".join(["g", str(i), hexs(op["key"]), o(op.get("value")), o(op.get("section")), o(op.get("default"))])
            e = cfg.get(op["key"], value=op.get("value"), section=op.get("section"), default=op.get("default"))
            return tok, f"ok:{hexs(e._key)}:{hexs(e._value)}:{hexs(e.source)}"
        if t == "G":
            tok = ":".join(["G", str(i), hexs(op["key"]), o(op.get("value")), o(op.get("section")), o(op.get("default")),
                            kvs(op["callvars"]), o(op.get("rdefault"))])
            e = cfg.get(op["key"], value=op.get("value"), section=op.get("section"), default=op.get("default"))
            return tok, look(w, i, e, op)
        if t == "I":
            tok = ":".join(["I", str(i), hexs(op["section"]), hexs(op["key"]), kvs(op["callvars"]), o(op.get("rdefault"))])
            sec = cfg[op["section"]]
            if isinstance(sec, ConfigurationEntry):
                return tok, "err:key"
            return tok, look(w, i, sec[op["key"]], op)
        if t == "i":
            tok = f"i:{i}:{hexs(op['name'])}"
            r = cfg[op["name"]]
            if isinstance(r, ConfigurationEntry):
                return tok, f"entry:{hexs(r._key)}:{hexs(r._value)}"
            return tok, "sect:" + show_section(r.name, r, False)
        if t == "e":
            tok = f"e:{i}:{hexs(op['key'])}:{o(op.get('section'))}"
            return tok, "1" if cfg.exists(op["key"], section=op.get("section")) else "0"
        if t == "s":
            return f"s:{i}", hexlist(sorted(cfg.sources))
        if t == "v":
            return f"v:{i}", show_view(cfg, True)
        if t == "p":
            return f"p:{i}", ",".join("~" if p is None else hexs(p) for p in cfg.profiles) or "[]"
        if t == "w":
            return f"w:{i}:{op['width']}", hexs(cfg.as_str(width=op["width"]))
        if t == "r":
            tok = f"r:{i}:{op['width']}"
            w.nfile += 1
            path = Path(w.tmp) / f"w{w.nfile}.conf"
            cfg.write_to_file(path, width=op["width"])
            op["_written"] = path.read_text()
            back = Configuration.read_from_file("reread", path)
            op["_back"] = back
            return tok, show_view(back, False) + "|" + show_store(back)
        if t == "t":
            # the hypothesis of the theorem `text_roundtrip` (Lean: WfText) against the predicate the oracle uses
            view = {n: {k: (e._value, None, e.meta) for k, e in sec.data.items()} for n, sec in cfg._sections.items()}
            return f"t:{i}:{op['width']}", "1" if wf_text(view, op["width"]) else "0"
        if t == "a":
            tok = f"a:{op['kind']}:{hexs(op['value'])}"
            e = ConfigurationEntry("k", op["value"])
            kind = op["kind"]
            if kind in ("list", "tuple"):
                r = getattr(e, kind)
                op["_raw"] = r
                return tok, hexlist(list(r))
            if kind == "dict":
                r = e.dict
                op["_raw"] = r
                return tok, ",".join(f"{hexs(k)}={hexs(v)}" for k, v in r.items()) or "[]"
            if kind == "bool":
                r = e.bool
                op["_raw"] = r
                return tok, "1" if r else "0"
            r = e.int
            op["_raw"] = r
            return tok, str(r)
        if t == "A":
            return run_typed(op, ConfigurationEntry)
        if t == "x":
            tok = ":".join(["x", hexs(op["value"]), kvs(op["vars"]), kvs(op["callvars"]), o(op.get("default"))])
            e = ConfigurationEntry("k", op["value"], vars_dict=dict(op["vars"]))
            r = e.replace(default=op.get("default"), **dict(op["callvars"]))
            op["_raw"] = r._value
            return tok, "ok:" + hexs(r._value)
    except Exception as ex:  # noqa: BLE001 - every exception class is mapped and compared
        op["_exc"] = ex
        return tok, "err:" + err_name(ex)
    raise AssertionError(f"unknown op {t}")


EPOCH2000 = None


def us_since_2000(d):
    import datetime as _dt

    if not isinstance(d, _dt.datetime):
        d = _dt.datetime(d.year, d.month, d.day)
    delta = d - _dt.datetime(2000, 1, 1)
    return (delta.days * 86400 + delta.seconds) * 10**6 + delta.microseconds


def show_float(x):
    import math

    if math.isnan(x):
        return "nan"
    if math.isinf(x):
        return "inf" if x > 0 else "-inf"
    return "f:" + (repr(x) if x != 0 else "0.0")


def run_typed(op, ConfigurationEntry):
    """typed accessors with arguments (op A): as_list / as_tuple / as_dict with patterns, float, date, datetime, path,
    as_enum on a fresh entry"""
    kind, v = op["kind"], op["value"]
    e = ConfigurationEntry("k", v)
    try:
        if kind in ("list", "tuple"):
            tok = ":".join(["A", kind, hexs(op["pattern"]), str(op["maxsplit"]), hexs(v)])
            kw = {} if op.get("defaults") else {"split_re": op["pattern"], "maxsplit": op["maxsplit"]}
            r = (e.as_list if kind == "list" else e.as_tuple)(**kw)
            op["_raw"] = r
            return tok, hexlist(list(r))
        if kind == "dict":
            tok = ":".join(["A", "dict", hexs(op["pattern"]), hexs(op["kvpattern"]), str(op["maxsplit"]), hexs(v)])
            kw = {} if op.get("defaults") else {"item_split_re": op["pattern"], "key_value_split_re": op["kvpattern"], "maxsplit": op["maxsplit"]}
            r = e.as_dict(**kw)
            op["_raw"] = r
            return tok, ",".join(f"{hexs(k)}={hexs(x)}" for k, x in r.items()) or "[]"
        if kind == "float":
            tok = f"A:float:{hexs(v)}"
            r = e.float if op.get("prop", True) else e.as_float()
            op["_raw"] = r
            return tok, show_float(r)
        if kind in ("date", "datetime"):
            tok = f"A:{kind}:{hexs(v)}"
            r = getattr(e, kind)
            op["_raw"] = r
            return tok, str(us_since_2000(r))
        if kind == "path":
            tok = f"A:path:{hexs(op['home'])}:{hexs(v)}"
            old = os.environ.get("HOME")
            os.environ["HOME"] = op["home"]
            try:
                r = e.path if op.get("prop", True) else e.as_path()
            finally:
                if old is None:
                    os.environ.pop("HOME", None)
                else:
                    os.environ["HOME"] = old
            op["_raw"] = str(r)
            return tok, hexs(str(r))
        if kind == "enum":
            tok = f"A:enum:{hexs(op['enum'])}:{hexs(v)}"
            r = e.as_enum(op["enum"])
            op["_raw"] = r
            return tok, hexs(r.name)
    except Exception as ex:  # noqa: BLE001
        op["_exc"] = ex
        return tok, "err:" + ("unknownEnum" if type(ex).__name__ == "UnknownEnumError" else err_name(ex))
    raise AssertionError(kind)


def edit_list(lst, edit):
    """change a list in place, as a caller would"""
    how = edit[0]
    if how == "insert0":
        lst.insert(0, edit[1])
    elif how == "append":
        lst.append(edit[1])
    elif how == "reverse":
        lst.reverse()
    elif how == "remove_first":
        if lst:
            del lst[0]
    elif how == "clear":
        lst.clear()
    elif how == "iadd":
        lst += [edit[1]]
    elif how == "noop":
        pass  # the selection is assigned again as it is (the view is rebuilt: sections deleted from it are back)
    return lst


def ptoken(i, v):
    return f"P:{i}:" + ("-" if v is None else "[]" if not v else ",".join("~" if p is None else hexs(p) for p in v))


def run_alias(cfg, i, op):
    """the caller changes, in place, an object a getter handed out (op Y).  (a) `profiles_assign`: … and assigns it back
    through the setter: the configuration follows the new list; everything else: not assigned back, nothing may change"""
    kind = op["kind"]
    if kind == "profiles_assign":
        want = edit_list(list(cfg.profiles), op["edit"])
        op["_assigned"] = list(want)
        tok = ptoken(i, want)
        if op["edit"][0] == "iadd":
            cfg.profiles += [op["edit"][1]]
        else:
            p = cfg.profiles
            edit_list(p, op["edit"])
            cfg.profiles = p
        return tok, "ok"
    if kind == "profiles_keep":  # the list the getter handed out, changed and dropped
        edit_list(cfg.profiles, op["edit"])
        return "N", "ok"
    if kind == "profiles_given":  # the caller keeps, and later changes, the list it assigned
        lst = list(op["profiles"])
        tok = ptoken(i, op["profiles"])
        cfg.profiles = lst
        edit_list(lst, op["edit"])
        return tok, "ok"
    if kind == "sections":
        l = cfg.sections
        edit_list(l, ["clear"])
    elif kind == "section_names":
        edit_list(cfg.section_names, ["append", "zz"])
    elif kind == "sources":
        cfg.sources.add("bogus source")
    elif kind == "as_dict":
        d = cfg.as_dict()
        for v in d.values():
            v.clear()
        d["zz"] = {"k1": "x"}
    elif kind == "entry_values":
        for sec in cfg.sections:
            for e in list(sec.values()):
                e.list.append("x")
                e.dict["k"] = "v"
                _ = e.tuple + ("y",)
    else:
        raise AssertionError(kind)
    return "N", "ok"


def look(w: World, i: int, e, op: dict):
    """what is seen on an entry a lookup handed back: key, .str, .source, the configuration whose variable dictionary it
    holds (position in the fallback chain of the configuration asked), .replaced, .replace(default=…, **callvars), and
    the typed accessors of the replaced entry"""
    def attempt(f):
        try:
            return f()
        except Exception as ex:  # noqa: BLE001
            return ex

    def show(r, f=lambda r: hexs(r)):
        return "!" + err_name(r) if isinstance(r, Exception) else f(r)

    depth = [str(d) for d, j in enumerate(w.chain_idx(i)) if e._vars_dict is w.cfg[j]._vars_dict]
    r0 = attempt(lambda: e.replaced)
    rx = attempt(lambda: e.replace(default=op.get("rdefault"), **dict(op["callvars"])))
    op["_look"] = {"str": e.str, "r0": r0 if isinstance(r0, Exception) else r0.str, "rx": rx if isinstance(rx, Exception) else rx.str}
    if isinstance(r0, Exception):
        acc = "-:-:-:-"
    else:
        al, ad, ab, ai = (attempt(lambda: r0.list), attempt(lambda: r0.dict), attempt(lambda: r0.bool), attempt(lambda: r0.int))
        op["_look"].update(list=al, tuple=attempt(lambda: r0.tuple), dict=ad, bool=ab, int=ai)
        acc = ":".join([show(al, hexlist), show(ad, lambda d: ",".join(f"{hexs(k)}={hexs(v)}" for k, v in d.items()) or "[]"),
                        show(ab, lambda b: "1" if b else "0"), show(ai, str)])
    return (f"ok:{hexs(e._key)}:{hexs(e.str)}:{hexs(e.source)}:{depth[0] if depth else '?'}:"
            f"{show(r0, lambda r: hexs(r.str))}:{show(rx, lambda r: hexs(r.str))}:{acc}")


# ------------------------------------------------------------------------------------------------
# the oracle: reference semantics of the mutating ops and the property of each observation


def ref_check_allowed(ref: Ref, view_before, section, key):
    if section not in view_before:
        return "missingSection"
    if key not in view_before[section]:
        return "missingEntry"
    return None


def ref_apply(w: World, op: dict, obs: str, rep, step):
    """apply a mutating op to the reference store; flags property violations of the op itself"""
    t = op["op"]
    i = op.get("cfg", 0)
    ref = w.ref[i]
    view_before = ref.view()

    def expect(res, where):
        if obs.split(";")[0] != res:
            rep.violate(f"update:{where}", f"{t} answered {obs!r}, the reference semantics says {res!r}", step)

    if t == "U":
        bad = None if op["allow_new"] else ref_check_allowed(ref, view_before, op["sec"], op["key"])
        if bad:
            expect("err:" + bad, "allow_new=False")
            return
        src = op["source"] if op.get("profile") is None else f"{op['source']} ({op['profile']})"
        ref.put(op.get("profile"), op["sec"], op["key"], op["val"], src, op.get("meta"))
        ref.hidden.clear()  # every successful update rebuilds the flattened view
        expect("ok", "update")
    elif t == "X":
        if op["name"] in view_before:
            ref.hidden.add(op["name"])
            expect("ok", "del-section")
        else:
            expect("err:key", "del-section-missing")
    elif t == "C":
        ref.hidden |= set(view_before)
        ref.vars.clear()
        expect("ok", "clear")
    elif t == "Y":
        expect("ok", "in-place-change:" + op["kind"])
        if op["kind"] in ("profiles_assign", "profiles_given"):
            v = op["_assigned"] if op["kind"] == "profiles_assign" else list(op["profiles"])
            vs = [None] if not v else list(v)
            if vs[-1] is not None:
                vs.append(None)
            ref.profiles = vs
            ref.hidden.clear()
    elif t in ("D", "S", "F", "O"):
        ups = []
        if t == "D":
            sec = op.get("sec")
            if sec is None:
                if ref.master is None or ref.master not in view_before:
                    expect("err:missingSection", "dict-without-master")
                    return
                sec = ref.master
            ups = [(sec, k, v, None, "dictionary", None, None) for k, v in op["dict"].items()]
        elif t == "S":
            osec = w.ref[op["from"]].view()[op["fromsec"]]
            sec = op.get("sec") or op["fromsec"]
            ups = [(sec, k, e[0], None, e[1], e[2], None) for k, e in osec.items()]
        elif t == "F":
            # the `__vars__` section is applied first, whatever happens to the entries; a variable set to None (a key
            # without value) is unknown from then on
            for k, v in op.get("filevars") or []:
                if v is None:
                    ref.vars.pop(k, None)
                else:
                    ref.vars[k] = v
            ups = [(s, k, v, p, op["_path"], m, None) for (s, k, v, p, m) in op["entries"]]
        else:
            for opt in op["options"]:
                if not (opt.startswith("--") and "=" in opt):
                    continue
                k, _, v = opt[2:].partition("=")
                sec, _, key = k.rpartition(":")
                nm, _, sec = sec.rpartition(":")
                if nm and nm != ref.name:
                    continue
                ups.append((sec or "<master>", key, v, op.get("profile"), f"command line ({opt})", None, opt))
        failed = None
        used = set()
        hidden_before = set(ref.hidden)
        ref.hidden.clear()  # the loop ends with a rebuild of the flattened view, also when an entry is refused
        for sec, k, v, p, src, meta, tag in ups:
            if sec == "<master>":
                if ref.master is None or ref.master not in view_before:
                    failed = "missingSection"
                    break
                sec = ref.master
            bad = None if op["allow_new"] else ref_check_allowed(ref, view_before, sec, k)
            if bad == "missingEntry" and t == "O":
                continue  # documented: options that do not match an entry are handed back
            if bad:
                failed = bad
                break
            ref.put(p, sec, k, v, src if p is None else f"{src} ({p})", meta)
            if tag is not None:
                used.add(tag)
        if failed:
            expect("err:" + failed, f"{t}:allow_new=False")
        else:
            expect("ok", t)
            if t == "O":
                want = "ok;unused=" + hexlist(sorted(set(op["options"]) - used))
                if obs != want:
                    rep.violate("options:unused", f"update_from_options handed back {obs!r}, expected {want!r}", step)
    elif t == "P":
        v = op["profiles"]
        if obs != "ok":
            rep.violate("profiles:" + ("empty-list" if v == [] else "setter"), f"cfg.profiles = {v!r} answered {obs}", step)
        vs = [None] if not v else list(v)
        if vs[-1] is not None:
            vs.append(None)
        ref.profiles = vs
        ref.hidden.clear()
    elif t == "M":
        ref.master = op["master"]
    elif t in ("L", "K"):
        pass
    elif t == "V":
        ref.vars.update(op["vars"])


def ref_lookup(chain, key, value, section, default):
    """the lookup order of the property; returns ('ok', value, kind, position in the chain of the configuration the
    answer belongs to) / ('err',) / ('excluded',)"""
    if value is not None:
        return ("ok", value, "override", 0)
    for depth, ref in enumerate(chain):
        view = ref.view()
        sec = section
        if sec is None:
            if ref.master is None or ref.master not in view:
                continue
            sec = ref.master
        elif sec not in view:
            # the documented quirk: cfg.get(key, section=X) with X a key of the master section
            if ref.master is not None and ref.master in view and sec in view[ref.master]:
                return ("excluded",)
            continue
        e = view[sec].get(key)
        if e is not None:
            return ("ok", e[0], "own" if depth == 0 else "fallback" if depth == 1 else "fallback-of-fallback", depth)
    if default is not None:
        return ("ok", default, "default", 0)
    return ("err",)


def oracle_query(w: World, op: dict, obs: str, rep, step):
    t = op["op"]
    i = op.get("cfg", 0)
    ref = w.ref[i]
    if t == "g":
        want = ref_lookup(w.chain(i), op["key"], op.get("value"), op.get("section"), op.get("default"))
        situation = ("+fallback-linked" if len(w.chain(i)) > 1 else "") + ("+no-section" if op.get("section") is None else "")
        if want[0] == "excluded":
            rep.count("excluded:section-is-master-key")
            return
        if want[0] == "ok":
            got = obs.split(":")
            if got[0] != "ok" or common.unhex(got[2]) != want[1]:
                rep.violate(f"get:expected-{want[2]}{situation}", f"cfg.get gave {describe(obs)}, the lookup order gives {want[1]!r} ({want[2]})", step)
        else:
            if obs not in ("err:missingSection", "err:missingEntry"):
                rep.violate(f"get:expected-error{situation}", f"cfg.get gave {describe(obs)}, a missing-section/-entry error is documented", step)
    elif t == "e":
        view = ref.view()
        sec = op.get("section")
        if sec is None:
            if ref.master is None or ref.master not in view:
                want = "err:missingSection"
            else:
                want = "1" if op["key"] in view[ref.master] else "0"
        else:
            want = "1" if op["key"] in view.get(sec, {}) else "0"
            if sec not in view and len(w.chain(i)) > 1 and not (ref.master is not None and ref.master in view):
                return  # exists() looks into the fallback through __getitem__: not part of the statement
        if obs != want:
            rep.violate("exists", f"cfg.exists({op['key']!r}, section={sec!r}) gave {obs}, the view says {want}", step)
    elif t == "v":
        view = ref.view()
        got = parse_view(obs, with_source=True)
        want = {s: {k: (e[0], e[1], {mk: (None if mv is None else str(mv)) for mk, mv in e[2].items()}) for k, e in d.items()}
                for s, d in view.items()}
        if got != want:
            rep.violate("view:priority", f"flattened view {summ(got)} differs from first-listed-profile resolution {summ(want)}", step)
    elif t == "s":
        want = sorted({e[1] for d in ref.view().values() for e in d.values() if e[1]})
        if obs != hexlist(want):
            rep.violate("sources", f"cfg.sources gave {obs}, the view's entries have {want}", step)
    elif t == "p":
        want = ",".join("~" if p is None else hexs(p) for p in ref.profiles)
        if obs != want:
            rep.violate("profiles:getter", f"cfg.profiles gave {obs}, expected {want}", step)
    elif t == "r":
        view = ref.view()
        if wf_text(view, op["width"]):
            rep.count("roundtrip:wf")
            # the property: the written file reads back to the same sections, keys, values and metadata; a section
            # written as `name__profile` is the section `name` of that profile (update_from_file's documented form)
            want_store = {}
            for s_, d in view.items():
                base, has, prof = s_.partition("__")
                want_store.setdefault(prof if has else None, {})[base] = {
                    k: (e[0], {mk: (None if mv is None else str(mv)) for mk, mv in e[2].items()}) for k, e in d.items()}
            want = want_store.get(None, {})
            if obs.startswith("err:"):
                rep.violate("roundtrip:raises", f"reading the written file back raised {obs}", step)
                return
            parts = obs.split("|")
            got = {s_: {k: (e[0], e[2]) for k, e in d.items()} for s_, d in parse_view(parts[0], with_source=False).items()}
            if got != want or list(got) != list(want) or any(list(got[s_]) != list(want[s_]) for s_ in want):
                rep.violate("roundtrip:differs", f"written+read view {summ(got)} differs from the configuration {summ(want)}", step)
                return
            got_store = {}
            for part in parts[1:]:
                if not part:
                    continue
                pname, _, body = part.partition(">")
                got_store[None if pname == "~" else common.unhex(pname)] = {
                    s_: {k: (e[0], e[2]) for k, e in d.items()} for s_, d in parse_view(body, with_source=False).items()}
            if got_store != want_store or any(list(got_store[p_]) != list(want_store[p_]) for p_ in want_store):
                rep.violate("roundtrip:profiles-differ",
                            f"written+read profile sections {summ(got_store)} differ from the configuration {summ(want_store)}", step)
        else:
            rep.count("roundtrip:not-wf-skipped")
    elif t == "a":
        oracle_accessor(op, obs, rep, step)
    elif t == "x":
        oracle_replace(op, obs, rep, step)
    elif t == "A":
        oracle_typed(op, obs, rep, step)
    elif t == "G":
        oracle_look_get(w, op, obs, rep, step)
    elif t == "I":
        oracle_look_item(w, op, obs, rep, step)


# the character classes used as split patterns, stated independently of `re`
CLASSES = {
    r"[\s,]": lambda c: c.isspace() or c == ",", r"[:]": lambda c: c == ":", r"[;]": lambda c: c == ";",
    r"[,;]": lambda c: c in ",;", r"[|/]": lambda c: c in "|/", r"[=:]": lambda c: c in "=:", r"[a-c]": lambda c: "a" <= c <= "c",
    r"[^_\w]": lambda c: not (c.isalnum() or c == "_"), r"[\s,;]": lambda c: c.isspace() or c in ",;",
    r"[^\d]": lambda c: not c.isdigit(), r"[]x]": lambda c: c in "]x", r"[x-]": lambda c: c in "x-", r"[\-.]": lambda c: c in "-.",
    r"[=]": lambda c: c == "=", r"[\S]": lambda c: not c.isspace(), r"[0-9_]": lambda c: c.isdigit() or c == "_", r"[^,]": lambda c: c != ",",
}
UNSUPPORTED_PATTERNS = [r",\s*", r"[,]+", r"\s", r"[\n]", "a|b"]

FLOAT_DIGITS = r"\d+(?:_\d+)*"
FLOAT_RE = re.compile(rf"[+-]?(?:(?:{FLOAT_DIGITS}\.?(?:{FLOAT_DIGITS})?|\.{FLOAT_DIGITS})(?:[eE][+-]?{FLOAT_DIGITS})?)\Z")
FLOAT_NAME_RE = re.compile(r"([+-]?)(inf|infinity|nan)\Z", re.I)


def class_split(is_sep, text, maxsplit):
    """re.split for a single-character class, stated directly"""
    out, cur, n = [], "", 0
    for c in text:
        if is_sep(c) and (maxsplit == 0 or n < maxsplit):
            out.append(cur)
            cur = ""
            n += 1
        else:
            cur += c
    return out + [cur]


def oracle_typed(op, obs, rep, step):
    import datetime as _dt
    import math
    from fractions import Fraction

    kind, v = op["kind"], op["value"]
    raw, exc = op.get("_raw"), op.get("_exc")
    if kind in ("list", "tuple"):
        f = CLASSES.get(op["pattern"])
        if f is None:
            return
        want = [x for x in class_split(f, v, op["maxsplit"]) if x]
        if exc is not None or list(raw) != want or not isinstance(raw, list if kind == "list" else tuple):
            rep.violate(f"accessor:as_{kind}", f"entry.as_{kind}({op['pattern']!r}, maxsplit={op['maxsplit']}) of {v!r} gave "
                        f"{raw if exc is None else obs!r}, splitting at the characters of the class gives {want!r}", step)
        return
    if kind == "dict":
        fi, fk = CLASSES.get(op["pattern"]), CLASSES.get(op["kvpattern"])
        if fi is None or fk is None:
            return
        items = [x for x in class_split(fi, v, op["maxsplit"]) if x]
        pairs = [class_split(fk, it, 1) for it in items]
        if any(len(p_) != 2 for p_ in pairs):
            rep.count("as_dict:item-without-separator")
            if obs != "err:value":
                rep.violate("accessor:as_dict:item-without-separator", f"entry.as_dict of {v!r} gave {obs}; an item without key/value "
                            "separator is documented to be a ValueError of as_dict (the `dict` property maps it to '')", step)
            return
        want = {}
        for k, x in pairs:
            want[k] = x
        if exc is not None or raw != want or list(raw) != list(want):
            rep.violate("accessor:as_dict", f"entry.as_dict({op['pattern']!r}, {op['kvpattern']!r}) of {v!r} gave {raw if exc is None else obs!r}, expected {want!r}", step)
        return
    if kind == "float":
        t = v.strip()
        m = FLOAT_NAME_RE.match(t)
        if m:
            want = float("nan") if m.group(2).lower() == "nan" else (-math.inf if m.group(1) == "-" else math.inf)
        elif FLOAT_RE.match(t) and t.isascii():
            try:
                want = float(Fraction(t.replace("_", "")))
            except OverflowError:
                want = -math.inf if t.startswith("-") else math.inf
        else:
            want = None
        if want is None:
            if obs != "err:value":
                rep.violate("accessor:float", f"entry.float of {v!r} gave {obs}, not a decimal literal: ValueError expected", step)
        elif exc is not None or not (raw == want or (math.isnan(raw) and math.isnan(want))):
            rep.violate("accessor:float", f"entry.float of {v!r} gave {raw if exc is None else obs!r}, the decimal value is {want!r}", step)
        return
    if kind in ("date", "datetime"):
        # what date.isoformat() / str(datetime) write reads back; a text that is not digits-and-separators is refused
        loose = r"\d{4}-\d{1,2}-[ \d]\d?" + (r"\s+\d{1,2}:\d{1,2}:\d{1,2}" if kind == "datetime" else "") + r"\Z"
        iso = r"\d{4}-\d\d-\d\d" + (r" \d\d:\d\d:\d\d" if kind == "datetime" else "") + r"\Z"
        if re.match(iso, v) and v.isascii():
            try:
                want = (_dt.datetime.fromisoformat(v) if kind == "datetime" else _dt.date.fromisoformat(v))
            except ValueError:
                want = None
            if want is None:
                if obs != "err:value":
                    rep.violate(f"accessor:{kind}", f"entry.{kind} of {v!r} gave {obs}: not a calendar date, ValueError expected", step)
            elif exc is not None or raw != want:
                rep.violate(f"accessor:{kind}", f"entry.{kind} of {v!r} gave {raw if exc is None else obs!r}, expected {want!r}", step)
        elif not re.match(loose, v) and obs != "err:value":
            rep.violate(f"accessor:{kind}", f"entry.{kind} of {v!r} gave {obs}, the text has not the form of the format: ValueError expected", step)
        return
    if kind == "path":
        if exc is not None:
            rep.violate("accessor:path", f"entry.path of {v!r} raised {obs}", step)
            return
        comps = v.split("/")
        clean = (v != "" and "~" not in v and not v.startswith("//") and all(c not in ("", ".") for c in (comps[1:] if v.startswith("/") else comps))
                 and v != "/" and not v.endswith("/"))
        if clean and raw != v:
            rep.violate("accessor:path", f"entry.path of the plain path {v!r} gave {raw!r}", step)
        if v.startswith("~/") and "~" not in v[1:] and "//" not in v and "/./" not in v and not v.endswith(("/", "/.")) and len(v) > 2:
            want = op["home"].rstrip("/") + v[1:]
            if re.match(r"/[^/]", op["home"]) and "//" not in op["home"] and raw != want:
                rep.violate("accessor:path:home", f"entry.path of {v!r} with HOME={op['home']!r} gave {raw!r}, expected {want!r}", step)
        return
    if kind == "enum":
        from midgard.collections import enums

        cls = enums._ENUMS.get(op["enum"])
        if cls is None:
            want = "err:unknownEnum"
        elif v in cls.__members__:
            want = hexs(cls.__members__[v].name)
        else:
            want = "err:value"
        if obs != want:
            rep.violate("accessor:as_enum", f"entry.as_enum({op['enum']!r}) of {v!r} gave {obs}, the enumeration says {want}", step)


def chain_situation(chain, section="given"):
    return (("+fallback-linked" if len(chain) == 2 else "+fallback-chain-of-2" if len(chain) > 2 else "")
            + ("+no-section" if section is None else ""))


def check_look(rep, step, where, lk, owner_vars, op):
    """the entry a lookup handed back, looked at through .replaced / .replace() / the typed accessors: the variables are
    those of the configuration the entry belongs to (`owner_vars`: the configuration asked for its own entries, an
    override and the default; the fallback configuration that defines it for an entry found there)"""
    def as_obs(r):
        return "err:" + err_name(r) if isinstance(r, Exception) else "ok:" + hexs(r)

    for name, r, callvars, dflt in ((".replaced", lk["r0"], {}, None), (".replace()", lk["rx"], op["callvars"], op.get("rdefault"))):
        pseudo = {"value": lk["str"], "vars": dict(owner_vars), "callvars": dict(callvars), "default": dflt}
        if isinstance(r, Exception):
            pseudo["_exc"] = r
        oracle_replace(pseudo, as_obs(r), rep, step, prefix=f"{where}/{name}/")
    if not isinstance(lk["r0"], Exception):
        for kind in ("list", "tuple", "dict", "bool", "int"):
            r = lk[kind]
            pseudo = {"value": lk["r0"], "kind": kind}
            if not isinstance(r, Exception):
                pseudo["_raw"] = r
            oracle_accessor(pseudo, "err:" + err_name(r) if isinstance(r, Exception) else "ok", rep, step, prefix=f"{where}/.replaced/")


def oracle_look_get(w: World, op: dict, obs: str, rep, step):
    Configuration, _, _ = _imp()
    i = op.get("cfg", 0)
    chain, idx = w.chain(i), w.chain_idx(i)
    want = ref_lookup(chain, op["key"], op.get("value"), op.get("section"), op.get("default"))
    situation = chain_situation(chain, op.get("section"))
    if want[0] == "excluded":
        rep.count("excluded:section-is-master-key")
        return
    if want[0] == "err":
        if obs not in ("err:missingSection", "err:missingEntry"):
            rep.violate(f"get:expected-error{situation}", f"cfg.get gave {describe(obs)}, a missing-section/-entry error is documented", step)
        return
    lk = op.get("_look")
    if lk is None or not obs.startswith("ok:") or lk["str"] != want[1]:
        rep.violate(f"get:expected-{want[2]}{situation}", f"cfg.get gave {describe(obs)}, the lookup order gives {want[1]!r} ({want[2]})", step)
        return
    owner = chain[want[3]]
    differ = any(r.vars != owner.vars for r in chain)
    uses = bool(VAR_RE.search(want[1]))
    rep.count(f"look:get:{want[2]}{situation}" + ("+variables-differ-along-chain" if differ else "") + ("+value-with-{var}" if uses else ""))
    nhits = len(rep.hits)
    check_look(rep, step, f"get:{want[2]}{situation}", lk, owner.vars, op)
    if len(rep.hits) > nhits:
        return
    # the same, stated without the reference substitution: the default is filled in as the configuration asked would
    # fill it in alone; an entry of a fallback configuration reads as when that configuration is asked itself
    other = None
    if want[2] == "default":
        alone = Configuration(NAMES[i])
        alone.update_vars(dict(w.cfg[i].vars))
        other, how = alone.get(op["key"], section=op.get("section"), default=op["default"]), "a configuration with the same variables and no fallback"
    elif want[3] > 0:
        other, how = w.cfg[idx[want[3]]].get(op["key"], section=op.get("section")), f"asking the fallback configuration {NAMES[idx[want[3]]]!r} itself"
    if other is not None:
        for name, got, f in ((".replaced", lk["r0"], lambda e: e.replaced.str),
                             (".replace()", lk["rx"], lambda e: e.replace(default=op.get("rdefault"), **dict(op["callvars"])).str)):
            try:
                ref_val = f(other)
            except Exception as ex:  # noqa: BLE001
                ref_val = ex
            same = (type(got) is type(ref_val)) if isinstance(got, Exception) or isinstance(ref_val, Exception) else got == ref_val
            if not same:
                rep.violate(f"get:{want[2]}{situation}/{name}/differs-from-{'asked-configuration-alone' if want[2] == 'default' else 'fallback-asked-itself'}",
                            f"cfg.get({op['key']!r}, section={op.get('section')!r}, default={op.get('default')!r}){name} gave {got!r}, "
                            f"{how} gives {ref_val!r} (variables along the chain: {[r.vars for r in chain]})", step)


def oracle_look_item(w: World, op: dict, obs: str, rep, step):
    i = op.get("cfg", 0)
    chain = w.chain(i)
    sec, key = op["section"], op["key"]
    for depth, r in enumerate(chain):
        view = r.view()
        if sec in view:
            break
        if r.master is not None and r.master in view:
            rep.count("look:item:through-master-section(model-only)")  # cfg[name] looks into the master section first
            return
    else:
        if obs != "err:missingSection":
            rep.violate("item:expected-missing-section", f"cfg[{sec!r}] gave {describe(obs)}, no configuration of the chain has that section", step)
        return
    e = view[sec].get(key)
    where = "item:" + ("own" if depth == 0 else "fallback" if depth == 1 else "fallback-of-fallback")
    if e is None:
        if obs != "err:missingEntry":
            rep.violate(f"{where}:expected-missing-entry", f"cfg[{sec!r}][{key!r}] gave {describe(obs)}, the section has no such entry", step)
        return
    lk = op.get("_look")
    if lk is None or not obs.startswith("ok:") or lk["str"] != e[0]:
        rep.violate(f"{where}:value", f"cfg[{sec!r}][{key!r}] gave {describe(obs)}, the section's entry is {e[0]!r}", step)
        return
    rep.count(f"look:{where}" + ("+variables-differ-along-chain" if any(x.vars != r.vars for x in chain) else "")
              + ("+value-with-{var}" if VAR_RE.search(e[0]) else ""))
    check_look(rep, step, where, lk, r.vars, op)


def describe(obs):
    p = obs.split(":")
    if p[0] == "ok":
        return f"value {common.unhex(p[2])!r} from {common.unhex(p[3])!r}"
    return obs


def summ(x):
    s = json.dumps(x, default=str)
    return s if len(s) < 300 else s[:300] + "…"


def parse_view(txt, with_source):
    out = {}
    if txt == "{}":
        return out
    for sec in txt.split("/"):
        name, _, body = sec.partition("[")
        d = out.setdefault(common.unhex(name), {})
        body = body[:-1]
        if not body:
            continue
        for ent in body.split(","):
            meta = {}
            if "{" in ent:
                ent, _, m = ent.partition("{")
                for kv in m[:-1].split(";"):
                    mk, _, mv = kv.partition("=")
                    meta[common.unhex(mk)] = None if mv == "~" else common.unhex(mv)
            k, _, rest = ent.partition("=")
            if with_source:
                v, _, src = rest.partition("@")
                d[common.unhex(k)] = (common.unhex(v), common.unhex(src), meta)
            else:
                d[common.unhex(k)] = (common.unhex(rest), None, meta)
    return out


BOOLS = {"0": False, "1": True, "false": False, "true": True, "no": False, "yes": True, "off": False, "on": True}


def oracle_accessor(op, obs, rep, step, prefix=""):
    v, kind = op["value"], op["kind"]
    if kind in ("list", "tuple"):
        want = [t for t in re.split(r"[,\s]+", v) if t]
        raw = op.get("_raw")
        ok = raw is not None and list(raw) == want and isinstance(raw, list if kind == "list" else tuple)
        if not ok:
            rep.violate(prefix + f"accessor:{kind}", f"entry.{kind} of {v!r} gave {raw!r}, splitting on commas and blanks gives {want!r}", step)
    elif kind == "dict":
        want = {}
        for t in [t for t in re.split(r"[,\s]+", v) if t]:
            a, _, b = t.partition(":")
            want[a] = b
        if op.get("_raw") != want or list(op["_raw"]) != list(want):
            rep.violate(prefix + "accessor:dict", f"entry.dict of {v!r} gave {op.get('_raw')!r}, expected {want!r}", step)
    elif kind == "bool":
        want = BOOLS.get(v.lower())
        if want is None:
            if obs != "err:value":
                rep.violate(prefix + "accessor:bool", f"entry.bool of {v!r} gave {obs}, not one of the eight spellings: ValueError expected", step)
        elif op.get("_raw") is not want:
            rep.violate(prefix + "accessor:bool", f"entry.bool of {v!r} gave {op.get('_raw')!r}", step)
    else:
        try:
            want = int(v)
        except ValueError:
            want = None
        if want is None:
            if obs != "err:value":
                rep.violate(prefix + "accessor:int", f"entry.int of {v!r} gave {obs}, ValueError expected", step)
        elif op.get("_raw") != want:
            rep.violate(prefix + "accessor:int", f"entry.int of {v!r} gave {op.get('_raw')!r}", step)


VAR_RE = re.compile(r"\{(\w+)(:[^\{\}]*)?\}")


def oracle_replace(op, obs, rep, step, prefix=""):
    v = op["value"]
    allvars = dict(op["vars"], **op["callvars"])
    used = [m.group(1) for m in VAR_RE.finditer(v)]
    known = [u for u in used if u in allvars]
    if "_exc" in op and isinstance(op["_exc"], RecursionError):
        return  # cyclic variable definitions: outside the statement
    if not known and op.get("default") is None:
        # only unknown variables (or none at all): nothing may change, nothing may be raised
        if obs != "ok:" + hexs(v):
            rep.violate(prefix + "replace:unknown-variable-altered",
                        f"entry.replace on {v!r} with no known variable gave {describe_x(obs)}; only known variables may be substituted", step)
        return
    if obs.startswith("err:") and not any(m.group(2) for m in VAR_RE.finditer(v)):
        rep.violate(prefix + "replace:raises", f"entry.replace on {v!r} with {allvars} raised {obs}", step)
        return
    # "substitutes only known variables", stated for the flat case (no format specs, no braces other than those of the
    # references, no braces in the values of the variables or in the default): every reference to a known variable is
    # replaced by that variable's own value - whatever it is: "", 0, False - and a reference to an unknown variable
    # by the default when there is one, and left as it is otherwise
    dflt = op.get("default")
    ms = list(VAR_RE.finditer(v))
    flat = (all(m.group(2) is None for m in ms) and v.count("{") == len(ms) == v.count("}")
            and all("{" not in str(x) and "}" not in str(x) for x in allvars.values())
            and (dflt is None or ("{" not in dflt and "}" not in dflt)))
    if flat:
        rep.count("replace:flat-case")
        if any(m.group(1) in allvars and not allvars[m.group(1)] for m in ms):
            rep.count("replace:known-variable-with-falsy-value" + ("+default" if dflt is not None else ""))
        want = VAR_RE.sub(lambda m: str(allvars[m.group(1)]) if m.group(1) in allvars else (m.group(0) if dflt is None else dflt), v)
        if obs != "ok:" + hexs(want):
            key = "replace:known-variable" if known else "replace:default-for-unknown"
            rep.violate(prefix + key, f"entry.replace(default={dflt!r}) on {v!r} with {allvars} gave {describe_x(obs)}, expected {want!r}: "
                             "a known variable is substituted by its own value, an unknown one by the default if given", step)
        return
    # plain `{name}` references (no format spec) are replaced textually, also inside the replacement
    # texts (nested), until no known reference is left; unknown references stay as they are
    def plain(txt):
        return all(m.group(2) is None for m in VAR_RE.finditer(txt))

    reach, todo = set(), list(known)
    while todo:
        k = todo.pop()
        if k in reach:
            continue
        reach.add(k)
        todo += [m.group(1) for m in VAR_RE.finditer(str(allvars[k])) if m.group(1) in allvars]
    if plain(v) and op.get("default") is None and all(plain(str(allvars[k])) for k in reach):
        want = v
        for _ in range(20):
            nxt = want
            for k in allvars:
                nxt = nxt.replace("{" + k + "}", str(allvars[k]))
            if nxt == want:
                break
            want = nxt
        else:
            return  # cyclic definitions
        if obs != "ok:" + hexs(want):
            rep.violate(prefix + "replace:known-variable", f"entry.replace on {v!r} with {allvars} gave {describe_x(obs)}, expected {want!r}", step)


def describe_x(obs):
    return repr(common.unhex(obs[3:])) if obs.startswith("ok:") else obs


# ------------------------------------------------------------------------------------------------
# running one history


class Reporter:
    def __init__(self, ctx, hist):
        self.ctx, self.hist, self.hits = ctx, hist, []
        self.diverged = False

    def count(self, key):
        if self.ctx is not None:
            self.ctx.count(key)

    def payload(self, step):
        return {"history": [{k: v for k, v in op.items() if not k.startswith("_")} for op in self.hist], "step": step}

    def violate(self, key, what, step):
        self.hits.append((key, what, step))
        if self.ctx is not None:
            seen = self.ctx.__dict__.setdefault("_seen", {})
            seen[key] = seen.get(key, 0) + 1
            if seen[key] == 1:
                self.ctx.violate(key, what, self.payload(step))
            else:
                self.ctx.count("oracle_failures")
            self.ctx.count(f"violation:{key}")

    def disagree(self, name, step, model, impl):
        if self.ctx is not None:
            seen = self.ctx.__dict__.setdefault("_seen_dis", {})
            seen[name] = seen.get(name, 0) + 1
            if seen[name] <= 2:
                self.ctx.disagree(name, self.payload(step), model, impl)
            else:
                self.ctx.count("disagreements")


MUTATING = set("UDOSFPMLKVXCY")


def run_history(ctx, drv, hist, tmp):
    """hist: list of op dicts (mutating ops and queries interleaved)"""
    w = World(tmp)
    rep = Reporter(ctx, hist)
    toks, obss = [], []
    for step, op in enumerate(hist):
        if op["op"] == "S" and op["fromsec"] not in w.cfg[op["from"]]._sections:
            op["op"] = "L"  # the section to copy does not exist (yet): degrade to a harmless relink
            op["on"] = w.linked
        tok, obs = run_op(w, op)
        toks.append(tok)
        obss.append(obs)
        if op.get("corr_only"):
            rep.diverged = True
        if op["op"] == "r" and "_written" in op:
            count_text(ctx, op["_written"], op["width"])
        if op["op"] == "t" and ctx is not None:
            ctx.count("wf-text=" + obs)
        if op["op"] == "A" and ctx is not None:
            ctx.count(f"typed:{op['kind']}:" + (obs if obs.startswith("err:") else "value"))
        if op["op"] == "F" and ctx is not None:
            for name in ("DEFAULT", "__replace__", "__vars__"):
                if f"[{name}]" in op["text"]:
                    ctx.count(f"file:[{name}]" + ("" if obs == "ok" else ":" + obs))
        if rep.diverged:
            pass  # the reference store no longer describes the real objects: correspondence only
        elif op["op"] in MUTATING:
            nhits = len(rep.hits)
            ref_apply(w, op, obs, rep, step)
            if len(rep.hits) == nhits and op["op"] in "UDOSFPXCY":
                # the flattened view must follow every update / profile change at once
                i = op.get("cfg", 0)
                got = parse_view(show_view(w.cfg[i], True), with_source=True)
                ref_view = w.ref[i].view()
                want = {s: {k: (e[0], e[1], {mk: (None if mv is None else str(mv)) for mk, mv in e[2].items()})
                            for k, e in d.items()} for s, d in ref_view.items()}
                if got != want:
                    how = "failed" if obs.startswith("err:") else "ok"
                    rep.violate(f"view-after:{op['op']}:{how}",
                                f"after {op['op']} (answered {obs.split(';')[0]}) the flattened view is {summ(got)}, "
                                f"first-listed-profile resolution of the updates made so far gives {summ(want)}", step)
            if len(rep.hits) > nhits:
                rep.diverged = True
        else:
            oracle_query(w, op, obs, rep, step)
        if ctx is not None:
            ctx.count("op=" + op["op"])
            if obs.startswith("err:"):
                ctx.count("answer=" + obs)
    if drv is not None:
        ans = drv.ask1("c19 run " + " ".join(toks))
        model = ans.split(" ")
        if ans == "bad-op" or len(model) != len(obss):
            rep.disagree("protocol (driver refused the history)", 0, ans[:200], toks[:5])
        else:
            for step, (m, r) in enumerate(zip(model, obss)):
                if m == "unsupported-spec":
                    rep.count("model:unsupported-format-spec")
                    if hist[step]["op"] == "F":
                        break  # the model stopped inside the file: the states differ from here on
                    continue
                if m == "unsupported-pattern":
                    rep.count("model:unsupported-pattern")
                    continue
                if hist[step]["op"] == "A" and hist[step]["kind"] == "float" and "/" in m:
                    from fractions import Fraction

                    try:
                        m = show_float(float(Fraction(m)))
                    except OverflowError:
                        m = "-inf" if m.startswith("-") else "inf"
                if "unsupported-spec" in m:
                    # G / I: a format spec outside the modelled subset in .replaced / .replace(): the lookup part
                    # (key, value, source, owner) is still compared
                    rep.count("model:unsupported-format-spec")
                    m, r = ":".join(m.split(":")[:5]), ":".join(r.split(":")[:5])
                if m != r:
                    rep.disagree(f"op {hist[step]['op']}", step, m, r)
                    break
    return rep


# ------------------------------------------------------------------------------------------------
# generators of histories


# defaults / overrides / stored values with references to variables (flat ones mostly: the oracle states those in full)
VAR_TEXTS = ["{var_1}", "/data/{year}/{var_1}.txt", "{unknown}", "pre{var_2}post{unknown}", "{nest}", "{var_1:>8}|",
             "{empty}{zero}x", "a, {var_1}, {var_2}", "{year}", "{var_1}:{var_2}, k:{year}", "{off}", "D", "{pad}{pad}", "{var_2}/{var_2}"]


def gen_vars(rng, i, many=False):
    """variables for configuration i: the names are shared between the configurations, the values are not"""
    names = rng.sample(sorted(VARS), rng.randint(3, 6) if many else rng.randint(1, 3))
    return {k: (VARS[k] if rng.random() < 0.35 else rng.choice([f"{k}@{NAMES[i]}", f"{i}{i}", "1" if i else "0", "yes" if i else "no"]))
            for k in names}


def gen_look(rng, i, sec=..., key=None, dflt=...):
    r = rng.random()
    return {"op": "G", "cfg": i, "key": key or rng.choice(KEYS + ["nokey"]),
            "value": rng.choice(VAR_TEXTS + ["OVR"]) if r < 0.08 else None,
            "section": rng.choice([None] + SECTIONS + ["zz"]) if sec is ... else sec,
            "default": rng.choice([None] + VAR_TEXTS + VAR_TEXTS) if dflt is ... else dflt,
            "callvars": {} if rng.random() < 0.6 else {rng.choice(["var_1", "extra", "unknown", "year"]): rng.choice(["CALL", "", 0, "{var_2}"])},
            "rdefault": rng.choice([None, None, "DFLT"])}


def gen_look_item(rng, i):
    return {"op": "I", "cfg": i, "section": rng.choice(SECTIONS + SECTIONS + ["zz", "k1"]), "key": rng.choice(KEYS + ["nokey"]),
            "callvars": {} if rng.random() < 0.6 else {rng.choice(["var_1", "extra", "unknown", "year"]): rng.choice(["CALL", "", 0, "{var_2}"])},
            "rdefault": rng.choice([None, None, "DFLT"])}


def battery(rng, i, full=False):
    """observations after a step"""
    qs = [{"op": "v", "cfg": i}, {"op": "p", "cfg": i}]
    qs += [gen_look(rng, i) for _ in range(8 if full else 1)]
    qs += [gen_look_item(rng, i) for _ in range(4 if full else rng.choice([0, 1]))]
    combos = []
    for sec in [None] + SECTIONS + ["zz", "k1"]:
        for key in KEYS + ["nokey"]:
            for dflt in (None, "D"):
                combos.append({"op": "g", "cfg": i, "key": key, "section": sec, "default": dflt})
    if not full:
        combos = rng.sample(combos, 7)
    qs += combos
    qs.append({"op": "g", "cfg": i, "key": rng.choice(KEYS), "value": rng.choice(["OVR", "OVR", "", "0"]), "section": rng.choice([None] + SECTIONS + ["zz"]),
               "default": rng.choice([None, "D"])})
    for sec in ([None] + SECTIONS + ["zz", "k1"]) if full else rng.sample([None] + SECTIONS + ["zz", "k1"], 2):
        qs.append({"op": "e", "cfg": i, "key": rng.choice(KEYS + ["nokey"]), "section": sec})
    for name in (SECTIONS + ["zz", "k1"]) if full else rng.sample(SECTIONS + ["zz", "k1"], 2):
        qs.append({"op": "i", "cfg": i, "name": name})
    qs.append({"op": "s", "cfg": i})
    return qs


def exhaustive_alphabet():
    A = []
    for p in (None, "p1", "p2"):
        A.append({"op": "U", "cfg": 0, "sec": "s1", "key": "k1", "profile": p})
    A.append({"op": "U", "cfg": 0, "sec": "s1", "key": "k2", "profile": None})
    A.append({"op": "U", "cfg": 0, "sec": "s2", "key": "k1", "profile": "p1"})
    for v in (None, ["p1"], ["p2"], ["p1", "p2"], ["p2", "p1"]):
        A.append({"op": "P", "cfg": 0, "profiles": v})
    A.append({"op": "U", "cfg": 1, "sec": "s1", "key": "k1", "profile": None})
    A.append({"op": "U", "cfg": 1, "sec": "s1", "key": "k3", "profile": None})
    A.append({"op": "L", "on": True})
    A.append({"op": "M", "cfg": 0, "master": "s1"})
    return A


# before every bounded-exhaustive history: the two configurations get different values for the same variable
EXH_PROLOGUE = [{"op": "V", "cfg": 0, "vars": {"v": "of-main", "m": "only-main"}}, {"op": "V", "cfg": 1, "vars": {"v": "of-fb", "f": "only-fb"}}]


def exhaustive_histories(maxlen):
    A = exhaustive_alphabet()
    for n in range(1, maxlen + 1):
        for combo in itertools.product(range(len(A)), repeat=n):
            hist = json.loads(json.dumps(EXH_PROLOGUE))
            for pos, a in enumerate(combo):
                op = json.loads(json.dumps(A[a]))
                if op["op"] == "U":
                    op.update(val=f"v{pos}/{{v}}{{m}}{{f}}", source=f"src{pos}", allow_new=True, meta=None)
                hist.append(op)
            yield hist


def exhaustive_battery():
    qs = [{"op": "v", "cfg": 0}, {"op": "p", "cfg": 0}, {"op": "s", "cfg": 0}]
    for sec in (None, "s1", "s2", "zz"):
        for key in ("k1", "k2", "k3"):
            for dflt in (None, "D"):
                qs.append({"op": "g", "cfg": 0, "key": key, "section": sec, "default": dflt})
    qs.append({"op": "g", "cfg": 0, "key": "k1", "value": "OVR", "section": "zz", "default": None})
    # the entry handed back, looked at through .replaced / .replace(): own entry, fallback entry, default, override
    for sec, key in ((None, "k1"), ("s1", "k1"), ("s1", "k3"), ("zz", "k1")):
        qs.append({"op": "G", "cfg": 0, "key": key, "value": None, "section": sec, "default": "D/{v}{m}{f}", "callvars": {}, "rdefault": None})
    qs.append({"op": "G", "cfg": 0, "key": "k1", "value": "O/{v}{m}{f}", "section": "s1", "default": None, "callvars": {"m": "CALL"}, "rdefault": "DFLT"})
    qs.append({"op": "I", "cfg": 0, "section": "s1", "key": "k1", "callvars": {}, "rdefault": None})
    qs.append({"op": "e", "cfg": 0, "key": "k1", "section": "s1"})
    qs.append({"op": "e", "cfg": 0, "key": "k3", "section": None})
    qs.append({"op": "i", "cfg": 0, "name": "s2"})
    qs.append({"op": "i", "cfg": 0, "name": "k2"})
    return qs


def gen_meta(rng):
    k = rng.random()
    if k < 0.7:
        return None
    m = {}
    if rng.random() < 0.8:
        m["help"] = rng.choice(["How to foodazzle", "A decently round value", "x", gen_value(rng, long_ok=False)])
    if rng.random() < 0.5:
        m["type"] = rng.choice(["str", "List[str]", "float"])
    if rng.random() < 0.2:
        m["flag"] = None
    return m or None


REPLACE_TABLE = {"sta": "zimm", "n": "1", "nestr": "<{sta}>", "yy": "19"}


def gen_file(rng, extras=None):
    """a configuration file: text + the entries it defines (section, key, value, profile, meta) in file order + the
    variables its `__vars__` section sets.  `extras`: with a `[DEFAULT]` section (its options are seen in every other
    section that does not define them, the special ones included), a `[__replace__]` section (a table applied to keys and
    values of the file) and a `[__vars__]` section (added to the variables of the configuration)"""
    if extras is None:
        extras = rng.random() < 0.3
    lines, entries = [], []
    secs = rng.sample([(s, p) for s in SECTIONS for p in [None] + PROFILES], rng.randint(1, 3))
    case_sensitive = rng.random() < 0.25
    fold = (lambda x: x) if case_sensitive else (lambda x: x.lower())
    defaults, table, filevars = [], {}, []
    blocks = []  # (header, lines, own keys, entries) per block, shuffled into the file afterwards
    if extras and rng.random() < 0.6:
        for k in rng.sample(["dk", "k3", "K2", "unit"], rng.randint(1, 2)):
            defaults.append((fold(k), rng.choice(["m", "from default", "0"])))
        blocks.append(("[DEFAULT]", [f"{k} = {v}" for k, v in defaults], None))
    if extras and rng.random() < 0.6:
        names = rng.sample(sorted(REPLACE_TABLE), rng.randint(1, 3))
        if "nestr" in names and "sta" not in names:
            names.append("sta")
        table = {k: REPLACE_TABLE[k] for k in names}
        blocks.append(("[__replace__]", [f"{k} = {v}" for k, v in table.items()], None))
    if extras and rng.random() < 0.7:
        fv = gen_vars(rng, rng.choice([0, 1, 2]))
        ls = [f"{k} = {v}" for k, v in fv.items()]
        filevars = [(k, str(v)) for k, v in fv.items()]
        if rng.random() < 0.15:
            nv = rng.choice([k for k in sorted(VARS) if k not in fv])
            ls.append(nv)
            filevars.append((nv, None))
        blocks.append(("[__vars__]", ls, None))

    def subst(t):
        for _ in range(3):
            for k, v in list(table.items()) + [d for d in defaults if table]:
                t = t.replace("{" + k + "}", v)
        return t

    if rng.random() < 0.3:
        lines.append("# a comment line")
    for s, p in secs:
        blines, bentries, own = [], [], set()
        for k in rng.sample(KEYS, rng.randint(1, 3)):
            kk = k.upper() if rng.random() < 0.2 else k
            if table and "n" in table and k == "k1" and rng.random() < 0.5:
                kk = "k{n}"
            v = gen_value(rng, long_ok=False).replace("\n", " ").replace("%", "").strip()
            if v[:1] in "#;":
                v = "x" + v
            if table and rng.random() < 0.7:
                v = (v + " " + rng.choice(["{sta}", "{nestr}", "/d/{yy}/{sta}.txt", "{sta}{unknown}"])).strip()
            pad = " " * rng.choice([0, 1, 10])
            noval = rng.random() < 0.05
            if noval:
                blines.append(kk)
                val = "None"
            elif rng.random() < 0.15 and " " in v and v.partition(" ")[2].strip()[:1] not in "#;":
                a, _, b = v.partition(" ")
                blines.append(f"{kk}{pad} = {a}")
                blines.append(f"      {b.strip()}")
                val = a + " " + b.strip() if b.strip() else a
            else:
                blines.append(f"{kk}{pad} ={' ' if rng.random() < 0.8 else ''}{v}")
                val = v
            meta = {}
            if rng.random() < 0.3:
                meta["help"] = rng.choice(["How to foodazzle", "x y z"])
                blines.append(f"{kk}:help{pad} = {meta['help']}")
            if rng.random() < 0.1:
                meta["flag"] = None
                blines.append(f"{kk}:flag")
            key = fold(kk)
            own.add(key)
            mk = {fold(a): b for a, b in meta.items()}
            bentries.append((s, subst(key), " ".join(subst(val if not noval else "None").split("\n")) if not noval else "None", p, mk))
            if rng.random() < 0.3:
                blines.append("")
            if rng.random() < 0.1:
                blines.append("; another comment")
        blines.append("")
        blocks.append((f"[{s}]" if p is None else f"[{s}__{p}]", blines, (s, p, own, bentries)))
    if extras:
        rng.shuffle(blocks)
    else:
        blocks.sort(key=lambda b: b[2] is None)
    for header, blines, info in blocks:
        lines.append(header)
        lines += blines
        if info is not None:
            s_, p_, own, bentries = info
            entries += bentries
            # the options of [DEFAULT] the section does not define itself, after its own
            entries += [(s_, subst(k), subst(v), p_, {}) for k, v in defaults if k not in own]
    # the special sections see the [DEFAULT] options too
    seen = {k for k, _ in filevars}
    if any(b[0] == "[__vars__]" for b in blocks):
        filevars += [(k, v) for k, v in defaults if k not in seen]
    return "\n".join(lines) + "\n", entries, case_sensitive, filevars


def gen_mut(rng):
    k = rng.random()
    i = 0 if rng.random() < 0.7 else rng.choice([1, 1, 2])
    allow_new = rng.random() < 0.8
    if k < 0.40:
        return {"op": "U", "cfg": i, "sec": rng.choice(SECTIONS), "key": rng.choice(KEYS),
                "val": gen_value(rng) if rng.random() < 0.85 else rng.choice(VAR_TEXTS),
                "profile": rng.choice([None, None] + PROFILES), "source": rng.choice(["unknown", "code", "test"]),
                "allow_new": allow_new, "meta": gen_meta(rng)}
    if k < 0.50:
        return {"op": "D", "cfg": i, "sec": rng.choice([None] + SECTIONS), "allow_new": allow_new,
                "dict": {kk: gen_value(rng) for kk in rng.sample(KEYS + ["k4"], rng.randint(1, 3))}}
    if k < 0.60:
        opts = []
        for _ in range(rng.randint(1, 4)):
            r = rng.random()
            sec, key, v = rng.choice(SECTIONS + ["zz"]), rng.choice(KEYS + ["k9"]), gen_value(rng, long_ok=False).replace("\n", " ")
            if r < 0.5:
                opts.append(f"--{sec}:{key}={v}")
            elif r < 0.65:
                opts.append(f"--{key}={v}")
            elif r < 0.8:
                opts.append(f"--{rng.choice(NAMES + ['other'])}:{sec}:{key}={v}")
            elif r < 0.9:
                opts.append(rng.choice(["not_an_option", "--just_a_flag", "-x=1", "--=", "--a:b:c:d=1"]))
            else:
                opts.append(f"--{sec}:{key}={v}=more")
        return {"op": "O", "cfg": i, "profile": rng.choice([None, None, "p1"]), "allow_new": rng.random() < 0.5, "options": opts}
    if k < 0.66:
        return {"op": "S", "cfg": i, "from": rng.choice([0, 1, 2]), "fromsec": rng.choice(SECTIONS), "sec": rng.choice([None, "s1", "s2"]),
                "allow_new": allow_new}
    if k < 0.74:
        text, entries, cs, filevars = gen_file(rng)
        return {"op": "F", "cfg": i, "allow_new": allow_new, "case_sensitive": cs, "text": text, "entries": entries, "filevars": filevars}
    if k < 0.88:
        r = rng.random()
        if r < 0.1:
            v = None
        elif r < 0.15:
            v = []
        else:
            v = rng.sample(PROFILES, rng.randint(1, 3))
            if rng.random() < 0.15:
                v.append(None)
            if rng.random() < 0.1:
                v.insert(0, rng.choice(v))
        return {"op": "P", "cfg": i, "profiles": v}
    if k < 0.93:
        return {"op": "M", "cfg": i, "master": rng.choice([None, "s1", "s2", "zz"])}
    if k < 0.935:
        return gen_alias(rng, i)
    if k < 0.94:
        return {"op": "X", "cfg": i, "name": rng.choice(SECTIONS + ["zz"])} if rng.random() < 0.8 else {"op": "C", "cfg": i}
    if k < 0.955:
        return {"op": "L", "on": rng.random() < 0.8}
    if k < 0.97:
        return {"op": "K", "on": rng.random() < 0.8}
    i = rng.choice([0, 0, 1, 2])
    return {"op": "V", "cfg": i, "vars": gen_vars(rng, i)}


ALIAS_KINDS = ["profiles_assign", "profiles_assign", "profiles_keep", "profiles_given", "sections", "section_names", "sources", "as_dict",
               "entry_values"]


def gen_alias(rng, i, kind=None):
    """the caller changes in place what a getter handed out (and, for profiles_assign, assigns it back)"""
    kind = kind or rng.choice(ALIAS_KINDS)
    p = rng.choice(PROFILES)
    edit = rng.choice([["insert0", p], ["insert0", p], ["append", p], ["reverse"], ["remove_first"], ["clear"], ["iadd", p], ["noop"]])
    if kind != "profiles_assign" and edit[0] == "iadd":
        edit = ["insert0", p]
    op = {"op": "Y", "cfg": i, "kind": kind, "edit": edit}
    if kind == "profiles_given":
        op["profiles"] = rng.sample(PROFILES, rng.randint(1, 2))
    return op


def gen_alias_history(rng):
    """(e) objects handed out by getters, changed in place: a configuration with entries in several profiles, a profile
    selection, then in-place changes of every kind - assigned back (the configuration follows) or not (nothing changes) -,
    deleted sections / clear(), each followed by observations and by an unrelated update that rebuilds the view"""
    i = rng.choice([0, 0, 1])
    hist = []
    for _ in range(rng.randint(2, 5)):
        hist.append({"op": "U", "cfg": i, "sec": rng.choice(SECTIONS), "key": rng.choice(KEYS), "val": "v%d" % rng.randint(0, 99),
                     "profile": rng.choice([None] + PROFILES), "source": "code", "allow_new": True, "meta": None})
    if rng.random() < 0.7:
        hist.append({"op": "P", "cfg": i, "profiles": rng.sample(PROFILES, rng.randint(1, 2))})
    for _ in range(rng.randint(1, 4)):
        r = rng.random()
        if r < 0.75:
            hist.append(gen_alias(rng, i))
        elif r < 0.92:
            hist.append({"op": "X", "cfg": i, "name": rng.choice(SECTIONS + ["zz"])})
        else:
            hist.append({"op": "C", "cfg": i})
        hist += battery(rng, i)
        if r >= 0.75 and rng.random() < 0.5:
            hist.append({"op": "Y", "cfg": i, "kind": "profiles_assign", "edit": ["noop"]})  # the same selection again
            hist += battery(rng, i)
        if rng.random() < 0.6:
            hist.append(rng.choice([
                {"op": "U", "cfg": i, "sec": "s2", "key": "k3", "val": "unrelated", "profile": None, "source": "code", "allow_new": True, "meta": None},
                {"op": "P", "cfg": i, "profiles": None if rng.random() < 0.3 else rng.sample(PROFILES, 1)},
                {"op": "D", "cfg": i, "sec": "s1", "allow_new": True, "dict": {"k2": "d"}}]))
            hist += battery(rng, i)
    return hist


def gen_history(rng, n):
    hist = []
    for _ in range(n):
        op = gen_mut(rng)
        hist.append(op)
        hist += battery(rng, op.get("cfg", 0))
    i = rng.choice([0, 0, 0, 1, 1, 2])
    hist += battery(rng, i, full=rng.random() < 0.3)
    for wdt in rng.sample([200, 200, 80, 45], 2):
        hist.append({"op": "t", "cfg": i, "width": wdt})
        hist.append({"op": "w", "cfg": i, "width": wdt})
        hist.append({"op": "r", "cfg": i, "width": wdt})
    return hist



# ------------------------------------------------------------------------------------------------
# configurations aimed at the text form (theorem text_roundtrip): wrapping at, before and after the line width,
# words longer than a line, hyphenated words across the wrap column, long keys, metadata, profile sections

LONGKEY = "a_key_longer_than_the_key_column"
RT_WORDS = ["north-east", "a-priori", "station-list", "/data/in-situ/x", "re-run", "alpha", "beta_2", "gnss", "x", "a#b", "c;d",
            "e=f", "[g]", "h:i", "{year}", "{doy:03d}", "1,2", "2020-01-01", "-7", "a--b", "x-", "ny-alesund", "semi-major-axis"]
LETTERS = "abcdefghijklmnopqrstuvwxyzABCXYZ0123456789_/."


def letters(rng, n):
    return "".join(rng.choice(LETTERS[:26] if rng.random() < 0.8 else LETTERS) for _ in range(n))


def filler(rng, n):
    """a word of exactly n characters, half of the longer ones with a hyphen between letters"""
    if n >= 6 and rng.random() < 0.5:
        i = rng.randint(2, n - 4)
        return "".join(rng.choice(LETTERS[:26]) for _ in range(i)) + "-" + "".join(rng.choice(LETTERS[:26]) for _ in range(n - i - 1))
    return letters(rng, n)


def exact_line(rng, total):
    """words that, joined by single blanks, are exactly `total` characters long"""
    words, remaining = [], total
    while remaining > 0:
        n = remaining if remaining <= 3 or rng.random() < 0.2 else rng.randint(1, remaining)
        if remaining - n == 1:
            n = remaining
        words.append(filler(rng, n))
        remaining -= n + 1
    return words


def gen_rt_value(rng, avail):
    """avail: the characters a line holds after the key column (width - 33)"""
    k = rng.random()
    if k < 0.07:
        return ""
    if k < 0.14:
        return filler(rng, avail)  # one word exactly filling the line
    if k < 0.21:
        return filler(rng, avail + rng.randint(1, 40))  # one word longer than a line
    if k < 0.27:
        return rng.choice(RT_WORDS)
    words = []
    for _ in range(rng.randint(1, 7)):
        mode = rng.random()
        if mode < 0.30:  # a line filled exactly
            words += exact_line(rng, avail)
        elif mode < 0.45:  # one character more than fits: the last word moves to the next line
            words += exact_line(rng, avail + 1)
        elif mode < 0.70 and avail >= 8:  # a hyphenated word across the wrap column: the part up to the hyphen would still fit
            room = rng.randint(3, min(9, avail - 2))  # characters left on the line for the word (incl. nothing after it)
            if avail - room - 1 >= 1:
                words += exact_line(rng, avail - room - 1)
            head = rng.randint(2, room - 1)
            words.append("".join(rng.choice(LETTERS[:26]) for _ in range(head)) + "-"
                         + "".join(rng.choice(LETTERS[:26]) for _ in range(rng.randint(max(2, room - head), room + 6))))
        elif mode < 0.80:  # a word longer than a line in the middle of the value
            words.append(filler(rng, avail + rng.randint(1, 12)))
        else:
            words += [rng.choice(RT_WORDS + [filler(rng, rng.randint(1, avail + 2))]) for _ in range(rng.randint(1, 4))]
    return " ".join(w for w in words if w)


def gen_rt_meta(rng, avail):
    if rng.random() < 0.55:
        return None
    m = {}
    if rng.random() < 0.8:
        m["help"] = gen_rt_value(rng, avail)
    if rng.random() < 0.4:
        m["type"] = rng.choice(["str", "List[str]", "float", ""])
    if rng.random() < 0.35:
        m[rng.choice(["flag", "wrapper", "a:b"])] = None
    return m or None


RT_SECTIONS = ["s1", "s2", "s1__p1", "s1__p2", "s2__p3", "s2__p1", "zz_9", "s1__", "s2__p1__x"]


def gen_rt_history(rng):
    width = rng.choice([45, 45, 45, 60, 80, 200])
    avail = width - 33
    hist = []
    for sec in rng.sample(RT_SECTIONS, rng.randint(1, 5)):
        for key in rng.sample(KEYS + [LONGKEY, "k.dot", "k-4", "k"], rng.randint(1, 3)):
            hist.append({"op": "U", "cfg": 0, "sec": sec, "key": key, "val": gen_rt_value(rng, avail), "profile": None,
                         "source": "code", "allow_new": True, "meta": gen_rt_meta(rng, avail)})
    if rng.random() < 0.25:  # the same through the profile store: the view written is the flattened one
        hist.append({"op": "U", "cfg": 0, "sec": "s1", "key": "k1", "val": gen_rt_value(rng, avail), "profile": "p1",
                     "source": "code", "allow_new": True, "meta": gen_rt_meta(rng, avail)})
        hist.append({"op": "P", "cfg": 0, "profiles": ["p1"]})
    hist.append({"op": "v", "cfg": 0})
    if rng.random() < 0.15:  # outside the well-formed class: compared with the model only
        hist.append({"op": "U", "cfg": 0, "sec": rng.choice(["s1", "s 3", "s1__p1", "__x"]),
                     "key": rng.choice(["k1", "K1", "k 1", "k=1", "k:1", "#k", "[k]"]),
                     "val": rng.choice(["a  b", "x #y z", "#x", " lead", "a\tb", "ok", ";"]), "profile": None,
                     "source": "code", "allow_new": True, "meta": rng.choice([None, {"Help": "x"}, {"help": ";x"}, {"a=b": None}])})
    for wdt in [width] + rng.sample([36, 45, 60, 80, 200, avail + 33 + 1, max(34, width - 1)], 2):
        hist.append({"op": "t", "cfg": 0, "width": wdt})
        hist.append({"op": "w", "cfg": 0, "width": wdt})
        hist.append({"op": "r", "cfg": 0, "width": wdt})
    return hist


def count_text(ctx, text, width):
    """which features of the text form a written file has (coverage of the writer/reader model)"""
    if ctx is None:
        return
    lines = text.split("\n")
    feats = set()
    run = 0
    nprof = 0
    for idx, l in enumerate(lines):
        cont = l.startswith(" " * 33)
        run = run + 1 if cont else 0
        if run >= 2:
            feats.add("value-on->=3-lines")
        if run >= 5:
            feats.add("value-on->=6-lines")
        if len(l) == width:
            feats.add("line-exactly-full")
        if len(l) > width:
            feats.add("line-longer-than-width(word-longer-than-line)")
        if l.startswith("["):
            if "__" in l:
                nprof += 1
            continue
        if l and not cont:
            key = l.partition("=")[0].rstrip()
            if len(key) > 30:
                feats.add("key-longer-than-key-column")
            if ":" in key:
                feats.add("meta-entry")
            if "=" not in l:
                feats.add("valueless-key")
            elif l.rstrip().endswith("="):
                nxt = lines[idx + 1] if idx + 1 < len(lines) else ""
                feats.add("first-word-on-continuation-line" if nxt.startswith(" " * 33) else "empty-value")
        if any(("#" in w_[1:] or ";" in w_[1:]) for w_ in l.split()):
            feats.add("hash-or-semicolon-inside-a-word")
        if any("-" in w_[1:-1] for w_ in l.split()):
            feats.add("hyphenated-word")
    if nprof:
        feats.add("profile-section")
    if nprof >= 2:
        feats.add(">=2-profile-sections")
    for f in feats:
        ctx.count("text:" + f)


def gen_vars_history(rng):
    """(d) variables along the fallback chain: up to three configurations main -> fb -> fb2, each with its own values for a
    shared pool of variable names; entries with {var} references stored at different depths of the chain; every kind of
    answer of get (own entry, entry of the fallback, of the fallback's fallback, default, override, error) looked at
    through .str / .replaced / .replace() / typed accessors; then the variables change and the same looks are repeated"""
    muts = []
    for i in range(3):
        if rng.random() < 0.85:
            muts.append({"op": "V", "cfg": i, "vars": gen_vars(rng, i, many=True)})
    for _ in range(rng.randint(0, 6)):
        i = rng.choice([0, 1, 1, 2, 2])
        muts.append({"op": "U", "cfg": i, "sec": rng.choice(SECTIONS), "key": rng.choice(KEYS),
                     "val": rng.choice(VAR_TEXTS) if rng.random() < 0.8 else gen_value(rng, long_ok=False),
                     "profile": None if rng.random() < 0.8 else "p1", "source": "code", "allow_new": True, "meta": None})
    for i in range(3):
        if rng.random() < 0.3:
            muts.append({"op": "M", "cfg": i, "master": rng.choice(["s1", "s2", "zz"])})
        if rng.random() < 0.15:
            muts.append({"op": "P", "cfg": i, "profiles": ["p1"]})
    muts.append({"op": "L", "on": rng.random() < 0.9})
    muts.append({"op": "K", "on": rng.random() < 0.65})
    rng.shuffle(muts)
    looks = []
    for _ in range(rng.randint(6, 14)):
        i = rng.choice([0, 0, 0, 0, 1, 1, 2])
        looks.append(gen_look(rng, i, sec=rng.choice([None, "s1", "s1", "s2", "s2", "zz"]), key=rng.choice(KEYS)) if rng.random() < 0.8
                     else gen_look_item(rng, i))
    hist = muts + looks
    if rng.random() < 0.6:  # the entries handed out follow the variables of their configuration
        i = rng.choice([0, 1, 2])
        hist.append({"op": "V", "cfg": i, "vars": gen_vars(rng, (i + 1) % 3, many=True)})
        hist += json.loads(json.dumps(looks))
    return hist


# corner cases of the ConfigParser subset (section header regex, continuation after a valueless option, empty lines
# inside values, indented options): model against code only (no reference semantics)
ODD_FILES = [
    "[a]b\nk1 = v\n", "[s1]]\nk1 = v\n", "[]\nk1 = v\n", "[s1]\n[]\nk1 = v\n", "[s1]\n[]]\nk1 = v\n",
    "[s1]\nk1\n   cont\n", "[s1]\nk1\n\n   cont\n", "[s1]\nk1\nk2 = a\n   cont\n",
    "[s1]\nk1 = a\n  b\n c\nk2 = d\n", "[s1]\n k1 = a\n k2 = b\n", "[s1]\nk1 = a\n\n\n  b\n\n", "[s1]\nk1 =\n   a\n   b\n",
    "[s1]\nk1 = a\n   # not a value\n   b\n", "[s1]\nk1 = a\n   ;x\n", "[s1]\nk1 = a # b\n", "[s1]\nk1 = a\n[s1]\nk2 = b\n",
    "[s1]\nk1 = a\nk1 = b\n", "[s1]\nk1 = a\nK1 = b\n", "k1 = a\n", "[s1]\n= a\n", "[s1] \nk1 = a\n", "  [s1]\n  k1 = a\n    b\n",
    "[s1]\nk1:help = h\nk1 = a\nk1:flag\n", "[s1__p1]\nk1 = a\n[s1]\nk1 = b\n", "[__x]\nk1 = a\n[s1]\nk2 = b\n",
    "[s1]\nk1 = a\n\n[s2]\n\nk2 = b\n\n", "[s1]\nk1 = [a]\n  [b]\n", "[s1]\nk1 = a\n [s2]\nk2 = b\n",
    # the DEFAULT section and the special sections __replace__ / __vars__
    "[DEFAULT]\nk1 = d\n[s1]\nk2 = a\n", "[s1]\nk1 = a\n[DEFAULT]\nk1 = d\nk9 = e\n[s2]\nk2 = b\n",
    "[__replace__]\na = {b}\nb = {a}\n[s1]\nk2 = fine\nk1 = {a}\nk3 = never\n", "[__vars__]\nv\nw = 1\n[s1]\nk1 = {v}{w}\n",
    "[__replace__]\nx = 1\n[s1]\nk{x} = {x}{y}\nk{x}:help = {x}\n", "[__replace__]\nw = a\n  b\n[s1]\nk1 = {w} c\n",
    "[DEFAULT]\nk1:help = dh\n[s1]\nk1 = a\n[s2]\nk2 = b\n", "[__vars__]\nroot = /x\n[DEFAULT]\nunit = m\n[s1]\nk1 = a\n",
    "[__replace__]\nx\ny = 2\n[s1]\nk1 = {x}{y}\n", "[DEFAULT]\nd = 0\n[__replace__]\nx = {d}{d}\n[s1__p1]\nk1 = {x}\n",
    "[__vars__]\nA = 1\n[s1]\nK1 = {A}\n", "[__x__]\nk1 = a\n[__replace__]\n[s1]\nk1 = {k1}\n",
]


def gen_odd_history(rng):
    hist = []
    for text in rng.sample(ODD_FILES, 4):
        hist.append({"op": "F", "cfg": 0, "allow_new": True, "case_sensitive": rng.random() < 0.3, "text": text, "entries": [],
                     "corr_only": True})
        hist.append({"op": "v", "cfg": 0})
    return hist


FLOAT_TEXTS = ["1.5", "-3", "+17", "1_000", "3.14", "1e3", "1E-3", ".5", "5.", "1_0.0_1e1_0", " 7 ", "inf", "-Infinity", "nan", "+NaN",
               "0", "-0.0", "1e400", "-1e400", "1e-400", "123456789012345678901234567890", "0.1", "2.5e-3", "\t1.0\n", "iNf", "-nan",
               "1__0", "_1", "1_", "1_.5", "1._5", "1e_5", "1e", "e5", ".", "0x10", "1.5f", "- 1", "in f", "1 2", "", "infinit", "1,5",
               "1.5.2", "++1", "1e+", "._5", "5_.", "1_e5", "nan1", "+", "1e5.5", "0_0", "00.10", "1E+0_1"]
DATE_TEXTS = ["2020-02-30", "2019-02-29", "2020-02-29", "2020-13-01", "2020-00-10", "0000-01-01", "0001-01-01", "9999-12-31", "20200-01-01",
              "2020-01-05 ", " 2020-01-05", "2020-011-05", "2020-01-5x", "2020/01/05", "2020-01-00", "2020-1-5", "2020-01- 5", "2020-01-  5",
              "2020-01- 0", "2020-12-31", "2020-04-31", "1900-02-29", "2000-02-29", "", "2020-01", "abcd-01-01", "2020-01-05T10:00:00"]
TIME_TEXTS = ["10:20:30", "1:2:3", "10:20:60", "24:00:00", "23:59:59", "10:20:61", "10:60:00", "00:00:00", "10:20", "10:20:30.5", "7:07:7",
              "10:20:3x", "10-20-30"]
PATH_TEXTS = ["a/b", "/a/b", "//a/b", "///a", "a//b/./c/", "", ".", "~", "~/x/y", "~user/x", "a~b", "a/~/b", "/", "//", "./a", "a/..", "~//x",
              "~/", "/data/{year}/file.txt", "~/midgard/{unknown}/x", "a/./b", "../a", "/.", "/a/", "x", "~/.", "a/b/", "////"]
HOMES = ["/home/geo", "/home/geo/", "/", "", "//srv/h", "/root"]
SPLIT_TEXTS = ["a;b|c/d=e:f", "k1:v1;k2=v2", "x-1.y_2", "one:en, two:to, three:tre", "a:1 b:2,c:3", "elevation:10, ionosphere, clock:poly:2",
               "stas, trds", "word", "", ":x", "x:", "a::b", ";;a;;", "1,2;3 4", "abcabc", "k=v=w, q=r", "]x]y-z", " lead , trail "]


def gen_typed(rng):
    r = rng.random()
    if r < 0.22:
        pat = rng.choice(sorted(CLASSES) + sorted(CLASSES) + UNSUPPORTED_PATTERNS)
        defaults = rng.random() < 0.15
        return {"op": "A", "kind": rng.choice(["list", "tuple"]), "pattern": r"[\s,]" if defaults else pat,
                "maxsplit": 0 if defaults else rng.choice([0, 0, 0, 1, 2, 5]), "defaults": defaults,
                "value": rng.choice(SPLIT_TEXTS) if rng.random() < 0.5 else gen_value(rng, long_ok=False)}
    if r < 0.42:
        defaults = rng.random() < 0.3
        return {"op": "A", "kind": "dict", "pattern": r"[\s,]" if defaults else rng.choice([r"[\s,]", r"[\s,]", "[;]", "[,;]", r"[\s,;]"]),
                "kvpattern": "[:]" if defaults else rng.choice(["[:]", "[:]", "[=:]", "[=]"]),
                "maxsplit": 0 if defaults else rng.choice([0, 0, 0, 1, 2]), "defaults": defaults,
                "value": rng.choice(SPLIT_TEXTS) if rng.random() < 0.6 else gen_value(rng, long_ok=False)}
    if r < 0.60:
        if rng.random() < 0.6:
            v = rng.choice(FLOAT_TEXTS)
        else:
            digs = lambda n: "".join(rng.choice("0123456789") for _ in range(n))
            v = rng.choice(["", "-", "+"]) + digs(rng.randint(0, 12)) + rng.choice(["", ".", "." + digs(rng.randint(1, 12))])
            if rng.random() < 0.4:
                v += rng.choice("eE") + rng.choice(["", "-", "+"]) + str(rng.randint(0, 320))
            if rng.random() < 0.2 and len(v) > 3:
                i = rng.randrange(1, len(v))
                v = v[:i] + "_" + v[i:]
        return {"op": "A", "kind": "float", "value": v, "prop": rng.random() < 0.7}
    if r < 0.80:
        import datetime as _dt

        kind = rng.choice(["date", "datetime"])
        if rng.random() < 0.5:
            d = _dt.date(1, 1, 1) + _dt.timedelta(days=rng.randrange(0, 3652058))
            v = d.isoformat() if rng.random() < 0.7 else f"{d.year:04d}-{d.month}-{d.day}"
        else:
            v = rng.choice(DATE_TEXTS)
        if kind == "datetime":
            t = rng.choice(TIME_TEXTS) if rng.random() < 0.5 else f"{rng.randrange(24):02d}:{rng.randrange(60):02d}:{rng.randrange(60):02d}"
            v = v + rng.choice([" ", " ", " ", "  ", "\t", "T", ""]) + t if rng.random() < 0.9 else v
        return {"op": "A", "kind": kind, "value": v}
    if r < 0.90:
        return {"op": "A", "kind": "path", "home": rng.choice(HOMES), "value": rng.choice(PATH_TEXTS), "prop": rng.random() < 0.7}
    from midgard.collections import enums

    names = sorted(enums._ENUMS)
    name = rng.choice(names + ["no_such_enum"])
    cls = enums._ENUMS.get(name)
    members = sorted(cls.__members__) if cls is not None else ["x"]
    return {"op": "A", "kind": "enum", "enum": name,
            "value": rng.choice(members) if rng.random() < 0.7 else rng.choice(["L1", "f1", "warn", "", "G", "nope", "l1", " L1"])}


def gen_pure(rng, n):
    hist = []
    for _ in range(n):
        if rng.random() < 0.45:
            hist.append(gen_typed(rng))
            continue
        if rng.random() < 0.6:
            hist.append({"op": "a", "kind": rng.choice(["list", "tuple", "dict", "bool", "int"]), "value": gen_value(rng)})
        else:
            vs = {kk: VARS[kk] for kk in rng.sample(sorted(VARS), rng.randint(0, 6))}
            if rng.random() < 0.05:
                vs["loop"] = "{loop}"
            call = {} if rng.random() < 0.6 else {rng.choice(["var_1", "extra", "empty", "zero", "year"]):
                                                  rng.choice(["CALL", "{var_2}", "", 0, False, 0.0, "0"])}
            v = gen_value(rng, long_ok=False) if rng.random() < 0.6 else rng.choice(
                ["run{empty}.log", "{empty}", "obs_{zero}_{unknown}.dat", "{off}/{empty}/{var_1}", "{nest0}", "{empty}{unknown}{zero}",
                 "{year}{empty}", "a{extra}b{empty}c"])
            if rng.random() < 0.05:
                v = "{loop} " + v
            hist.append({"op": "x", "value": v, "vars": vs, "callvars": call, "default": rng.choice([None, None, None, "DFLT"])})
    return hist


# ------------------------------------------------------------------------------------------------


def run(ctx: Ctx):
    from translator import extract_config

    extract_config.write()
    ctx.proof = common.prove("C19")
    drv = ctx.driver
    rng = ctx.rng
    tmp = tempfile.mkdtemp(prefix="c19-")
    try:
        ctx.rule = ("(a) bounded-exhaustive: every sequence up to length L (quick 3, thorough 4) over a 14-letter alphabet "
                    "(update of (s1,k1) in no profile/p1/p2, of (s1,k2), of (s2,k1)@p1, five profile selections, two "
                    "updates of the fallback configuration, link fallback, set master) followed by 31 observations; "
                    "(b) random histories of 1..30 mutating steps over update / update_from_dict / _options / "
                    "_config_section / _file / profiles / master / fallback links / update_vars on three configurations, "
                    "2 sections x 3 keys x 3 profiles, values from a grammar of words, numbers, booleans, lists, paths, "
                    "{var} references, long lists and odd blanks, allow_new on/off, metadata; ~12 observations after every "
                    "step, WfText, as_str and write_to_file+read_from_file at two widths at the end; (b2) configurations "
                    "aimed at the text form: 1-5 sections out of plain and name__profile names, keys incl. one longer than "
                    "the key column, values built against the line width (a line filled exactly, one character more, a "
                    "hyphenated word across the wrap column, words longer than a line, empty, 1-7 lines), metadata with "
                    "wrapped help texts / empty / valueless entries, 15 % with an ingredient outside the well-formed class; "
                    "WfText, as_str, write+read at three widths out of 36/45/60/80/200/w+1/w-1 (text:* counts say what the "
                    "written files contained); hand-written corner files of the ConfigParser subset incl. DEFAULT / __replace__ / __vars__ (model against code "
                    "only); (c) accessor / replace cases on grammar values, variables with empty / 0 / False values, with and without default, and "
                    "typed accessors with arguments (op A): as_list / as_tuple / as_dict with 16 character-class patterns (and 5 outside "
                    "the modelled syntax), maxsplit 0/1/2/5 and the defaults; float on the float() grammar (underscores, exponents, "
                    "inf/nan, blanks); date / datetime on ISO, non-padded, blank-day and invalid texts; path with HOME variants; as_enum "
                    "on every registered enumeration with members, aliases and wrong names; "
                    "(d) variables along the fallback chain: three configurations main -> fb -> fb2 with "
                    "their own values for shared variable names, entries with {var} references at every depth, cfg.get / "
                    "cfg[section][key] for own / fallback / fallback-of-fallback / default / override answers looked at through "
                    ".str, .source, the variable dictionary held, .replaced, .replace(default, **vars) and the typed accessors "
                    "of the replaced entry, repeated after the variables changed (the same looks are part of the batteries "
                    "of (a) and (b); 30 % of the files of (b) have DEFAULT / __replace__ / __vars__ sections). "
                    "Non-trivial: the history has a profile change or a fallback or an "
                    "allow_new=False update; distinct by canonical JSON")
        ctx.trusted += ["configparser, textwrap.fill and str.format are modelled on the subsets the generators reach "
                        "(ASCII, no tabs, no '%', specs [[fill]align][width])",
                        "the reference store of the oracle (harness/c19.py: Ref) as the statement of the lookup order"]
        ctx.assumptions += ["values are ASCII; no '%' in values (ConfigParser interpolation is not modelled); at most one [DEFAULT] "
                            "header per file; a variable set to None by a valueless key of __vars__ counts as unknown",
                            "text round trip is required for the configurations of wf_text (= WfText of the theorem "
                            "text_roundtrip, compared on every generated configuration): words separated by single blanks, no "
                            "word starting with '#' or ';', lower-case keys without blank/'='/':' that fit the line with the "
                            "key column, section names without blanks; a section written as name__profile must come back as "
                            "section `name` of profile `profile`; other configurations are compared with the model only",
                            "cfg.get(key, section=X) with X not a section but a key of the master section is excluded from "
                            "the oracle (the model mirrors it); counted as excluded:section-is-master-key"]
        corpus = common.VERIF / "corpus" / "C19"
        if corpus.exists():
            for f in sorted(corpus.glob("*.json")):
                hist = json.loads(f.read_text())
                ctx.case({"corpus": f.name})
                ctx.count("corpus")
                run_history(ctx, drv, hist, tmp)
                ctx.traces += 1
        # (a) bounded-exhaustive
        L = 4 if ctx.thorough else 3
        bat = exhaustive_battery()
        for hist in exhaustive_histories(L):
            key = [(op["op"], op.get("cfg"), op.get("sec"), op.get("key"), op.get("profile"), op.get("profiles"), op.get("master"))
                   for op in hist]
            ctx.case(key, nontrivial=any(op["op"] in "PL" for op in hist))
            ctx.count("exhaustive")
            run_history(ctx, drv, hist + json.loads(json.dumps(bat)), tmp)
            ctx.traces += 1
        # (b) random histories
        for _ in range(ctx.budget(2000, 9000)):
            n = rng.choice([1, 2, 3, 5, 8, 12, 20, 30])
            hist = gen_history(rng, n)
            muts = [op for op in hist if op["op"] in MUTATING]
            ctx.case({"digest": common.digest(hist), "steps": [op["op"] for op in muts][:30]},
                     nontrivial=any(op["op"] in "PL" or op.get("allow_new") is False for op in muts))
            ctx.count("random")
            ctx.count(f"len={n}")
            run_history(ctx, drv, hist, tmp)
            ctx.traces += 1
        # (b2) configurations aimed at the text form; corner cases of the reader
        for _ in range(ctx.budget(400, 4000)):
            hist = gen_rt_history(rng)
            ctx.case({"digest": common.digest(hist), "rt": len(hist)})
            ctx.count("text-form")
            run_history(ctx, drv, hist, tmp)
            ctx.traces += 1
        for _ in range(ctx.budget(40, 400)):
            hist = gen_odd_history(rng)
            ctx.case({"digest": common.digest(hist), "odd": [op["text"] for op in hist if op["op"] == "F"]})
            ctx.count("odd-files")
            run_history(ctx, drv, hist, tmp)
            ctx.traces += 1
        # (d) variables along the fallback chain
        for _ in range(ctx.budget(350, 3000)):
            hist = gen_vars_history(rng)
            ctx.case({"digest": common.digest(hist), "vars": len(hist)},
                     nontrivial=any(op["op"] in "LK" and op.get("on") for op in hist))
            ctx.count("vars-along-chain")
            run_history(ctx, drv, hist, tmp)
            ctx.traces += 1
        # (e) objects handed out by getters, changed in place; deleted sections
        for _ in range(ctx.budget(150, 1500)):
            hist = gen_alias_history(rng)
            ctx.case({"digest": common.digest(hist), "alias": [op.get("kind", op["op"]) for op in hist if op["op"] in "YXC"]})
            ctx.count("in-place-changes")
            for op in hist:
                if op["op"] in "YXC":
                    ctx.count("alias:" + op.get("kind", {"X": "del-section", "C": "clear"}.get(op["op"])))
            run_history(ctx, drv, hist, tmp)
            ctx.traces += 1
        # (c) accessors and replace
        for _ in range(ctx.budget(160, 1800)):
            hist = gen_pure(rng, 50)
            ctx.case({"digest": common.digest(hist), "pure": 50})
            ctx.count("pure")
            run_history(ctx, drv, hist, tmp)
            ctx.traces += 1
        library_users(ctx)
    finally:
        shutil.rmtree(tmp, ignore_errors=True)


def library_users(ctx):
    """math.constant (a user of Configuration the property anchors): every constant/source of constant.txt,
    read independently with the standard library's ConfigParser, is what constant.get returns"""
    import configparser
    import importlib.resources as ir

    from midgard.math.constant import constant

    cp = configparser.ConfigParser(allow_no_value=True, delimiters=("=",))
    cp.optionxform = str
    cp.read_string(ir.files("midgard.math").joinpath("constant.txt").read_text())
    n = 0
    for sec in cp.sections():
        if sec.startswith("__") or "__" in sec:
            continue
        for k, v in cp[sec].items():
            if ":" in k or k.startswith("__"):
                continue
            try:
                want = float(v)
            except (TypeError, ValueError):
                continue
            n += 1
            try:
                got = constant.get(sec, source=k)
                ok = got == want
            except Exception as ex:  # noqa: BLE001
                ok, got = False, f"{type(ex).__name__}: {ex}"
            if not ok:
                ctx.violate("constant:lookup", f"constant.get({sec!r}, source={k!r}) gave {got!r}, the file says {v!r}",
                            {"constant": sec, "source": k})
    ctx.count("constants-checked", n)
    files_user(ctx)


def files_user(ctx):
    """config.files.FileConfiguration.path: directory/filename entries with {variables}, the {gz} marker that must
    survive replacement as an unknown variable, a default for unknown variables, aliases looked up with
    get(…, default="") through a fallback configuration that lacks the section"""
    from pathlib import Path as P

    from midgard.config.files import FileConfiguration

    rng = ctx.rng
    for n in range(60):
        fc = FileConfiguration("files")
        other = FileConfiguration("other")
        other.update("elsewhere", "filename", "x")
        if n % 2:
            fc.fallback_config = other
        year, name = str(rng.randint(1990, 2030)), rng.choice(["one", "two", "abc"])
        d = rng.choice(["/data/{year}", "/data/{year}/{unknown}", "/tmp/c19-nowhere/{station}/{year}", "/plain"])
        f = rng.choice(["f_{name}.txt{gz}", "{name}{year}{gz}", "plain.dat", "{name:>5}.txt"])
        fc.update("key1", "directory", d)
        fc.update("key1", "filename", f)
        if n % 3 == 0:
            fc.update("key1", "aliases", "alias_{name}.txt, other.txt")
        zipped = rng.choice([True, False])
        dflt = rng.choice([None, "*"])
        fv = {"year": year, "name": name}

        def sub(t):
            t = t.replace("{year}", year).replace("{name}", name).replace("{name:>5}", name.rjust(5))
            if dflt is not None:
                t = t.replace("{unknown}", dflt).replace("{station}", dflt).replace("{gz}", dflt)
            return t

        want = P(sub(d)) / P(sub(f))
        if "{gz}" in want.name:
            want = want.with_name(want.name.replace("{gz}", ".gz" if zipped else ""))
        case = {"directory": d, "filename": f, "file_vars": fv, "default": dflt, "is_zipped": zipped, "fallback": bool(n % 2),
                "aliases": n % 3 == 0}
        try:
            got = fc.path("key1", file_vars=fv, default=dflt, is_zipped=zipped, download_missing=False, use_aliases=True)
        except Exception as ex:  # noqa: BLE001
            ctx.violate(f"files:path-raises:{type(ex).__name__}", f"FileConfiguration.path raised {type(ex).__name__}: {ex}", case)
            continue
        ctx.count("files-path-checked")
        if got != want:
            ctx.violate("files:path", f"FileConfiguration.path gave {got}, expected {want}", case)


def replay(payload):
    rp = payload.get("replay", payload)
    if "history" not in rp:
        print(json.dumps(rp)[:1500])
        return 1
    tmp = tempfile.mkdtemp(prefix="c19r-")
    try:
        rep = run_history(None, None, json.loads(json.dumps(rp["history"])), tmp)
    finally:
        shutil.rmtree(tmp, ignore_errors=True)
    want = payload.get("key")
    hits = [h for h in rep.hits if want is None or h[0] == want]
    muts = [op for op in rp["history"] if op["op"] in MUTATING]
    print(f"history: {len(rp['history'])} ops, {len(muts)} mutating: " + " ".join(op["op"] for op in muts)[:200])
    for k, what, step in hits[:10]:
        print(f"VIOLATION reproduced key={k} step[{step}]={json.dumps({a: b for a, b in rp['history'][step].items() if not a.startswith('_')})[:300]}\n  {what}")
    if not hits:
        print("no violation on the current tree for this history")
    return 1 if hits else 0
