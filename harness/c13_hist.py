"""C13 — histories: the SP3 parser's result does not depend on what the process did before.

`Sp3dParser._parse_position` uses process-wide state of midgard (`constant.c` is looked up for the *current* source of
constants, `Unit` factors).  Between two parses a program legitimately uses that state — `with constant.use_source(s):`
blocks that end normally, are nested, or are left through an exception the caller handles.  None of that may change what
a well-formed file parses to: after every step of a generated history the file is judged by the generating orbit model
(`c13.oracle`, `c13.oracle_dataset`: positions, clocks in metres of light travel, accuracy codes, epochs, Dataset), i.e.
it must be what a fresh interpreter returns.

A history is data (replayable): [{"op": "use_source", "source": s, "body": b, "inner": {...}?} | {"parse": text, "via_plugin": bool}]
"""
from __future__ import annotations

import warnings

from . import common

SOURCES = ["default", "iers_2010", "egm_2008", "web", "cgcs2000", "de430", "de421", "de440", "gtrf", "jgs", "pz_90", "wgs84", "book",
           "C", "E", "G", "J", "R", "no_such_source"]
# what the body of a block does: nothing; reads constants (some are unknown to most sources: UnknownConstantError);
# raises an exception of the caller's own; leaves through return / break (GeneratorExit in the context manager)
BODIES = ["ok", "read:GM", "read:c", "read:R_sun", "read:a", "raise:ValueError", "raise:KeyError", "return"]


class _Mine(Exception):
    pass


def _body(constant, body):
    if body.startswith("read:"):
        return getattr(constant, body[5:])
    if body == "raise:ValueError":
        raise ValueError("caller's own error inside the block")
    if body == "raise:KeyError":
        raise KeyError("caller's own error inside the block")
    return None


def run_op(op):
    """one ambient operation; every exception it provokes is handled here, as a careful caller would → outcome text"""
    from midgard.math.constant import constant

    def block(o):
        with constant.use_source(o["source"]):
            if o.get("inner"):
                try:
                    block(o["inner"])
                except Exception:  # noqa: BLE001  (handled inside the outer block)
                    pass
            if o["body"] == "return":
                return "returned"
            _body(constant, o["body"])
        return "ended"

    try:
        with warnings.catch_warnings():
            warnings.simplefilter("ignore")
            return block(op)
    except Exception as e:  # noqa: BLE001
        return f"handled {type(e).__name__}"


def all_sources():
    """every source the library's constants file knows (read through the library), plus the typed list and an unknown one"""
    try:
        from midgard.math.constant import constant

        cs = constant._constants
        found = {src for name in cs.section_names for src in cs[name].as_dict().keys()} - {"__unit__"}
    except Exception:  # noqa: BLE001
        found = set()
    return sorted(found | set(SOURCES))


def gen_op(rng, depth=0, sources=None):
    sources = sources or SOURCES
    op = {"op": "use_source", "source": rng.choice(sources), "body": rng.choice(BODIES)}
    if depth < 2 and rng.random() < 0.3:
        op["inner"] = gen_op(rng, depth + 1, sources)
        if rng.random() < 0.3:          # the same source entered again inside its own block
            op["inner"]["source"] = op["source"]
    return op


class _Prefixed:
    """the file oracle of c13, reporting under history:… keys"""

    def __init__(self, ctx):
        self._ctx = ctx

    def violate(self, key, what, case):
        self._ctx.violate("history:" + key, "after earlier use of midgard in the same process (constant.use_source blocks): " + what, case)

    def __getattr__(self, name):
        return getattr(self._ctx, name)


def history_cases(ctx, c13, impl, rng, n):
    pref = _Prefixed(ctx)
    sources = all_sources()
    todo = list(sources)                      # every source at least once, left by an exception
    for _ in range(n):
        steps = []
        f = c13.gen_file(rng, True, nsat=rng.randint(1, 4), nep=rng.randint(1, 3))
        for _k in range(rng.randint(2, 5)):
            for _j in range(rng.randint(1, 3)):
                op = gen_op(rng, sources=sources)
                if todo:
                    op = {"op": "use_source", "source": todo.pop(), "body": rng.choice(["read:R_sun", "raise:ValueError", "read:no_such_constant"])}
                if op.get("inner") and op["inner"]["source"] == op["source"]:
                    ctx.count("history op: source re-entered inside its own block")
                ctx.count(f"history op: source {op['source']}")
                out = run_op(op)
                steps.append(op)
                ctx.count(f"history op: use_source block {out}" + (" (nested)" if op.get("inner") else ""))
            if rng.random() < 0.4:
                f = c13.gen_file(rng, True, nsat=rng.randint(1, 4), nep=rng.randint(1, 3))
            via = rng.random() < 0.5
            steps.append({"parse": f["text"], "via_plugin": via})
            case = {"history": list(steps)}
            ctx.case({"history": [common.digest(s) for s in steps]})
            ctx.count("history: parse after use_source blocks")
            st, p = impl.parse(f["text"], via_plugin=via)
            if st == "raises":
                ctx.violate(f"history:raises:{p.split(':')[0]}", f"well-formed file makes the parser raise {p} after earlier constant.use_source blocks "
                            f"in the same process (step {len(steps)})", case)
                continue
            dres = impl.dataset(p)
            c13.oracle(pref, case, f, p, dres)
            c13.oracle_dataset(pref, case, f, p, dres)
    # leave the process as it was found (a leaked source would also disturb the checks that follow)
    from midgard.math.constant import constant

    if constant.source != "default":
        ctx.violate("history:source-left-behind", f"after the histories the current source of constants is {constant.source!r}, not 'default'",
                    {"history": []})


def canon(c13, p, dres):
    import numpy as np

    d = p.as_dict()
    out = {"meta": {k: str(v) for k, v in sorted(p.meta.items()) if not k.startswith("__")}}
    for k in sorted(d):
        out[k] = [[float(x).hex() if x == x else "nan" for x in np.atleast_1d(v)] if not isinstance(v, str) else v for v in d[k]]
    out["dataset"] = None if dres[0] != "ok" else [float(s) for s in c13.dataset_seconds(dres[1])]
    return out


def replay_history(c13, payload):
    """new process: every distinct file is parsed once before anything else happens (what a fresh interpreter returns), then the
    history is re-run and every parse is compared with that"""
    c = payload.get("replay", payload)
    print("key:", payload.get("key"), "|", payload.get("what"))
    impl = c13.Impl()
    bad = 0
    try:
        fresh = {}
        for s in c["history"]:
            if "parse" in s and s["parse"] not in fresh:
                st, p = impl.parse(s["parse"])
                fresh[s["parse"]] = ("raises", p) if st == "raises" else ("ok", canon(c13, p, impl.dataset(p)))
        for k, s in enumerate(c["history"], 1):
            if "parse" not in s:
                print(f"step {k}: use_source({s['source']!r}) body {s['body']}{' nested' if s.get('inner') else ''}: {run_op(s)}")
                continue
            st, p = impl.parse(s["parse"], via_plugin=s.get("via_plugin", False))
            now = ("raises", p) if st == "raises" else ("ok", canon(c13, p, impl.dataset(p)))
            same = now == fresh[s["parse"]]
            print(f"step {k}: parse -> {'raises ' + str(p) if st == 'raises' else 'ok'}; same as in the fresh state: {same}")
            if not same:
                print("VIOLATION (replayed)")
                bad = 1
    finally:
        impl.cleanup()
    return bad
