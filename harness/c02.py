"""C02 — every time format represents the same instant and survives a round trip.

prove:       lean/Midgard/Props/C02.lean
correspond:  `fmt._from_jds` (reading a format from a Time) and `fmt._to_jds` (constructing from the value)
             of all 13 formats, and jd_int/jd_frac, real code vs the Lean model on the same exact rationals
oracle:      round trip within the format's resolution, same instant across formats, jd_int/jd_frac
             normalisation, scalar = list = ndarray — on the real code only
"""
from __future__ import annotations

import json
from datetime import datetime, timedelta
from fractions import Fraction as F

import numpy as np

from . import common
from .common import Ctx, frac, rs, hexs, unhex

SCALES = ["utc", "tai", "gps", "tt", "tcg"]
NUMERIC = ["jd", "mjd", "gps_seconds", "jyear", "decimalyear"]
TEXT = ["isot", "iso", "yday", "date", "yydddsssss", "yyyydddsssss"]
ALL = ["jd", "mjd", "datetime", "gps_ws", "gps_seconds", "jyear", "decimalyear", "yydddsssss", "yyyydddsssss",
       "isot", "iso", "yday", "date"]
DAY_US = 86400 * 10**6
US = F(1, DAY_US)
NS = F(1, 86400 * 10**9)
DT2000 = datetime(2000, 1, 1)
RES = {  # resolution of a format in days (the statement's figures)
    "datetime": US, "isot": US, "iso": US, "yday": US,
    "yydddsssss": F(1, 86400) + US, "yyyydddsssss": F(1, 86400) + US, "date": F(1),
    "jd": 100 * US, "mjd": 100 * US, "gps_seconds": 100 * US, "jyear": 100 * US, "decimalyear": 100 * US,
    "gps_ws": NS,
}


def _imp():
    from midgard.data.time import Time

    return Time


def gen_epochs(ctx: Ctx):
    """(day number from 2000-01-01, microsecond of day)"""
    rng = ctx.rng
    lo, hi = (datetime(1900, 1, 1) - DT2000).days, (datetime(2100, 1, 1) - DT2000).days
    days = set()
    for y in list(range(1900, 2101, 7)) + [1968, 1969, 1970, 1972, 1980, 1999, 2000, 2016, 2017, 2068, 2069, 2100]:
        for (m, d) in ((1, 1), (12, 31), (2, 28), (3, 1)):
            days.add((datetime(y, m, d) - DT2000).days)
        if y % 4 == 0 and (y % 100 != 0 or y % 400 == 0):
            days.add((datetime(y, 2, 29) - DT2000).days)
    for (y, m, d) in ((2008, 6, 30), (2008, 12, 31), (2015, 6, 30), (2015, 12, 31), (2016, 7, 1), (2016, 12, 31), (2012, 6, 30), (2000, 12, 31)):
        days.add((datetime(y, m, d) - DT2000).days)
    g0 = (datetime(1980, 1, 6) - DT2000).days
    for k in (0, 1, 2, 3):
        for dd in (-1, 0, 1, 6, 7):
            days.add(g0 + 7 * 1024 * k + dd)
    must = [(datetime(y, m, d) - DT2000).days for (y, m, d) in ((2008, 12, 31), (2015, 6, 30), (2015, 12, 31), (2016, 12, 31), (2000, 12, 31))]
    days = [d for d in days if lo <= d < hi and d not in must]
    rng.shuffle(days)
    days = must + days[: ctx.budget(40, 400)]
    for _ in range(ctx.budget(60, 3000)):
        days.append(rng.randint(lo, hi - 1))
    uss = [0, 1, 43200 * 10**6, DAY_US - 1, DAY_US - 10, 43200 * 10**6 - 1, 500000, 999999, 1000000, 86399 * 10**6]
    out = []
    for d in days:
        for _ in range(2):
            k = rng.random()
            us = rng.choice(uss) if k < 0.5 else rng.randint(0, DAY_US - 1)
            out.append((d, us))
    return out


def value_to_proto(fmt, v):
    """value of a format as protocol tokens (val, val2)"""
    if fmt in NUMERIC:
        return rs(frac(v)), "-"
    if fmt == "datetime":
        d = v - DT2000
        return str(d.days * DAY_US + d.seconds * 10**6 + d.microseconds), "-"
    if fmt == "gps_ws":
        return rs(frac(v[0])), rs(frac(v[1]))
    return hexs(str(v)), "-"


def scalar_value(fmt, v, i):
    """element i of a format value read from an array Time"""
    if fmt == "gps_ws":
        return (v.week[i], v.seconds[i], v.day[i])
    return v[i]


def dt_us(dt):
    d = dt - DT2000
    return d.days * DAY_US + d.seconds * 10**6 + d.microseconds


def near_tie(x: F) -> bool:
    """x (in microseconds) within 1e-4 of a rounding tie"""
    r = (x - F(1, 2)) % 1
    return min(r, 1 - r) < F(1, 10**4)


def run(ctx: Ctx):
    from translator import extract_time, extract_timefmt

    extract_time.generate()
    ch, info = extract_timefmt.generate()     # _dy2jd/_jd2dy and the dispatch idioms, from the `ast` of _time.py
    ctx.extra["source_exprs_timefmt"] = info
    ctx.proof = common.prove("C02")
    Time = _imp()
    drv = ctx.driver
    ctx.rule = ("epochs = (day, microsecond) pairs 1900..2100: year ends, leap days, GPS week roll-overs, midnight/noon edges, "
                "10 us before midnight, random; per scale, every registered format is read (from_jds) and a new Time is built "
                "from the value (to_jds), as array and as scalar/list; non-trivial = microsecond part non-zero; distinct by (scale, fmt, epoch)")
    ctx.trusted += ["CPython datetime/strftime/strptime are compared as text with the model's calendar rendering, not verified",
                    "floating-point error is measured (≤ 4 ulp on single-float values, exact on text/datetime away from rounding ties)"]
    ctx.assumptions += ["2-digit-year text (yy:ddd:sssss) can only denote 1969..2068 (strptime pivot); outside that range the round trip is not required",
                        "gps formats are defined from 1980-01-06 on (the code raises ValueError before)"]
    epochs = gen_epochs(ctx)
    ctx.extra["epochs"] = len(epochs)
    registered = None
    from midgard.data import _time as T_

    registered = list(T_._FORMATS["TimeFormat"].keys())
    if sorted(registered) != sorted(ALL):
        ctx.disagree("registered formats", {"formats": registered}, ALL, registered)

    for scale in SCALES:
        v1 = np.array([float(F(4903089, 2) + d) for d, _ in epochs])
        v2 = np.array([float(F(us, DAY_US)) for _, us in epochs])
        try:
            t0 = Time(v1, val2=v2, fmt="jd", scale=scale)
        except Exception as e:
            ctx.violate(f"construct-jd:{scale}", f"{type(e).__name__}: {e}", {"scale": scale})
            continue
        j1 = [frac(x) for x in np.asarray(t0.jd1)]
        j2 = [frac(x) for x in np.asarray(t0.jd2)]
        n = len(epochs)
        # ---- constructor of the two-part jd itself vs model
        ans = drv.ask([f"c02 tojds jd {scale} {rs(a)} {rs(b)}" for a, b in zip(v1, v2)])
        for i, a in enumerate(ans):
            m1, m2 = (F(x) for x in a.split())
            if abs((j1[i] + j2[i]) - (m1 + m2)) > F(1, 10**15):
                ctx.disagree("TimeJD._to_jds (two-part)", {"scale": scale, "val": float(v1[i]), "val2": float(v2[i])}, a, [str(j1[i]), str(j2[i])])
            elif j1[i] != m1:
                ctx.count("float-floor-edge(jd two-part)")
        check_intfrac(ctx, drv, t0, {"scale": scale, "fmt": "jd(two-part)"}, epochs)
        for fmt in ALL:
            one_format(ctx, Time, drv, scale, fmt, t0, j1, j2, epochs)
        ctx.traces += n * len(ALL)
    # every further section classifies what the real code returns; an exception that still escapes one (a value of
    # an unexpected shape or type) is reported with the section as the failing call site, not as a tool failure
    for name, fn in (("two_part_and_shapes", lambda: two_part_and_shapes(ctx, Time, drv, epochs)),
                     ("gps_week_edges", lambda: gps_week_edges(ctx, Time, drv)),
                     ("scalar_readout", lambda: scalar_readout(ctx, Time, epochs)),
                     ("unsorted_arrays", lambda: unsorted_arrays(ctx, Time, drv)),
                     ("text_wide_years", lambda: text_wide_years(ctx, Time, drv)),
                     ("text_mutations", lambda: text_mutations(ctx, Time, drv, epochs)),
                     ("decimalyear_extras", lambda: decimalyear_extras(ctx, Time, drv)),
                     ("input_layouts", lambda: input_layouts(ctx, Time, drv, epochs)),
                     ("leap_second_texts", lambda: leap_second_texts(ctx, Time, drv)),
                     ("ambient_state", lambda: ambient_state(ctx, epochs))):
        try:
            fn()
        except common.ToolFailure:
            raise
        except Exception as e:
            import traceback
            tb = traceback.extract_tb(e.__traceback__)[-1]
            ctx.violate(f"unexpected-result:{name}", f"{type(e).__name__}: {e} (at {tb.filename.split('/')[-1]}:{tb.lineno} `{tb.line}`): "
                        "the library returned a value of a shape/type no branch of the check expects", {"section": name})


def check_intfrac(ctx, drv, t, case, epochs):
    """jd_int / jd_frac: half-integer day, fraction in [0,1), same instant — model and oracle"""
    a1 = np.atleast_1d(np.asarray(t.jd1, dtype=float))
    a2 = np.atleast_1d(np.asarray(t.jd2, dtype=float))
    try:
        ji = np.atleast_1d(np.asarray(t.jd_int, dtype=float))
        jf = np.atleast_1d(np.asarray(t.jd_frac, dtype=float))
    except Exception as e:
        ctx.violate("jd_int-raises", f"{type(e).__name__}: {e}", case)
        return
    ans = drv.ask([f"c02 jdintfrac {rs(x)} {rs(y)}" for x, y in zip(a1, a2)])
    for i, a in enumerate(ans):
        mi, mf = (F(x) for x in a.split())
        gi, gf = frac(ji[i]), frac(jf[i])
        c = {**case, "jd1": float(a1[i]), "jd2": float(a2[i])}
        if gi != mi or abs(gf - mf) > F(1, 10**15):
            ctx.disagree("jd_int/jd_frac", c, a, [str(gi), str(gf)])
        if (2 * gi).denominator != 1 or (2 * gi) % 2 != 1:
            ctx.violate("jd_int-not-half-integer", f"jd_int = {float(gi)!r}", c)
        elif not (0 <= gf < 1):
            ctx.violate("jd_frac-out-of-range", f"jd_frac = {float(gf)!r} for jd1={float(a1[i])!r} jd2={float(a2[i])!r}", c)
        elif abs((gi + gf) - (frac(a1[i]) + frac(a2[i]))) > NS:
            ctx.violate("jd_int+jd_frac-not-instant", "jd_int + jd_frac differs from jd1 + jd2", c)


def valid(fmt, scale, inst: F) -> str:
    if fmt in ("gps_ws", "gps_seconds"):
        if scale != "gps":
            return "scale"
        if inst < F(4888489, 2):
            return "pre1980"
    return "ok"


def ws_oracle(ctx, x, inst: F, case):
    """a gps_ws value is the week, the second of that week and the day of that week *of the instant*: whole week, day in
    0..6, 0 <= seconds < 604800, day = floor(seconds / 86400), week*7 + day = whole days since 1980-01-06 (stated on
    the real code; the theorem is `ws_roundtrip`)"""
    w, s, d = frac(x[0]), frac(x[1]), frac(x[2])
    days = (inst - F(4888489, 2)) // 1
    ctx.count("gps_ws-oracle" + (":last-20us-of-day" if 0 < 1 - (inst - F(1, 2)) % 1 <= 20 * US else ""))
    if not (w.denominator == 1 and d.denominator == 1 and 0 <= d <= 6 and 0 <= s < 604800 and s // 86400 == d and w * 7 + d == days):
        ctx.violate("gps_ws-week-day", f"gps_ws read-out (week={float(w)!r}, seconds={float(s)!r}, day={float(d)!r}) is not the week/second/day of the instant "
                    f"({float(days // 7)!r}, {float((inst - F(4888489, 2) - days // 7 * 7) * 86400)!r}, {float(days % 7)!r})", case)


def one_format(ctx, Time, drv, scale, fmt, t0, j1, j2, epochs):
    n = len(epochs)
    # ---------- read the format (from_jds) -------------------------------------------------
    try:
        v = getattr(t0, fmt)
        impl_err = None
    except ValueError as e:
        impl_err, v = "err", None
    except Exception as e:
        ctx.violate(f"read-raises:{fmt}", f"reading .{fmt} of a {scale} array raised {type(e).__name__}: {e}", {"scale": scale, "fmt": fmt})
        return
    lines = [f"c02 fromjds {fmt} {scale} {rs(a)} {rs(b)}" for a, b in zip(j1, j2)]
    ans = drv.ask(lines)
    statuses = [valid(fmt, scale, a + b) for a, b in zip(j1, j2)]
    if impl_err:
        # the array read fails as a whole if any element is invalid
        if all(s == "ok" for s in statuses):
            ctx.violate(f"read-refused:{fmt}:{scale}", f".{fmt} of a valid {scale} array raised ValueError", {"scale": scale, "fmt": fmt})
        if not any(a == "err" for a in ans):
            ctx.disagree(f"from_jds error channel ({fmt})", {"scale": scale, "fmt": fmt}, "value", "err")
        ctx.count(f"refused:{fmt}:{scale}")
        # fall back to the valid elements one by one
        keep = [i for i, s in enumerate(statuses) if s == "ok"]
        if not keep or statuses[0] == "scale":
            for i in range(n):
                ctx.case([scale, fmt, epochs[i][0], epochs[i][1], "refused"], nontrivial=False)
            return
        sub = Time(np.array([float(j1[i]) for i in keep]), val2=np.array([float(j2[i]) for i in keep]), fmt="jd", scale=scale)
        sj1 = [frac(x) for x in np.asarray(sub.jd1)]
        sj2 = [frac(x) for x in np.asarray(sub.jd2)]
        return one_format(ctx, Time, drv, scale, fmt, sub, sj1, sj2, [epochs[i] for i in keep])
    if any(a == "err" for a in ans):
        ctx.disagree(f"from_jds error channel ({fmt})", {"scale": scale, "fmt": fmt}, "err", "value")
        return
    vals = []
    for i in range(n):
        ctx.case([scale, fmt, epochs[i][0], epochs[i][1]], nontrivial=epochs[i][1] % 10**6 != 0)
        x = scalar_value(fmt, v, i)
        vals.append(x)
        case = {"scale": scale, "fmt": fmt, "jd1": float(j1[i]), "jd2": float(j2[i])}
        a = ans[i]
        if fmt in NUMERIC:
            m = F(a)
            if abs(frac(x) - m) > F(1, 10**15) * abs(m) + F(1, 10**18):
                ctx.disagree(f"from_jds ({fmt})", case, a, repr(float(x)))
        elif fmt == "gps_ws":
            ws_oracle(ctx, x, j1[i] + j2[i], case)
            mw, ms, md = (F(t) for t in a.split())
            if frac(x[0]) != mw or frac(x[2]) != md or abs(frac(x[1]) - ms) > F(1, 10**9):
                near_midnight = min((j1[i] + j2[i] - F(1, 2)) % 1, 1 - (j1[i] + j2[i] - F(1, 2)) % 1) < F(1, 10**13)
                if near_midnight and abs((frac(x[0]) * 7 * 86400 + frac(x[1])) - (mw * 7 * 86400 + ms)) <= F(1, 10**9):
                    ctx.count("float-floor-edge(gps_ws day, < 1e-13 d from midnight)")
                else:
                    ctx.disagree("from_jds (gps_ws)", case, a, [float(t) for t in x])
        elif fmt == "datetime":
            if dt_us(x) != int(a):
                if near_tie((j1[i] - F(4903089, 2)) * DAY_US) or near_tie(j2[i] * DAY_US):
                    ctx.count("rounding-tie-skipped")
                else:
                    ctx.disagree("from_jds (datetime)", case, a, dt_us(x))
        else:
            if unhex(a) != str(x):
                if near_tie(j2[i] * DAY_US):
                    ctx.count("rounding-tie-skipped")
                else:
                    ctx.disagree(f"from_jds ({fmt})", case, unhex(a), str(x))
    # ---------- construct from the value (to_jds), array form ------------------------------
    try:
        if fmt == "gps_ws":
            t1 = Time(np.asarray(v.week), val2=np.asarray(v.seconds), fmt=fmt, scale=scale)
        else:
            t1 = Time(v, fmt=fmt, scale=scale)
    except Exception as e:
        ctx.violate(f"construct-raises:{fmt}", f"Time(value, fmt={fmt!r}, scale={scale!r}) raised {type(e).__name__}: {e}", {"scale": scale, "fmt": fmt})
        return
    k1 = [frac(x) for x in np.atleast_1d(np.asarray(t1.jd1, dtype=float))]
    k2 = [frac(x) for x in np.atleast_1d(np.asarray(t1.jd2, dtype=float))]
    if len(k1) != n or len(t1) != n:
        ctx.violate(f"length:{fmt}", f"{n} values gave {len(k1)} epochs (len() = {len(t1)})", {"scale": scale, "fmt": fmt})
        return
    lines = []
    for x in vals:
        a, b = value_to_proto(fmt, x)
        lines.append(f"c02 tojds {fmt} {scale} {a} {b}")
    ans = drv.ask(lines)
    for i in range(n):
        case = {"scale": scale, "fmt": fmt, "value": str(vals[i]), "jd1": float(j1[i]), "jd2": float(j2[i])}
        a = ans[i]
        if a in ("err", "overflow"):
            ctx.disagree(f"to_jds error channel ({fmt})", case, a, "value")
            continue
        m1, m2 = (F(t) for t in a.split())
        # single-float forms that scale the value carry its relative rounding (≈1e-16 × 1e4..1e5 days)
        tolr = F(1, 10**15) + {"decimalyear": F(3, 10**10), "jyear": F(1, 10**11), "gps_seconds": F(1, 10**11)}.get(fmt, 0)
        if abs((k1[i] + k2[i]) - (m1 + m2)) > tolr:
            ctx.disagree(f"to_jds ({fmt})", case, a, [str(k1[i]), str(k2[i])])
        elif k1[i] != m1:
            ctx.count(f"float-floor-edge({fmt})")
        # ------ oracle: the round trip and "same instant"
        inst0, inst1 = j1[i] + j2[i], k1[i] + k2[i]
        if fmt == "yydddsssss":
            y = (DT2000 + timedelta(days=int((inst0 - F(4903089, 2)) // 1))).year
            if not (1969 <= y <= 2068):
                ctx.count("format-domain:2-digit-year")
                continue
        err = abs(inst1 - inst0)
        if err > RES[fmt]:
            ctx.violate(f"roundtrip:{fmt}", f"{fmt} round trip of a {scale} epoch is off by {float(err * 86400):.3e} s (resolution {float(RES[fmt] * 86400):.1e} s)", case)
    check_intfrac(ctx, drv, t1, {"scale": scale, "fmt": fmt}, epochs)
    # ---------- scalar / list forms equal the array elementwise -----------------------------
    rng = ctx.rng
    for i in rng.sample(range(n), min(n, 4)):
        x = vals[i]
        forms = {}
        try:
            if fmt == "gps_ws":
                forms["scalar"] = Time(float(x[0]), val2=float(x[1]), fmt=fmt, scale=scale)
                forms["ndarray1"] = Time(np.array([x[0]]), val2=np.array([x[1]]), fmt=fmt, scale=scale)
            else:
                xs = x.item() if isinstance(x, np.generic) and fmt not in TEXT else (str(x) if fmt in TEXT else x)
                forms["scalar"] = Time(xs, fmt=fmt, scale=scale)
                forms["list1"] = Time([xs], fmt=fmt, scale=scale)
                forms["ndarray1"] = Time(np.array([xs]), fmt=fmt, scale=scale)
        except Exception as e:
            ctx.violate(f"shape-raises:{fmt}", f"scalar/list/ndarray construction for {fmt} raised {type(e).__name__}: {e}",
                        {"scale": scale, "fmt": fmt, "value": str(x)})
            continue
        for name, t in forms.items():
            ctx.count(f"shape:{name}")
            s1 = np.atleast_1d(np.asarray(t.jd1, dtype=float))
            s2 = np.atleast_1d(np.asarray(t.jd2, dtype=float))
            if len(s1) != 1 or frac(s1[0]) + frac(s2[0]) != k1[i] + k2[i]:
                ctx.violate(f"shape-differs:{fmt}:{name}", f"{name} construction differs from the array element",
                            {"scale": scale, "fmt": fmt, "value": str(x)})
            if name == "scalar" and np.ndim(t.jd1) != 0:
                ctx.violate(f"scalar-shape:{fmt}", "scalar in, array out", {"scale": scale, "fmt": fmt})


def _readout_vs_scalar(ctx, Time, scale, sel, label):
    """every format read from the array of the epochs `sel` (in the given order) equals, element by element, what is read
    from the scalar and from the length-1 Time of that element (`scalar_eq_array`, stated on the real code)"""
    v1 = np.array([float(F(4903089, 2) + d) for d, _ in sel])
    v2 = np.array([float(F(us, DAY_US)) for _, us in sel])
    tn = Time(v1, val2=v2, fmt="jd", scale=scale)
    for fmt in ALL:
        try:
            vn = getattr(tn, fmt)
        except ValueError:
            continue
        except Exception as e:
            ctx.violate(f"read-raises:{fmt}", f"{type(e).__name__}: {e}", {"scale": scale, "fmt": fmt})
            continue
        if (len(vn.week) if fmt == "gps_ws" else len(vn)) != len(sel):
            ctx.violate(f"length:{fmt}", f".{fmt} of {len(sel)} epochs has another length", {"scale": scale, "fmt": fmt})
            continue
        for i in range(len(sel)):
            case = {"scale": scale, "fmt": fmt, "jd1": float(v1[i]), "jd2": float(v2[i]), "index": i,
                    "array_jd1": [float(x) for x in v1[:12]], "array_jd2": [float(x) for x in v2[:12]]}
            ctx.count(label)
            try:
                ts = Time(float(v1[i]), val2=float(v2[i]), fmt="jd", scale=scale)
                t1 = Time(np.array([v1[i]]), val2=np.array([v2[i]]), fmt="jd", scale=scale)
                vs, vl = getattr(ts, fmt), getattr(t1, fmt)
            except Exception as e:
                ctx.violate(f"scalar-read-raises:{fmt}", f"{type(e).__name__}: {e}", case)
                continue
            a = scalar_value(fmt, vn, i)
            b = tuple(vs) if fmt == "gps_ws" else vs
            c = scalar_value(fmt, vl, 0)
            same = (lambda x, y: all(float(p) == float(q) for p, q in zip(x, y))) if fmt == "gps_ws" else (lambda x, y: x == y)
            if not same(a, b) or not same(a, c):
                ctx.violate(f"scalar-vs-array-readout:{fmt}", f".{fmt} of a scalar / length-1 / element {i} of a length-{len(sel)} {scale} time differ: {b!r} / {c!r} / {a!r}", case)


def unsorted_arrays(ctx, Time, drv):
    """arrays that are *not* ordered in time and whose first and last epoch agree in year / day / GPS week / TAI-UTC table row
    while epochs in between do not (stacked series of several stations, reversed and shuffled series, series that wrap
    around a year end, a midnight, a week roll-over, a leap second) — leap years and leap-second years among them.  Every
    format is read from the array and compared element by element with the model and with the scalar read-out, and a
    Time is rebuilt from the values (round trip)."""
    rng = ctx.rng
    D = lambda y, m, d: (datetime(y, m, d) - DT2000).days
    noon, us_any = 43200 * 10**6, lambda: rng.randint(0, DAY_US - 1)
    lists = []
    years = [2019, 2020, 1999, 2015, 2016] + rng.sample([2000, 2008, 2012, 2023, 2024, 2096, 2099], ctx.budget(2, 7)) \
        + [rng.randint(1981, 2098) for _ in range(ctx.budget(1, 60))]
    for y in years:
        # stacked series: the end of year y, the start of y + 1, then year y again (first and last in y)
        lists.append(("stacked-years", [(D(y, 11, 15), noon), (D(y, 12, 15), us_any()), (D(y + 1, 1, 15), 0), (D(y + 1, 2, 15), us_any()),
                                        (D(y, 10, 1), us_any()), (D(y, 11, 1), 1), (D(y, 12, 1), noon)]))
        # first and last in y + 1, the year before and the year after in between, next to the boundaries
        lists.append(("wrapped-year", [(D(y + 1, 3, 1), us_any()), (D(y, 12, 31), DAY_US - 1), (D(y + 1, 1, 1), 0), (D(y, 1, 1), 0), (D(y, 2, 28), us_any()),
                                       (D(y + 2, 1, 1), 1), (D(y - 1, 12, 31), us_any()), (D(y + 1, 12, 31), DAY_US - 10)]))
    for _ in range(ctx.budget(2, 40)):
        y = rng.randint(1981, 2097)
        srt = sorted((rng.randint(D(y, 1, 1), D(y + 3, 1, 1) - 1), us_any()) for _ in range(rng.randint(3, 9)))
        lists.append(("reversed", srt[::-1]))
        sh = srt[:]
        rng.shuffle(sh)
        same_year = [(D(y + 1, 6, 1), us_any())] + sh + [(D(y + 1, 7, 1), us_any())]
        lists.append(("shuffled-first-last-same-year", same_year))
    for d in [D(2016, 12, 31), D(2000, 2, 29), rng.randint(D(1981, 1, 1), D(2099, 1, 1))] + ([D(2015, 6, 30), D(1999, 12, 31), D(2019, 4, 6)] if ctx.budget(0, 1) else []):
        # first and last on the same day (and in the same week / table row), others days, weeks and rows apart
        lists.append(("wrapped-day", [(d, 10**6), (d + 1, 0), (d - 1, DAY_US - 1), (d + 7, us_any()), (d - 7 * 1024, noon), (d + 400, us_any()), (d, DAY_US - 2 * 10**6)]))
    g0 = D(1980, 1, 6)
    for wk in rng.sample([1023, 1024, 2047, 2048], ctx.budget(2, 4)) + [rng.randint(10, 3000)]:
        # first and last in the same GPS week, the neighbouring weeks in between
        lists.append(("wrapped-week", [(g0 + 7 * wk + 1, us_any()), (g0 + 7 * wk + 7, 0), (g0 + 7 * wk - 1, DAY_US - 1), (g0 + 7 * (wk + 2), noon), (g0 + 7 * wk + 6, DAY_US - 1)]))
    for name, eps in lists:
        for scale in SCALES:
            ctx.count(f"unsorted:{name}")
            v1 = np.array([float(F(4903089, 2) + d) for d, _ in eps])
            v2 = np.array([float(F(us, DAY_US)) for _, us in eps])
            t0 = Time(v1, val2=v2, fmt="jd", scale=scale)
            j1 = [frac(x) for x in np.asarray(t0.jd1)]
            j2 = [frac(x) for x in np.asarray(t0.jd2)]
            for fmt in ALL:
                one_format(ctx, Time, drv, scale, fmt, t0, j1, j2, eps)      # vs the model, element by element, + round trip
            _readout_vs_scalar(ctx, Time, scale, eps, "unsorted-vs-scalar")
        ctx.traces += len(eps) * len(ALL) * len(SCALES)


def scalar_readout(ctx, Time, epochs):
    """reading a format from a scalar, a length-1 and a length-n Time gives the same value element by element"""
    rng = ctx.rng
    must = [e for e in epochs[:10]]
    sel = must + rng.sample(epochs, min(len(epochs), ctx.budget(25, 400)))
    for scale in SCALES:
        _readout_vs_scalar(ctx, Time, scale, sel, "scalar-readout")
    # a gps_ws Time rebuilt from its own (n, 3) values, n = 1..6
    for n in range(1, 7):
        d0 = (datetime(1999, 8, 15) - DT2000).days
        v1 = np.array([float(F(4903089, 2) + d0 + 7 * 512 * k) for k in range(n)])
        v2 = np.array([0.25 + 0.1 * k for k in range(n)])
        case = {"fmt": "gps_ws", "n": n}
        ctx.count("gps_ws-from-ndarray")
        try:
            t = Time(v1, val2=v2, fmt="jd", scale="gps")
            g = Time(np.asarray(t.gps_ws.week), val2=np.asarray(t.gps_ws.seconds), fmt="gps_ws", scale="gps")
            h = Time(np.asarray(g).copy(), fmt="gps_ws", scale="gps")
            import copy as _copy
            c = _copy.deepcopy(g)
        except Exception as e:
            ctx.violate("gps_ws-from-ndarray-raises", f"{type(e).__name__}: {e}", case)
            continue
        # the two-part (weeks, seconds) input gives one epoch per element, the epochs it was read from
        g1 = np.atleast_1d(np.asarray(g.jd1, dtype=float))
        g2 = np.atleast_1d(np.asarray(g.jd2, dtype=float))
        if np.ndim(g.jd1) != 1 or len(g1) != n or len(g2) != n or np.ndim(g) == 0 or len(g) != n:
            ctx.violate("length:gps_ws", f"Time(weeks, val2=seconds, fmt='gps_ws') of {n} epochs gave jd1 of shape {np.shape(g.jd1)} and a value of shape {np.shape(g)}", case)
            continue
        src = [frac(p) + frac(q) for p, q in zip(np.asarray(t.jd1), np.asarray(t.jd2))]
        if any(abs(frac(p) + frac(q) - w) > NS for p, q, w in zip(g1, g2, src)):
            ctx.violate("two-part:gps_ws", f"Time(weeks, val2=seconds, fmt='gps_ws') of {n} epochs does not denote the epochs the weeks/seconds were read from", case)
            continue
        for name, x in (("Time(ndarray of the values)", h), ("deepcopy", c)):
            want = [frac(p) + frac(q) for p, q in zip(g1, g2)]
            got = [frac(p) + frac(q) for p, q in zip(np.atleast_1d(np.asarray(x.jd1)), np.atleast_1d(np.asarray(x.jd2)))]
            if len(got) != n or any(abs(p - q) > NS for p, q in zip(got, want)) or not np.array_equal(np.asarray(x), np.asarray(g)):
                ctx.violate("gps_ws-from-ndarray", f"{name} of a {n}-epoch gps_ws time denotes other epochs / values", case)


def gps_week_edges(ctx, Time, drv):
    """(week, seconds) inputs up to 100 us before / after a day or week boundary (weeks 0, 1, 1023/1024, 2047/2048, random):
    the value read back is the week/second/day of the instant (oracle) and equals the model's; scalar = array"""
    rng = ctx.rng
    weeks = [0, 1, 1023, 1024, 2047, 2048, 2049] + [rng.randint(2, 3000) for _ in range(ctx.budget(6, 60))]
    offs = [1, 2, 5, 10, 19, 20, 21, 40, 100]
    cases = []
    for w in weeks:
        for dday in (1, 2, 6, 7):
            for k in rng.sample(offs, 4):
                cases.append((w, dday * 86400 - k * 1e-6))
            cases.append((w, float(dday * 86400 % 604800)))
            cases.append((w, dday * 86400 % 604800 + rng.choice(offs) * 1e-6))
    wk = np.array([float(w) for w, _ in cases])
    sc = np.array([s for _, s in cases])
    try:
        t = Time(wk, val2=sc, fmt="gps_ws", scale="gps")
        v = t.gps_ws
    except Exception as e:
        ctx.violate("gps_ws-edges-raise", f"{type(e).__name__}: {e}", {"fmt": "gps_ws"})
        return
    j1 = [frac(x) for x in np.asarray(t.jd1)]
    j2 = [frac(x) for x in np.asarray(t.jd2)]
    ans = drv.ask([f"c02 fromjds gps_ws gps {rs(a)} {rs(b)}" for a, b in zip(j1, j2)])
    for i, (w, s) in enumerate(cases):
        case = {"scale": "gps", "fmt": "gps_ws", "week": w, "seconds": s, "jd1": float(j1[i]), "jd2": float(j2[i])}
        ctx.case(["gps", "gps_ws-edge", w, repr(s)], nontrivial=True)
        x = scalar_value("gps_ws", v, i)
        want = F(4888489, 2) + 7 * w + frac(s) / 86400
        if abs(j1[i] + j2[i] - want) > NS:
            ctx.violate("two-part:gps_ws", "Time(week, val2=seconds) does not denote 1980-01-06 + 7*week days + seconds to 1 ns", case)
        ws_oracle(ctx, x, j1[i] + j2[i], case)
        mw, ms, md = (F(z) for z in ans[i].split())
        if frac(x[0]) != mw or frac(x[2]) != md or abs(frac(x[1]) - ms) > F(1, 10**9):
            ctx.disagree("from_jds (gps_ws) next to a day/week boundary", case, ans[i], [float(z) for z in x])
        if i % 7 == 0:
            try:
                xs = tuple(Time(float(w), val2=float(s), fmt="gps_ws", scale="gps").gps_ws)
            except Exception as e:
                ctx.violate("gps_ws-edges-raise", f"scalar: {type(e).__name__}: {e}", case)
                continue
            if any(float(p) != float(q) for p, q in zip(xs, x)):
                ctx.violate("scalar-vs-array-readout:gps_ws", f"scalar {xs!r} / array element {x!r}", case)
    ctx.traces += len(cases)


def two_part_and_shapes(ctx, Time, drv, epochs):
    """two-part (val, val2) inputs of mjd and datetime"""
    rng = ctx.rng
    sel = rng.sample(epochs, min(len(epochs), ctx.budget(60, 1500)))
    for scale in ("utc", "gps", "tt"):
        mj = np.array([float(d + 51544) for d, _ in sel])
        fr = np.array([float(F(us, DAY_US)) for _, us in sel])
        try:
            t = Time(mj, val2=fr, fmt="mjd", scale=scale)
        except Exception as e:
            ctx.violate("construct-mjd-two-part", f"{type(e).__name__}: {e}", {"scale": scale})
            continue
        k1 = [frac(x) for x in np.asarray(t.jd1)]
        k2 = [frac(x) for x in np.asarray(t.jd2)]
        ans = drv.ask([f"c02 tojds mjd {scale} {rs(a)} {rs(b)}" for a, b in zip(mj, fr)])
        for i, a in enumerate(ans):
            ctx.case([scale, "mjd-two-part", sel[i][0], sel[i][1]])
            m1, m2 = (F(x) for x in a.split())
            case = {"scale": scale, "fmt": "mjd", "val": float(mj[i]), "val2": float(fr[i])}
            if abs((k1[i] + k2[i]) - (m1 + m2)) > F(1, 10**15):
                ctx.disagree("TimeMJD._to_jds (two-part)", case, a, [str(k1[i]), str(k2[i])])
            want = F(4800001, 2) + frac(mj[i]) + frac(fr[i])
            if abs(k1[i] + k2[i] - want) > NS:
                ctx.violate("two-part:mjd", "two-part mjd input does not denote val + val2 to 1 ns", case)
        check_intfrac(ctx, drv, t, {"scale": scale, "fmt": "mjd(two-part)"}, sel)
        dts = np.array([DT2000 + timedelta(days=d) for d, _ in sel], dtype=object)
        tds = np.array([timedelta(microseconds=us) for _, us in sel], dtype=object)
        try:
            t = Time(dts, val2=tds, fmt="datetime", scale=scale)
            k1 = [frac(x) for x in np.asarray(t.jd1, dtype=float)]
            k2 = [frac(x) for x in np.asarray(t.jd2, dtype=float)]
            ans = drv.ask([f"c02 tojds datetime {scale} {d * DAY_US} {us}" for d, us in sel])
            for i, a in enumerate(ans):
                ctx.case([scale, "datetime-two-part", sel[i][0], sel[i][1]])
                m1, m2 = (F(x) for x in a.split())
                if k1[i] != m1 or abs(k2[i] - m2) > F(1, 10**15):
                    ctx.disagree("TimeDateTime._to_jds (two-part)", {"scale": scale, "day": sel[i][0], "us": sel[i][1]}, a, [str(k1[i]), str(k2[i])])
        except Exception as e:
            ctx.violate("construct-datetime-two-part", f"{type(e).__name__}: {e}", {"scale": scale})
        # scalar and list forms of the two-part inputs denote the same instant as the array element
        for i in rng.sample(range(len(sel)), min(len(sel), 6)):
            d, us = sel[i]
            want_dt = F(4903089, 2) + d + F(us, DAY_US)
            forms = {
                "datetime-scalar": lambda: Time(DT2000 + timedelta(days=d), val2=timedelta(microseconds=us), fmt="datetime", scale=scale),
                "datetime-list": lambda: Time([DT2000 + timedelta(days=d)], val2=[timedelta(microseconds=us)], fmt="datetime", scale=scale),
                "mjd-scalar": lambda: Time(float(d + 51544), val2=float(F(us, DAY_US)), fmt="mjd", scale=scale),
                "jd-scalar": lambda: Time(float(F(4903089, 2) + d), val2=float(F(us, DAY_US)), fmt="jd", scale=scale),
                "jd-list": lambda: Time([float(F(4903089, 2) + d)], val2=[float(F(us, DAY_US))], fmt="jd", scale=scale),
            }
            for name, f in forms.items():
                case = {"scale": scale, "form": name, "day": d, "us": us}
                ctx.count(f"two-part:{name}")
                try:
                    t = f()
                except Exception as e:
                    ctx.violate(f"two-part-raises:{name}", f"{type(e).__name__}: {e}", case)
                    continue
                got = frac(np.atleast_1d(np.asarray(t.jd1, dtype=float))[0]) + frac(np.atleast_1d(np.asarray(t.jd2, dtype=float))[0])
                if abs(got - want_dt) > 2 * NS:
                    ctx.violate(f"two-part-value:{name}", f"two-part {name} input is off by {float((got - want_dt) * 86400):.6g} s", case)


# -------------------------------------------------------------------------------------------------
# text formats: the whole calendar range of `datetime` (years 1..9999) and texts that were *not* rendered


def _to_jds_text(Time, fmt, scale, text):
    """Time(text, fmt=...) on the real code -> ("ok", jd1, jd2) | ("err",) | ("raise:<Type>",)"""
    try:
        t = Time(text, fmt=fmt, scale=scale)
        return ("ok", frac(float(t.jd1)), frac(float(t.jd2)))
    except ValueError:
        return ("err",)
    except Exception as e:  # anything else is not the documented refusal
        return (f"raise:{type(e).__name__}",)


def _model_to_jds_text(drv, fmt, scale, texts):
    out = []
    for a in drv.ask([f"c02 tojds {fmt} {scale} {hexs(t) if t else '.'} -" for t in texts]):
        if a == "err":
            out.append(("err",))
        else:
            m1, m2 = (F(x) for x in a.split())
            out.append(("ok", m1, m2))
    return out


def text_wide_years(ctx, Time, drv):
    """render and parse over years 1..9999: the four-digit-year patterns survive from year 1000 on (glibc prints
    `%Y` unpadded), the two-digit form inside 1969..2068 — the domains of the theorems `text_parse_render` /
    `isot_short_year`, tied to CPython here"""
    rng = ctx.rng
    years = [1, 2, 9, 10, 99, 100, 999, 1000, 1001, 1582, 1600, 1899, 1968, 1969, 1970, 2000, 2068, 2069, 2400, 9998, 9999]
    years += [rng.randint(1, 999) for _ in range(ctx.budget(6, 60))]
    years += [rng.randint(1000, 9999) for _ in range(ctx.budget(30, 500))]
    eps = []
    for y in years:
        leap = y % 4 == 0 and (y % 100 != 0 or y % 400 == 0)
        cands = [(1, 1), (12, 31), (2, 28), (3, 1), (rng.randint(1, 12), rng.randint(1, 28))] + ([(2, 29)] if leap else [])
        for (m, d) in rng.sample(cands, 3):
            us = rng.choice([0, 1, DAY_US - 1, 43200 * 10**6, 999999, 1000000, 86399 * 10**6, rng.randint(0, DAY_US - 1), rng.randint(0, DAY_US - 1)])
            if y == 9999 and (m, d) == (12, 31):
                us = min(us, DAY_US - 10**6)  # stay inside datetime's range: within 40 us of 10000-01-01 the two-part jd is stored on the next day
            eps.append((y, (datetime(y, m, d) - DT2000).days, us))
    scale = "utc"
    v1 = np.array([float(F(4903089, 2) + d) for _, d, _ in eps])
    v2 = np.array([float(F(us, DAY_US)) for _, _, us in eps])
    t0 = Time(v1, val2=v2, fmt="jd", scale=scale)
    j1 = [frac(x) for x in np.asarray(t0.jd1)]
    j2 = [frac(x) for x in np.asarray(t0.jd2)]
    for fmt in TEXT:
        try:
            v = [str(x) for x in getattr(t0, fmt)]
        except Exception as e:
            ctx.violate(f"read-raises:{fmt}", f"reading .{fmt} for years 1..9999 raised {type(e).__name__}: {e}", {"fmt": fmt})
            continue
        ans = drv.ask([f"c02 fromjds {fmt} {scale} {rs(a)} {rs(b)}" for a, b in zip(j1, j2)])
        back_m = _model_to_jds_text(drv, fmt, scale, v)
        for i, (y, d, us) in enumerate(eps):
            case = {"scale": scale, "fmt": fmt, "jd1": float(j1[i]), "jd2": float(j2[i]), "year": y}
            ctx.case([scale, fmt, d, us, "wide"], nontrivial=us % 10**6 != 0)
            if unhex(ans[i]) != v[i]:
                if near_tie(j2[i] * DAY_US):
                    ctx.count("rounding-tie-skipped")
                    continue
                ctx.disagree(f"from_jds ({fmt}), years 1..9999", case, unhex(ans[i]), v[i])
                continue
            r = _to_jds_text(Time, fmt, scale, v[i])
            m = back_m[i]
            dom = (1969 <= y <= 2068) if fmt == "yydddsssss" else (1000 <= y <= 9999)
            ctx.count(f"text-years:{fmt}:{'in-domain' if dom else ('year<1000' if y < 1000 else 'outside-pivot')}:{r[0]}")
            if r[0] != m[0] or (r[0] == "ok" and abs((r[1] + r[2]) - (m[1] + m[2])) > F(1, 10**15)):
                ctx.disagree(f"to_jds ({fmt}), years 1..9999", {**case, "text": v[i]}, [str(x) for x in m], [str(x) for x in r])
                continue
            if dom:
                # the theorem's domain: the round trip must succeed within the resolution
                if r[0] != "ok":
                    ctx.violate(f"roundtrip-refused:{fmt}", f"{fmt} text {v[i]!r} written by the library is refused by it", case)
                elif abs((r[1] + r[2]) - (j1[i] + j2[i])) > RES[fmt]:
                    ctx.violate(f"roundtrip:{fmt}", f"{fmt} round trip of {v[i]!r} is off by {float(abs((r[1] + r[2]) - (j1[i] + j2[i])) * 86400):.3e} s", case)
        ctx.traces += len(eps)


def _mutations(rng, fmt, s):
    """texts near a rendered one: other field widths, values out of range, other fractions, other separators, junk"""
    out = [("identity", s)]
    if fmt in ("isot", "iso", "yday"):
        main, _, fr = s.partition(".")
        out.append(("no-fraction", main))
        out.append(("empty-fraction", main + "."))
        k = rng.randint(1, 5)
        out.append((f"fraction-{k}-digits", main + "." + fr[:k]))
        extra = "".join(rng.choice("0123456789") for _ in range(rng.randint(1, 3)))
        if set(extra) <= {"0"} or extra[0] == "5" and set(extra[1:]) <= {"0"}:
            extra = "7" + extra[1:]  # stay away from exact rounding ties (float vs exact decimal)
        out.append(("fraction-longer", main + "." + fr + extra))
        out.append(("fraction-rounds-up", main + ".9999996"))
        out.append(("fraction-exponent", main + ".5e-1"))
        out.append(("fraction-blank-after", s + " "))
        out.append(("two-points", main + ".12.5"))
        hms = main[-8:]
        head = main[:-8]
        for name, t in (("hour-24", "24" + hms[2:]), ("minute-60", hms[:3] + "60" + hms[5:]), ("second-60", hms[:6] + "60"),
                        ("second-61", hms[:6] + "61"), ("second-62", hms[:6] + "62"), ("hour-1-digit", hms[1:] if hms[0] == "0" else "7" + hms[2:]),
                        ("second-1-digit", hms[:6] + hms[7]), ("minute-3-digits", hms[:3] + "0" + hms[3:])):
            out.append((name, head + t + "." + fr))
    if fmt in ("isot", "iso", "date"):
        ymd = s[:10]
        rest = s[10:]
        y, m, d = ymd.split("-")
        for name, t in (("month-13", f"{y}-13-{d}"), ("month-00", f"{y}-00-{d}"), ("day-32", f"{y}-{m}-32"), ("day-00", f"{y}-{m}-00"),
                        ("feb-30", f"{y}-02-30"), ("feb-29", f"{y}-02-29"), ("apr-31", f"{y}-04-31"), ("month-1-digit", f"{y}-{int(m)}-{d}"),
                        ("day-1-digit", f"{y}-{m}-{int(d)}"), ("year-5-digits", f"1{y}-{m}-{d}"), ("year-3-digits", f"{y[1:]}-{m}-{d}"),
                        ("year-0000", f"0000-{m}-{d}"), ("month-3-digits", f"{y}-0{m}-{d}"), ("slash", f"{y}/{m}/{d}")):
            out.append((name, t + rest))
        out.append(("leading-blank", " " + s))
        out.append(("junk-after", s + "x"))
    if fmt == "date":
        out.append(("date-with-fraction", s + ".5"))
        out.append(("date-trailing-blank", s + " "))
    if fmt == "isot":
        out.append(("T-to-blank", s.replace("T", " ")))
        out.append(("T-lower", s.replace("T", "t")))
    if fmt == "iso":
        out.append(("two-blanks", s.replace(" ", "  ")))
        out.append(("tab", s.replace(" ", "\t")))
        out.append(("blank-to-T", s.replace(" ", "T")))
        out.append(("no-separator", s.replace(" ", "")))
    if fmt == "yday":
        y, j, rest = s.split(":", 2)
        for name, t in (("doy-000", f"{y}:000:{rest}"), ("doy-366", f"{y}:366:{rest}"), ("doy-367", f"{y}:367:{rest}"),
                        ("doy-2-digits", f"{y}:{int(j) % 100 or 7}:{rest}"), ("doy-4-digits", f"{y}:0{j}:{rest}"),
                        ("year-2-digits", f"{y[2:]}:{j}:{rest}"), ("year-0000", f"0000:{j}:{rest}"), ("year-9999-doy-366", f"9999:366:{rest}")):
            out.append((name, t))
    if fmt in ("yydddsssss", "yyyydddsssss"):
        y, j, sec = s.split(":")
        for name, t in (("doy-000", f"{y}:000:{sec}"), ("doy-366", f"{y}:366:{sec}"), ("doy-367", f"{y}:367:{sec}"),
                        ("doy-2-digits", f"{y}:{j[1:]}:{sec}"), ("sec-empty", f"{y}:{j}:"), ("sec-1-digit", f"{y}:{j}:7"),
                        ("sec-6-digits", f"{y}:{j}:1{sec}"), ("sec-fraction", f"{y}:{j}:{sec}.{rng.randint(0, 999999):06d}"),
                        ("sec-half", f"{y}:{j}:{sec}.5"), ("sec-negative", f"{y}:{j}:-1"), ("sec-exponent", f"{y}:{j}:1e3"),
                        ("sec-blank", f"{y}:{j}: {sec}"), ("sec-junk", f"{y}:{j}:{sec}x"), ("year-other-width", f"{y[1:]}:{j}:{sec}"),
                        ("year-68", f"{y[:-2]}68:{j}:{sec}"), ("year-69", f"{y[:-2]}69:{j}:{sec}"), ("colon-missing", f"{y}:{j}{sec}")):
            out.append((name, t))
    return out


def text_mutations(ctx, Time, drv, epochs):
    """`_str2dt` / `_yds2jd` / strptime on texts that are *not* what strftime printed: the model's parser and the
    real one must accept the same texts (ValueError <-> err) and denote the same instant"""
    rng = ctx.rng
    sel = rng.sample(epochs, min(len(epochs), ctx.budget(12, 150)))
    scale = "tai"
    v1 = np.array([float(F(4903089, 2) + d) for d, _ in sel])
    v2 = np.array([float(F(us, DAY_US)) for _, us in sel])
    t0 = Time(v1, val2=v2, fmt="jd", scale=scale)
    for fmt in TEXT:
        rendered = [str(x) for x in getattr(t0, fmt)]
        names, texts = [], []
        for s in rendered:
            for name, t in _mutations(rng, fmt, s):
                names.append(name)
                texts.append(t)
        model = _model_to_jds_text(drv, fmt, scale, texts)
        for name, t, m in zip(names, texts, model):
            r = _to_jds_text(Time, fmt, scale, t)
            ctx.case([fmt, "mutation", t], nontrivial=True)
            ctx.count(f"text-mutation:{fmt}:{name}:{r[0]}")
            if r[0] != m[0] or (r[0] == "ok" and abs((r[1] + r[2]) - (m[1] + m[2])) > F(1, 10**15)):
                ctx.disagree(f"to_jds ({fmt}) on a text that was not rendered [{name}]", {"fmt": fmt, "scale": scale, "text": t},
                             [str(x) for x in m], [str(x) for x in r])
        ctx.traces += len(texts)


# -------------------------------------------------------------------------------------------------
# decimal year: the year length the code uses, the refusals; input layouts of gps_ws; leap-second texts

# IERS leap seconds (the day that ends with 23:59:60), typed from Bulletin C — independent of midgard's table
LEAP_DEC31 = [1972, 1973, 1974, 1975, 1976, 1977, 1978, 1979, 1987, 1989, 1990, 1995, 1998, 2005, 2008, 2016]
LEAP_JUN30 = [1972, 1981, 1982, 1983, 1985, 1992, 1993, 1994, 1997, 2012, 2015]


def decimalyear_extras(ctx, Time, drv):
    """`TimeDecimalYear._year2days` for every scale against the model and against the calendar (+ IERS leap seconds in
    UTC, from 1972 on); decimal years outside 1..9999 are refused; the year-end neighbourhood in leap-second years"""
    import calendar
    from midgard.data import _time as T_

    rng = ctx.rng
    if datetime.max.year != 9999 or datetime.min.year != 1:      # the constants `source_year2days` / `dyConstruct` use
        ctx.disagree("datetime.min / datetime.max", {"fmt": "decimalyear"}, [1, 9999], [datetime.min.year, datetime.max.year])
    years = sorted(set([1, 2, 3, 4, 100, 400, 1582, 1600, 1700, 1800, 1899, 1900, 9998, 9999] + list(range(1955, 2030))
                       + [rng.randint(1, 9998) for _ in range(ctx.budget(40, 1500))]))
    for scale in SCALES:
        ans = drv.ask([f"c02 year2days {scale} {y}" for y in years])
        for y, a in zip(years, ans):
            if scale == "utc" and y == 1:
                continue     # the TAI image of 0001-01-01 UTC (extrapolated 1961 drift: -15 min) precedes datetime.min: OverflowError, outside 1900..2100
            case = {"scale": scale, "fmt": "decimalyear", "year": y}
            ctx.case([scale, "year2days", y], nontrivial=(scale == "utc" and 1961 <= y <= 2017) or calendar.isleap(y))
            try:
                got = frac(float(T_.TimeDecimalYear._year2days(y, scale)))
            except Exception as e:
                ctx.violate("year2days-raises", f"_year2days({y}, {scale!r}) raised {type(e).__name__}: {e}", case)
                continue
            m = F(a)
            if abs(got - m) > F(1, 10**11):
                ctx.disagree("TimeDecimalYear._year2days", case, a, str(got))
            cal = 366 if calendar.isleap(y) else 365
            if scale != "utc" or y >= 1972 or y <= 1959:
                ls = (LEAP_DEC31.count(y) + LEAP_JUN30.count(y)) if scale == "utc" else 0
                ctx.count(f"year2days:{scale}:{'leap' if cal == 366 else 'common'}:{ls}-leap-seconds")
                if y <= 1959 and scale == "utc":
                    continue        # before the table the code extrapolates the 1961 drift; only the model is compared
                if abs(got - (cal + F(ls, 86400))) > F(1, 10**11):
                    ctx.violate(f"year-length:{scale}", f"_year2days({y}, {scale!r}) = {float(got)!r}, the year has {cal} days and {ls} leap seconds", case)
    # the domain of the constructor (model: `dyConstruct` / `dyAccepts`): years outside 1..9999 are a ValueError; the first
    # twelve hours of year 1 and, in UTC, all of year 1 an OverflowError (datetime.min on the way); everything from 2.0 up
    # to 10000.0 is accepted in every scale (`dy_accepts_range`) — same outcome in model and code at the edges
    edge = [0.5, 0.999, -3.5, 10000.0, 10000.25, 12345.5, 1.0, 1 + 0.4 / 365, 1 + 0.6 / 365, 1.5, 1.999, 2.0, 2.5, 1900.0, 2100.0,
            9998.0, 9998.9999, 9999.0, 9999.5, 9999.99999]
    for scale in SCALES:
        ans = drv.ask([f"c02 tojds decimalyear {scale} {rs(frac(v))} -" for v in edge])
        for v, a in zip(edge, ans):
            case = {"scale": scale, "fmt": "decimalyear", "value": v}
            ctx.case([scale, "decimalyear-range", v], nontrivial=True)
            try:
                t = Time(v, fmt="decimalyear", scale=scale)
                r = ("ok", frac(float(t.jd1)) + frac(float(t.jd2)))
            except ValueError:
                r = ("err",)
            except OverflowError:
                r = ("overflow",)
            except Exception as e:
                ctx.violate("decimalyear-raises", f"Time({v}, fmt='decimalyear') raised {type(e).__name__}: {e}", case)
                continue
            ctx.count(f"decimalyear-range:year-{min(max(int(v), 0), 10000) if not 3 <= int(v) <= 9997 else 'inside'}:{scale if int(v) == 1 else 'any'}:{r[0]}")
            m = (a,) if a in ("err", "overflow") else ("ok", sum(F(x) for x in a.split()))
            if m[0] != r[0] or (r[0] == "ok" and abs(m[1] - r[1]) > max(F(3, 10**10), abs(r[1]) / 2**51)):     # two ulp of the single-float jd
                ctx.disagree("decimalyear constructor: accepted / refused at the ends of the year range", case, [str(x) for x in m], [str(x) for x in r])
            if 2 <= v < 10000 and r[0] != "ok":
                ctx.violate("decimalyear-refused", f"Time({v}, fmt='decimalyear', scale={scale!r}) is refused ({r[0]})", case)
    # around the end of a year that ends in a leap second, in UTC and TAI: the round trip stays within the resolution
    for y in (1972, 2005, 2008, 2015, 2016, 2017):
        d0 = (datetime(y + 1, 1, 1) - DT2000).days
        for us in (-2 * 10**6, -10**6, -1, 0, 1, 10**6 - 1, 10**6, 2 * 10**6):
            for scale in ("utc", "tai"):
                day, u = divmod(d0 * DAY_US + us, DAY_US)
                case = {"scale": scale, "fmt": "decimalyear", "jd1": float(F(4903089, 2) + day), "jd2": float(F(u, DAY_US))}
                ctx.case([scale, "decimalyear-year-end", y, us], nontrivial=True)
                ctx.count("decimalyear-year-end")
                try:
                    t = Time(case["jd1"], val2=case["jd2"], fmt="jd", scale=scale)
                    v = float(t.decimalyear)
                    t1 = Time(v, fmt="decimalyear", scale=scale)
                except Exception as e:
                    ctx.violate("decimalyear-raises", f"{type(e).__name__}: {e}", case)
                    continue
                a = drv.ask1(f"c02 fromjds decimalyear {scale} {rs(frac(float(t.jd1)))} {rs(frac(float(t.jd2)))}")
                if abs(frac(v) - F(a)) > F(1, 10**15) * abs(F(a)) + F(1, 10**18):
                    ctx.disagree("from_jds (decimalyear) at a year end", case, a, repr(v))
                err = abs(frac(float(t1.jd1)) + frac(float(t1.jd2)) - frac(float(t.jd1)) - frac(float(t.jd2)))
                if err > RES["decimalyear"]:
                    ctx.violate("roundtrip:decimalyear", f"decimalyear round trip of a {scale} epoch {us} us from {y + 1}-01-01 is off by {float(err * 86400):.3e} s", case)
    ctx.traces += len(years) * len(SCALES)


def _outcome(t):
    """a Time as ("one", [instant]) / ("many", [instants])"""
    a1, a2 = np.asarray(t.jd1, dtype=float), np.asarray(t.jd2, dtype=float)
    if a1.shape != a2.shape or a1.ndim > 1:
        return ("shape", [str(a1.shape), str(a2.shape)])
    if a1.ndim == 0:
        return ("one", [frac(float(a1)) + frac(float(a2))])
    return ("many", [frac(x) + frac(y) for x, y in zip(a1, a2)])


def _model_outcome(a):
    if a == "err":
        return ("err", [])
    toks = a.split()
    v = [F(x) for x in toks[1:]]
    return (toks[0], [v[i] + v[i + 1] for i in range(0, len(v), 2)])


def _same_outcome(r, m, tol):
    return r[0] == m[0] and len(r[1]) == len(m[1]) and all(abs(x - y) <= tol for x, y in zip(r[1], m[1]))


def input_layouts(ctx, Time, drv, epochs):
    """the constructor's dispatch on the shape of its input, real code vs `toJdsShaped` / `wsToJdsIn`: scalar, list and
    ndarray of n = 0..5 values for every format; for gps_ws the WeekSec tuple, (n, 3) / (n, 2) arrays, one stored row,
    0-d and 3-d arrays, the two-part input of n = 1..6 (n = 3 among them) — same kind (one / many / refused), same length,
    same instants"""
    rng = ctx.rng
    sel = rng.sample(epochs, 6)
    sel = [(d, us) for d, us in sel if d > -7000] or [(0, 1)]       # after 1980-01-06
    while len(sel) < 6:
        sel.append((rng.randint(-7000, 36000), rng.randint(0, DAY_US - 1)))
    scale = "gps"
    t0 = Time(np.array([float(F(4903089, 2) + d) for d, _ in sel]), val2=np.array([float(F(us, DAY_US)) for _, us in sel]), fmt="jd", scale=scale)
    for fmt in ALL:
        v = getattr(t0, fmt)
        vals = [scalar_value(fmt, v, i) for i in range(len(sel))]
        if fmt == "gps_ws":
            toks = [f"{rs(frac(x[0]))},{rs(frac(x[1]))}" for x in vals]
        else:
            toks = [value_to_proto(fmt, x)[0] for x in vals]

        def py(x):
            return x.item() if isinstance(x, np.generic) and fmt not in TEXT else (str(x) if fmt in TEXT else x)

        forms = []
        if fmt != "gps_ws":
            forms.append(("scalar", [toks[0]], lambda: Time(py(vals[0]), fmt=fmt, scale=scale)))
            for n in (1, 2, 3, 5):
                forms.append(("list", toks[:n], lambda n=n: Time([py(x) for x in vals[:n]], fmt=fmt, scale=scale)))
                forms.append(("ndarray", toks[:n], lambda n=n: Time(np.array([py(x) for x in vals[:n]]), fmt=fmt, scale=scale)))
        else:
            forms.append(("scalar", [toks[0]], lambda: Time(float(vals[0][0]), val2=float(vals[0][1]), fmt=fmt, scale=scale)))
            for n in (1, 2, 3, 4, 6):
                forms.append(("list", toks[:n], lambda n=n: Time([float(x[0]) for x in vals[:n]], val2=[float(x[1]) for x in vals[:n]], fmt=fmt, scale=scale)))
                forms.append(("ndarray", toks[:n], lambda n=n: Time(np.array([float(x[0]) for x in vals[:n]]), val2=np.array([float(x[1]) for x in vals[:n]]), fmt=fmt, scale=scale)))
        tol = F(1, 10**15) + {"decimalyear": F(3, 10**10), "jyear": F(1, 10**11), "gps_seconds": F(1, 10**11)}.get(fmt, 0)
        for kind, tk, f in forms:
            case = {"scale": scale, "fmt": fmt, "input": kind, "n": len(tk), "values": [str(x) for x in vals[:len(tk)]]}
            ctx.case([fmt, "layout", kind, len(tk)], nontrivial=True)
            ctx.count(f"layout:{kind}:{len(tk)}")
            try:
                r = _outcome(f())
            except ValueError:
                r = ("err", [])
            except Exception as e:
                ctx.violate(f"shape-raises:{fmt}", f"{kind} input of {len(tk)} value(s) raised {type(e).__name__}: {e}", case)
                continue
            m = _model_outcome(drv.ask1(f"c02 shaped {fmt} {scale} {kind} " + " ".join(tk)))
            if not _same_outcome(r, m, tol):
                ctx.disagree(f"constructor dispatch on the input shape ({fmt})", case, [m[0]] + [str(x) for x in m[1]], [r[0]] + [str(x) for x in r[1]])
            want_kind = "one" if kind == "scalar" else "many"
            if r[0] != want_kind or len(r[1]) != len(tk):
                ctx.violate(f"length:{fmt}", f"{kind} input of {len(tk)} value(s) gave {r[0]} with {len(r[1])} epoch(s)", case)
    # --- gps_ws: every layout the constructor knows
    from midgard.data._time import TimeGPSWeekSec as G_
    wk = [float(rng.randint(0, 2500)) for _ in range(6)]
    sc = [float(rng.randint(0, 604799)) + rng.choice([0.0, 0.5, 0.25]) for _ in range(6)]
    dy = [float(int(s // 86400)) for s in sc]
    pr = [f"{rs(frac(w))},{rs(frac(s))}" for w, s in zip(wk, sc)]
    lay = []
    for n in range(0, 7):
        rows3 = np.array([[wk[i], sc[i], dy[i]] for i in range(n)]).reshape(n, 3)
        rows2 = np.array([[wk[i], sc[i]] for i in range(n)]).reshape(n, 2)
        lay.append((f"arr2 3 " + " ".join(f"{rs(frac(r[0]))},{rs(frac(r[1]))},{rs(frac(r[2]))}" for r in rows3), f"(n,3) n={n}", lambda a=rows3: Time(a, fmt="gps_ws", scale="gps")))
        lay.append((f"arr2 2 " + " ".join(f"{rs(frac(r[0]))},{rs(frac(r[1]))}" for r in rows2), f"(n,2) n={n}", lambda a=rows2: Time(a, fmt="gps_ws", scale="gps")))
        lay.append(("arr1 " + " ".join(rs(frac(x)) for x in wk[:n]), f"(n,) n={n}", lambda n=n: Time(np.array(wk[:n]), fmt="gps_ws", scale="gps")))
        if n >= 1:
            lay.append(("pair ndarray " + " ".join(pr[:n]), f"pair-ndarray n={n}", lambda n=n: Time(np.array(wk[:n]), val2=np.array(sc[:n]), fmt="gps_ws", scale="gps")))
            lay.append(("pair list " + " ".join(pr[:n]), f"pair-list n={n}", lambda n=n: Time(wk[:n], val2=sc[:n], fmt="gps_ws", scale="gps")))
            lay.append(("weeksec ndarray " + " ".join(pr[:n]), f"WeekSec-arrays n={n}",
                        lambda n=n: Time(G_.WeekSec(np.array(wk[:n]), np.array(sc[:n]), np.array(dy[:n])), fmt="gps_ws", scale="gps")))
    lay.append(("arr1 " + " ".join(rs(frac(x)) for x in (wk[0], sc[0], dy[0])), "one stored row (3,)", lambda: Time(np.array([wk[0], sc[0], dy[0]]), fmt="gps_ws", scale="gps")))
    lay.append((f"pair scalar {pr[0]}", "pair-scalar", lambda: Time(wk[0], val2=sc[0], fmt="gps_ws", scale="gps")))
    lay.append((f"weeksec scalar {pr[0]}", "WeekSec-scalars", lambda: Time(G_.WeekSec(wk[0], sc[0], dy[0]), fmt="gps_ws", scale="gps")))
    lay.append(("other", "0-d array", lambda: Time(np.array(wk[0]), fmt="gps_ws", scale="gps")))
    lay.append(("other", "3-d array", lambda: Time(np.zeros((1, 1, 3)) + 5.0, fmt="gps_ws", scale="gps")))
    for toks, name, f in lay:
        case = {"scale": "gps", "fmt": "gps_ws", "layout": name, "weeks": wk, "seconds": sc}
        ctx.case(["gps_ws", "layout", name], nontrivial=True)
        try:
            r = _outcome(f())
        except ValueError:
            r = ("err", [])
        except Exception as e:
            ctx.violate("shape-raises:gps_ws", f"gps_ws input {name} raised {type(e).__name__}: {e}", case)
            continue
        ctx.count(f"gps_ws-layout:{name.split(' n=')[0]}:{r[0]}")
        m = _model_outcome(drv.ask1("c02 wsin gps " + toks))
        if not _same_outcome(r, m, F(1, 10**15)):
            ctx.disagree("TimeGPSWeekSec._to_jds: where week and seconds are found", case, [m[0]] + [str(x) for x in m[1]], [r[0]] + [str(x) for x in r[1]])
        if name.startswith(("pair", "WeekSec", "(n,3)")) and r[0] != "err":
            n = int(name.split("n=")[1]) if "n=" in name else 1
            want = [F(4888489, 2) + 7 * frac(wk[i]) + frac(sc[i]) / 86400 for i in range(n)]
            if len(r[1]) != n or any(abs(x - y) > NS for x, y in zip(r[1], want)) or (r[0] == "one") != ("n=" not in name):
                ctx.violate("length:gps_ws" if len(r[1]) != n else "two-part:gps_ws",
                            f"gps_ws input {name}: {n} epoch(s) given, got {r[0]} with {len(r[1])} epoch(s) / other instants", case)
    ctx.traces += len(lay)


def leap_second_texts(ctx, Time, drv):
    """UTC days that end in a leap second.  What the code does (and the model says): a text with second 60 is refused by
    every text format in every scale (`datetime` has no second 60); `:sssss` = 86400 is accepted and is 00:00:00 of the
    next day; no text format ever prints a second 60 — during the leap second the UTC label of a TAI epoch is the first
    second of the next day, which is printed twice.  Real code vs model on all of these."""
    days = [(y, 12, 31) for y in LEAP_DEC31] + [(y, 6, 30) for y in LEAP_JUN30]
    days = ctx.rng.sample(days, ctx.budget(6, len(days))) + [(2016, 12, 31), (2015, 6, 30)]
    for (y, mo, d) in days:
        dt = datetime(y, mo, d)
        doy = dt.timetuple().tm_yday
        texts = {
            "isot": [f"{y:04d}-{mo:02d}-{d:02d}T23:59:60", f"{y:04d}-{mo:02d}-{d:02d}T23:59:60.5", f"{y:04d}-{mo:02d}-{d:02d}T23:59:59.999999"],
            "iso": [f"{y:04d}-{mo:02d}-{d:02d} 23:59:60", f"{y:04d}-{mo:02d}-{d:02d} 23:59:60.000001"],
            "yday": [f"{y:04d}:{doy:03d}:23:59:60", f"{y:04d}:{doy:03d}:23:59:60.25", f"{y:04d}:{doy:03d}:23:59:61"],
            "yyyydddsssss": [f"{y:04d}:{doy:03d}:86400", f"{y:04d}:{doy:03d}:86400.5", f"{y:04d}:{doy:03d}:86401", f"{y:04d}:{doy:03d}:86399"],
            "yydddsssss": [f"{y % 100:02d}:{doy:03d}:86400", f"{y % 100:02d}:{doy:03d}:86399"],
        }
        for scale in ("utc", "tai"):
            for fmt, tx in texts.items():
                model = _model_to_jds_text(drv, fmt, scale, tx)
                for t, m in zip(tx, model):
                    r = _to_jds_text(Time, fmt, scale, t)
                    ctx.case([fmt, "leap-second-text", scale, t], nontrivial=True)
                    sec60 = ":60" in t or ":61" in t
                    ctx.count(f"leap-second-text:{fmt}:{'second-60' if sec60 else 'sssss'}:{r[0]}")
                    case = {"fmt": fmt, "scale": scale, "text": t}
                    if r[0] != m[0] or (r[0] == "ok" and abs((r[1] + r[2]) - (m[1] + m[2])) > F(1, 10**15)):
                        ctx.disagree(f"to_jds ({fmt}) on a leap-second text", case, [str(x) for x in m], [str(x) for x in r])
        # the UTC label of TAI epochs around the leap second: offsets in quarter seconds from 23:59:59 UTC
        if y < 1972:
            continue
        ls = sum(1 for (yy, mm) in [(a, 12) for a in LEAP_DEC31] + [(a, 6) for a in LEAP_JUN30] if (yy, mm) < (y, mo)) + 10   # TAI-UTC before this leap second
        day = (dt - DT2000).days
        for q in range(0, 13):
            us = 86399 * 10**6 + q * 250000 + ls * 10**6          # TAI microsecond of day of (23:59:59 + q/4 s) UTC
            dd, u = divmod(day * DAY_US + us, DAY_US)
            try:
                tt = Time(float(F(4903089, 2) + dd), val2=float(F(u, DAY_US)), fmt="jd", scale="tai")
                got = {f: str(getattr(tt.utc, f)) for f in ("isot", "yyyydddsssss")}
            except Exception as e:
                ctx.violate("leap-second-label-raises", f"{type(e).__name__}: {e}", {"scale": "tai", "jd1": float(F(4903089, 2) + dd), "jd2": float(F(u, DAY_US))})
                continue
            for f, g in got.items():
                a = drv.ask1(f"c02 utctext {f} {rs(frac(float(tt.jd1)))} {rs(frac(float(tt.jd2)))}")
                mtxt = unhex(a.split()[2])
                ctx.case([f, "leap-second-label", y, mo, q], nontrivial=True)
                if q in (4, 5, 6, 7):
                    ctx.count(f"during-leap-second:{f}:{g[10:] if f == 'isot' else g[9:]}")
                if ":60" in g:
                    ctx.violate("text-prints-second-60", f"{f} printed {g!r}", {"fmt": f})
                if mtxt != g:
                    ctx.disagree(f"UTC {f} label of a TAI epoch around a leap second", {"fmt": f, "scale": "tai", "jd1": float(tt.jd1), "jd2": float(tt.jd2)}, mtxt, g)
    ctx.traces += len(days) * 13


# -------------------------------------------------------------------------------------------------
# ambient process state (TZ, locale, hash seed): the slice below is evaluated in child interpreters by harness/ambient.py


def _canon(x):
    if isinstance(x, (float, np.floating)):
        return float(x).hex()
    if isinstance(x, datetime):
        return x.isoformat()
    if isinstance(x, (tuple, list, np.ndarray)):
        return [_canon(y) for y in x]
    return str(x)


def ambient_slice(payload):
    """every format read from an epoch, and a Time constructed from every format value (scalar and list; naive
    datetimes and texts among them) — as canonical items `[[scale, what, day, us], value]`"""
    Time = _imp()
    out = []
    for scale in payload["scales"]:
        for d, us in payload["epochs"]:
            ident = [scale, d, us]
            dt = DT2000 + timedelta(days=d, microseconds=us)
            try:
                t = Time(dt, fmt="datetime", scale=scale)                 # a naive datetime is an epoch of the scale
                out.append([ident + ["Time(datetime)"], [_canon(t.jd1), _canon(t.jd2)]])
                tl = Time([dt, dt + timedelta(hours=1)], fmt="datetime", scale=scale)
                out.append([ident + ["Time([datetime, +1h])"], [_canon(tl.jd1), _canon(tl.jd2)]])
            except Exception as e:
                out.append([ident + ["Time(datetime)"], f"raise {type(e).__name__}"])
                continue
            t0 = Time(float(F(4903089, 2) + d), val2=float(F(us, DAY_US)), fmt="jd", scale=scale)
            for fmt in ALL:
                try:
                    v = getattr(t0, fmt)
                except Exception as e:
                    out.append([ident + [f".{fmt}"], f"raise {type(e).__name__}"])
                    continue
                out.append([ident + [f".{fmt}"], _canon(tuple(v) if fmt == "gps_ws" else v)])
                try:
                    if fmt == "gps_ws":
                        t1 = Time(float(v.week), val2=float(v.seconds), fmt=fmt, scale=scale)
                        t2 = Time([float(v.week)], val2=[float(v.seconds)], fmt=fmt, scale=scale)
                    else:
                        x = v.item() if isinstance(v, np.generic) and fmt not in TEXT else (str(v) if fmt in TEXT else v)
                        t1 = Time(x, fmt=fmt, scale=scale)
                        t2 = Time([x], fmt=fmt, scale=scale)
                    out.append([ident + [f"Time(.{fmt})"], [_canon(t1.jd1), _canon(t1.jd2), _canon(np.asarray(t2.jd1, dtype=float)), _canon(np.asarray(t2.jd2, dtype=float))]])
                except Exception as e:
                    out.append([ident + [f"Time(.{fmt})"], f"raise {type(e).__name__}"])
    return out


def ambient_state(ctx, epochs):
    """the results must not depend on the time zone, the locale or the hash seed of the process: every constructor and
    read-out on a few hundred epochs (daylight-saving changes of Europe, the US and the southern hemisphere among them) in
    child interpreters started with TZ / LC_ALL / PYTHONHASHSEED set, bit for bit as in the UTC child"""
    from . import ambient

    rng = ctx.rng
    D = lambda y, m, d: (datetime(y, m, d) - DT2000).days
    H = 3600 * 10**6
    dst = [(D(2021, 3, 28), 2 * H + H // 2), (D(2021, 3, 28), 1 * H + H // 2), (D(2021, 10, 31), 2 * H + H // 2), (D(2021, 10, 31), 1 * H),
           (D(2021, 3, 14), 2 * H + H // 2), (D(2021, 11, 7), 1 * H + H // 2), (D(2021, 9, 26), 3 * H + H // 4), (D(2021, 4, 4), 3 * H + H // 2),
           (D(1999, 12, 31), DAY_US - 1), (D(2000, 1, 1), 0), (D(2016, 12, 31), DAY_US - 10**6), (D(1980, 1, 6), 0), (D(1970, 1, 1), 0),
           (D(1969, 12, 31), DAY_US - 1), (D(2038, 1, 19), 3 * H + 14 * 60 * 10**6 + 8 * 10**6), (D(1900, 1, 1), 0), (D(2099, 12, 31), 23 * H)]
    eps = dst + rng.sample(epochs, min(len(epochs), ctx.budget(40, 600)))
    payload = {"scales": ["utc", "gps", "tt"] if ctx.budget(0, 1) == 0 else SCALES, "epochs": [[int(d), int(us)] for d, us in eps]}

    def describe(item, ref, val, env):
        scale, d, us, what = item
        return (f"with {' '.join(k + '=' + v for k, v in env.items())} {what} of the {scale} epoch {DT2000 + timedelta(days=d, microseconds=us)} "
                f"is {val!r}; in a UTC process it is {ref!r}")

    n = ambient.compare(ctx, "harness.c02:ambient_slice", payload, describe=describe)
    ctx.extra["ambient_items_compared"] = n
    ctx.traces += n


def replay(payload):
    print(json.dumps(payload, indent=1)[:2000])
    Time = _imp()
    c = payload.get("replay", {})
    if "env" in c and "item" in c:
        from . import ambient
        scale, d, us, what = c["item"]
        ref, err, others = ambient.run("harness.c02:ambient_slice", {"scales": [scale], "epochs": [[d, us]]}, [("replay", c["env"])])
        for (k, v), (k2, v2) in zip(ref or [], (others[0][2] or [])):
            if v != v2:
                print(f"{k}: reference {v!r}  with {c['env']}: {v2!r}")
        return 0
    if "jd1" in c and "scale" in c:
        t = Time(c["jd1"], val2=c["jd2"], fmt="jd", scale=c["scale"])
        print("jd1, jd2 =", repr(float(t.jd1)), repr(float(t.jd2)), "jd_int, jd_frac =", repr(float(t.jd_int)), repr(float(t.jd_frac)))
        f = c.get("fmt")
        if f in ALL:
            try:
                v = getattr(t, f)
                print(f"{f} =", v)
                t1 = Time(v, fmt=f, scale=c["scale"]) if f != "gps_ws" else Time(v.week, val2=v.seconds, fmt=f, scale=c["scale"])
                print("back: jd1, jd2 =", repr(float(t1.jd1)), repr(float(t1.jd2)))
            except Exception as e:
                print("raised", type(e).__name__, e)
    return 0
