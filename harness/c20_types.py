"""C20 — the numeric *type* of an argument must not matter.

Every helper of the property is called with its arguments in every numeric type a caller may legally hand in
(Python int / float / bool, lists and tuples of ints where the signature allows a list, NumPy scalars, 0-d arrays,
integer / unsigned / bool / float16 / float32 / float64 arrays, and mixtures), with values that the type holds
exactly, and the result must be the result for the float64 copy of the same values:

    helper(typed arguments)  ==  helper(float64 copies)        (up to the rounding of the arithmetic)

The tolerance is the condition-scaled float64 tolerance of the other parts of the check; an argument that is
itself a float16/float32 array (or a small-integer array that NumPy's ufuncs promote to float16/float32, as
np.cos(int8) does) is judged at the precision NumPy assigns to it, because NumPy then computes in that precision.
With equality to the float64 copy, every clause of the property that the rest of the check establishes for
float64 data (nodes, permutation, linearity, n-dim, polynomial reproduction, Pythagoras, perpendicularity, round
trips) holds for data of every type; polynomial reproduction for integer data is also stated directly, against
exact rational arithmetic.

All of this is oracle (real code only); the Lagrange/linear correspondence with the Lean model on typed arrays
is in c20.lagrange_part / scipy_part (`dtypes` of a case).
"""
from __future__ import annotations

import math
import warnings
from fractions import Fraction

import numpy as np

INT_DT = ["int8", "int16", "int32", "int64", "uint8", "uint16", "uint32", "uint64"]
ALL_DT = ["bool"] + INT_DT + ["float16", "float32", "float64"]
EPS64 = 2.0 ** -52


def dtclass(name: str) -> str:
    """stable class of a dtype for violation keys"""
    k = np.dtype(name).kind
    return {"b": "bool", "i": "int", "u": "uint"}.get(k, name)


def fitting_dtypes(a, allow=ALL_DT):
    """the dtypes among `allow` that hold every value of the float64 array `a` exactly"""
    a = np.asarray(a, dtype=float)
    out = []
    if not np.all(np.isfinite(a)):
        return ["float64"]
    for name in allow:
        if name == "float64":
            out.append(name)
            continue
        info = np.iinfo(name) if np.dtype(name).kind in "iu" else None
        if info is not None and (a.size and (a.min() < info.min or a.max() > info.max)):
            continue
        if name == "bool" and not np.all((a == 0) | (a == 1)):
            continue
        with np.errstate(all="ignore"), warnings.catch_warnings():
            warnings.simplefilter("ignore")
            b = a.astype(name)
            if np.array_equal(b.astype(float), a) and not (np.dtype(name).kind == "f" and np.any(np.signbit(b) != np.signbit(a))):
                out.append(name)
    return out


def pick_dtype(rng, a, allow=ALL_DT, keep64=0.1):
    """a random dtype that holds `a` exactly; float64 itself only with probability keep64 when another one fits"""
    fits = fitting_dtypes(a, allow)
    others = [d for d in fits if d != "float64"]
    if not others or rng.random() < keep64:
        return "float64"
    return rng.choice(others)


def cast(a, name):
    with np.errstate(all="ignore"):
        return np.asarray(a, dtype=float).astype(name)


def apply_dtypes(dts, x, y, xn):
    """the arrays of a case in the dtypes the case records (absent: float64)"""
    dts = dts or {}
    return cast(x, dts.get("x", "float64")), cast(y, dts.get("y", "float64")), cast(xn, dts.get("xn", "float64"))


def eps_of(name, via=None):
    """the rounding unit NumPy computes with for an argument of this dtype (`via`: a ufunc the helper applies first)"""
    dt = np.dtype(name)
    if via is not None:
        dt = via(np.zeros(1, dtype=dt)).dtype
    if dt.kind == "f":
        return float(np.finfo(dt).eps)
    return EPS64


def _fl(v):
    return float(v).hex()


# ---------------------------------------------------------------------------------------------
# interpolation


def gen_typed_samples(rng, kind):
    """float64 arrays (x, y, xn) whose values fit the dtypes chosen for them, + the dtypes, the tail shape and
    (lagrange) the window"""
    n = rng.randint(5, 16) if kind != "barycentric_interpolator" else rng.randint(4, 9)
    w = rng.randint(3, min(8, n))
    xt = rng.choice(INT_DT + ["float32", "float64", "float64"])
    if np.dtype(xt).kind in "iu":
        info = np.iinfo(xt)
        step_max = 4 if info.max > 200 else (3 if np.dtype(xt).kind == "u" else 2)
        steps = [rng.randint(1, step_max) for _ in range(n)]
        if kind == "barycentric_interpolator":
            steps = [2] * n
        lo = max(int(info.min), -1000)
        hi = min(int(info.max), 1000) - sum(steps)
        x0 = rng.randint(lo, max(lo, hi))
        x = np.cumsum([x0] + steps[:-1]).astype(float)
    else:
        h = 10 ** rng.uniform(-1, 2)
        x = rng.uniform(-100, 100) + np.cumsum([h * rng.uniform(0.5, 2.0) for _ in range(n)])
        if kind == "barycentric_interpolator":
            x = rng.uniform(-100, 100) + h * np.arange(n)
        x = cast(x, xt).astype(float)
    tail = rng.choice([(), (), (2,), (3,), (2, 2)])
    yt = rng.choice(["bool"] + INT_DT + INT_DT + ["float16", "float32", "float64"])
    size = int(np.prod(tail)) if tail else 1
    poly = None
    if yt == "bool":
        y = np.array([[float(rng.random() < 0.5) for _ in range(size)] for _ in range(n)])
    elif np.dtype(yt).kind in "iu":
        info = np.iinfo(yt)
        lo, hi = max(int(info.min), -10 ** 6), min(int(info.max), 10 ** 6)
        if rng.random() < 0.5 and hi >= 10 ** 6 and np.dtype(xt).kind in "iu" and kind == "lagrange":
            # integer polynomial of degree < window in (x - x[0]): reproduced exactly between the nodes
            deg = rng.randint(1, min(w - 1, 3))
            poly = [[rng.randint(-5, 5) for _ in range(deg + 1)] for _ in range(size)]
            if lo >= 0:
                poly = [[abs(c) for c in co] for co in poly]
            d = x - x[0]
            y = np.stack([sum(c * d ** j for j, c in enumerate(co)) for co in poly], axis=1)
        else:
            y = np.array([[float(rng.randint(lo, hi)) for _ in range(size)] for _ in range(n)])
    else:
        y = np.array([[rng.uniform(-1, 1) * 10 ** rng.uniform(-2, 3) for _ in range(size)] for _ in range(n)])
        y = cast(y, yt).astype(float)
    y = y.reshape((n,) + tuple(tail))
    k = rng.randint(2, 7)
    xnt = rng.choice(INT_DT + ["float16", "float32", "float64", "float64", "float64"])
    if np.dtype(xnt).kind in "iu":
        info = np.iinfo(xnt)
        lo, hi = max(math.ceil(x[0]), int(info.min)), min(math.floor(x[-1]), int(info.max))
        if lo > hi:
            xnt = "float64"
        else:
            xn = np.array([float(rng.randint(lo, hi)) for _ in range(k)])
    if np.dtype(xnt).kind == "f":
        xn = []
        for _ in range(k):
            c = rng.random()
            if c < 0.2:
                xn.append(float(x[rng.randrange(n)]))
            elif c < 0.5:
                i = rng.randrange(n - 1)
                xn.append(float((x[i] + x[i + 1]) / 2))
            else:
                xn.append(rng.uniform(float(x[0]), float(x[-1])))
        xn = cast(np.array(xn), xnt).astype(float)
        xn = xn[(xn >= x[0]) & (xn <= x[-1])]
        if len(xn) == 0:
            xn, xnt = np.array([float(x[1])]), "float64"
    for nm, arr in (("x", (x, xt)), ("y", (y, yt)), ("xn", (xn, xnt))):
        assert arr[1] in fitting_dtypes(arr[0], [arr[1], "float64"]), (nm, arr[1])
    return x, y, xn, {"x": xt, "y": yt, "xn": xnt}, tail, w, poly


def interp_types_part(ctx, H):
    rng = ctx.rng
    for ci in range(ctx.budget(40, 800)):
        for kind in H.KINDS:
            with H.guard(ctx, "types"):
                x, y, xn, dts, tail, w, poly = gen_typed_samples(rng, kind)
                kw = {"window": w} if kind == "lagrange" else {}
                shuffled = kind in H.ACCEPTS_UNSORTED and rng.random() < 0.5
                perm = np.array(rng.sample(range(len(x)), len(x))) if shuffled else np.arange(len(x))
                case = {"part": "types-interp", "kind": kind, "n": len(x), "w": w, "tail": list(tail), "dtypes": dts,
                        "perm": perm.tolist(), "x": [_fl(v) for v in x], "xn": [_fl(v) for v in xn],
                        "y": [_fl(v) for v in np.asarray(y).ravel()]}
                if poly is not None:
                    case["int_poly"] = poly
                ctx.case(case)
                for a in ("x", "y", "xn"):
                    ctx.count(f"types:interp:{a}:{dtclass(dts[a])}")
                ctx.count(f"types:interp:{kind}")
                check_interp(ctx, H, case)


def _hx(v):
    return float.fromhex(v) if isinstance(v, str) else float(v)


def check_interp(ctx, H, case):
    """interpolate(typed x, y, x_new) == interpolate(float64 copies); integer polynomials are reproduced exactly
    (case: x sorted, `perm` the order in which the samples are handed in)"""
    kind, tail, dts = case["kind"], tuple(case["tail"]), case["dtypes"]
    x = np.array([_hx(v) for v in case["x"]])
    xn = np.array([_hx(v) for v in case["xn"]])
    y = np.array([_hx(v) for v in case["y"]]).reshape((len(x),) + tail)
    perm = np.array(case.get("perm", list(range(len(x)))), dtype=int)
    kw = {"window": case["w"]} if kind == "lagrange" else {}
    poly = case.get("int_poly")
    n = len(x)
    w = kw.get("window", 4)

    def call(xx, yy, xq):
        return np.asarray(H.call_interp(kind, xx, yy, xq, **kw))

    try:
        xs, ys = x[perm], y[perm]
        ref = np.asarray(call(xs, ys, xn), dtype=float)
        W = np.asarray(call(xs, np.eye(n)[perm], xn), dtype=float)
        lam = np.abs(W).sum(axis=1)
        if kind == "barycentric_interpolator" and np.any(lam > 1e3):
            ctx.count("types:barycentric:ill-conditioned-skipped")
            return
        ymax = float(np.max(np.abs(y))) + 1e-300
        amp = 1.0 + float(np.max(np.abs(x - x.mean())) / np.min(np.diff(x)))
        amp0 = 1.0 + float(np.max(np.abs(x)) / np.min(np.diff(x)))       # a low-precision x is not centred exactly
        scale = (lam * ymax).reshape((len(xn),) + (1,) * len(tail))
        unit = 1e-12 * max(w, 4) * amp
        # midgard's own lagrange computes in float64 whatever y and x_new are (only a float32 x is scaled in float32);
        # SciPy's interpolators compute in the precision of their (floating) arguments
        low = max(eps_of(dts[a]) for a in (("x",) if kind == "lagrange" else ("x", "y", "xn")))
        if low > EPS64:
            unit = max(unit, 64 * low * max(w, 4) * amp0)
            ctx.count("types:interp:judged-at-the-precision-of-a-float16/32-argument")
        tx, ty, txn = apply_dtypes(dts, xs, ys, xn)
        got = call(tx, ty, txn)
        bad = None
        if got.shape != ref.shape:
            bad = f"result shape {got.shape} instead of {ref.shape}"
        elif got.dtype.kind != "f":
            bad = f"result of dtype {got.dtype} (values {got.ravel()[:3]}, float64 data give {ref.ravel()[:3]})"
        elif not np.all(np.abs(got.astype(float) - ref) <= unit * scale):
            bad = f"differs by {float(np.max(np.abs(got.astype(float) - ref))):.3e} (scale {ymax:.3e}) from the result for the float64 copy"
        if bad:
            # which argument is responsible: retry with one typed argument at a time
            who = []
            for a in ("y", "x", "xn"):
                if dts[a] == "float64":
                    continue
                one = {a: dts[a]}
                try:
                    g1 = call(*apply_dtypes(one, xs, ys, xn))
                    ok1 = g1.shape == ref.shape and g1.dtype.kind == "f" and np.all(np.abs(g1.astype(float) - ref) <= unit * scale)
                except Exception:  # noqa
                    ok1 = False
                if not ok1:
                    who.append(a)
            a = who[0] if who else "mixed"
            cls = dtclass(dts[a]) if a != "mixed" else "mixed"
            H.V(ctx, f"types:{kind}:{a}:{cls}",
                f"{kind} with x/y/x_new of dtype {dts['x']}/{dts['y']}/{dts['xn']}: {bad}; the data type of `{a}` "
                f"({dts.get(a, '-')}) changes the result", case)
        # integer polynomial below the window degree, integer nodes: exact values between the nodes
        if poly is not None and kind == "lagrange" and not bad:
            x0 = Fraction(x[0])
            gc = got.astype(float).reshape(len(xn), -1)
            for cdx, co in enumerate(poly):
                for a, v in enumerate(xn):
                    d = Fraction(float(v)) - x0
                    want = sum(c * d ** j for j, c in enumerate(co))
                    cs = float(sum(abs(c) * abs(d) ** j for j, c in enumerate(co))) + 1.0
                    if abs(Fraction(float(gc[a, cdx])) - want) > Fraction(unit * float(lam[a]) * max(cs, ymax)):
                        H.V(ctx, "types:lagrange:integer-polynomial",
                            f"window {w} does not reproduce the integer polynomial {co} (in x - x[0]) of degree {len(co) - 1} "
                            f"at x = {float(v)!r}: {float(gc[a, cdx])!r} instead of {float(want)!r}", case)
                        return
            ctx.count("types:lagrange:integer-polynomial-checked")
    except Exception as e:  # noqa
        H.V(ctx, f"types:{kind}:raises:{type(e).__name__}",
            f"{kind} with x/y/x_new of dtype {dts['x']}/{dts['y']}/{dts['xn']} raised {type(e).__name__}: {str(e)[:120]}", case)


DX = [("int", lambda v: int(v)), ("float", float), ("np.int64", np.int64), ("np.int32", np.int32), ("np.float32", np.float32),
      ("0-d int array", lambda v: np.array(int(v))), ("0-d float array", lambda v: np.array(float(v)))]


def derivative_types_part(ctx, H):
    """interpolate_with_derivative on integer arrays and with dx of every scalar type"""
    rng = ctx.rng
    for ci in range(ctx.budget(8, 160)):
        for kind in H.KINDS:
            with H.guard(ctx, "types"):
                n = rng.randint(6, 12) if kind != "barycentric_interpolator" else rng.randint(5, 8)
                step = rng.choice([2, 4])
                x = (rng.randint(-20, 20) + step * np.arange(n)).astype(float)
                tail = rng.choice([(), (2,)])
                y = np.array([[float(rng.randint(-500, 500)) for _ in range(2 if tail else 1)] for _ in range(n)]).reshape((n,) + tuple(tail))
                dxv = rng.choice([1, 2]) if step == 4 else 1
                xn = np.array([float(rng.randint(int(x[0]) + dxv, int(x[-1]) - dxv)) for _ in range(rng.randint(1, 4))])
                dts = {"x": pick_dtype(rng, x, INT_DT + ["float32"]), "y": pick_dtype(rng, y, INT_DT + ["float32", "float16"]),
                       "xn": pick_dtype(rng, np.concatenate([xn - dxv, xn + dxv]), ["int8", "int16", "int32", "int64", "float32"])}
                dxname, dxf = rng.choice(DX)
                kw = {"window": rng.randint(3, min(6, n))} if kind == "lagrange" else {}
                case = {"part": "types-derivative", "kind": kind, "n": n, "tail": list(tail), "dtypes": dts, "dx": dxv, "dx_type": dxname,
                        "w": kw.get("window", 0), "x": [_fl(v) for v in x], "xn": [_fl(v) for v in xn], "y": [_fl(v) for v in y.ravel()]}
                ctx.case(case)
                ctx.count("types:derivative:dx=" + dxname)
                check_derivative(ctx, H, case)


def check_derivative(ctx, H, case):
    from midgard.math import interpolation as ip

    kind, tail, dts, dxv, dxname = case["kind"], tuple(case["tail"]), case["dtypes"], case["dx"], case["dx_type"]
    dxf = dict(DX)[dxname]
    x = np.array([_hx(v) for v in case["x"]])
    xn = np.array([_hx(v) for v in case["xn"]])
    y = np.array([_hx(v) for v in case["y"]]).reshape((len(x),) + tail)
    n, step = len(x), float(np.min(np.diff(x)))
    kw = {"window": case["w"]} if kind == "lagrange" else {}
    try:
        with warnings.catch_warnings():
            warnings.simplefilter("ignore")
            r0, d0 = ip.interpolate_with_derivative(x, y, xn, kind=kind, dx=float(dxv), **kw)
            tx, ty, txn = apply_dtypes(dts, x, y, xn)
            r1, d1 = ip.interpolate_with_derivative(tx, ty, txn, kind=kind, dx=dxf(dxv), **kw)
    except Exception as e:  # noqa
        H.V(ctx, f"types:derivative:{kind}:raises:{type(e).__name__}",
            f"interpolate_with_derivative(kind={kind!r}) with dtypes {dts}, dx = {dxname} {dxv} raised {type(e).__name__}: {str(e)[:100]}", case)
        return
    scale = float(np.max(np.abs(y))) + 1.0
    amp = 1.0 + float(np.max(np.abs(x)) / step)
    low = max(eps_of(dts[a]) for a in (("x",) if kind == "lagrange" else ("x", "y", "xn")))
    tol = 1e-10 * amp * scale * max(1.0, low / EPS64) * 2 ** n
    r0, d0, r1, d1 = (np.asarray(u) for u in (r0, d0, r1, d1))
    if r1.shape != r0.shape or d1.shape != d0.shape or r1.dtype.kind != "f" or d1.dtype.kind != "f" or \
            not np.all(np.abs(r1.astype(float) - r0) <= tol) or not np.all(np.abs(d1.astype(float) - d0) <= tol / dxv):
        H.V(ctx, f"types:derivative:{kind}",
            f"interpolate_with_derivative(kind={kind!r}) with dtypes {dts} and dx = {dxname} {dxv} gives values "
            f"{r1.ravel()[:3]} / derivative {d1.ravel()[:3]}; the float64 copies give {r0.ravel()[:3]} / {d0.ravel()[:3]}", case)


# ---------------------------------------------------------------------------------------------
# angles


SCALAR_FORMS = ["python", "numpy-scalar", "0-d array", "1-d array"]


def make_scalar(v: float, name: str, form: str):
    """the number v (which dtype `name` holds exactly) in one of the forms a caller may use"""
    if form == "python":
        k = np.dtype(name).kind
        return bool(v) if k == "b" else int(v) if k in "iu" else float(v)
    if form == "numpy-scalar":
        return np.dtype(name).type(v)
    if form == "0-d array":
        return np.array(v, dtype=float).astype(name)
    return np.array([v, v], dtype=float).astype(name)


def first(u):
    a = np.asarray(u, dtype=float)
    return float(a.ravel()[0])


def dms_types_part(ctx, H):
    rng = ctx.rng
    for ci in range(ctx.budget(150, 3000)):
        with H.guard(ctx, "types"):
            name = rng.choice(INT_DT + INT_DT + ["float32"])
            form = rng.choice(SCALAR_FORMS)
            if name == "float32":
                v = float(np.float32(rng.uniform(-360, 360)))
            else:
                info = np.iinfo(name)
                v = float(rng.randint(max(-360, int(info.min)), min(360, int(info.max))))
            fn = rng.choice(["deg_to_dms", "rad_to_dms"])
            if fn == "rad_to_dms" and name != "float32":
                v = float(max(-6, min(6, v)))
            case = {"part": "types-dms", "fn": fn, "value": _fl(v), "dtype": name, "form": form}
            ctx.case(case)
            ctx.count(f"types:dms:{dtclass(name)}:{form}")
            check_dms(ctx, H, case)
    for ci in range(ctx.budget(150, 3000)):
        with H.guard(ctx, "types"):
            fn = rng.choice(["dms_to_deg", "dms_to_rad", "hms_to_rad"])
            names = [rng.choice(INT_DT + ["float64", "float32"]) for _ in range(3)]
            form = rng.choice(SCALAR_FORMS)
            # abs(int8(-128)) overflows in NumPy itself
            lo = 0 if (fn == "hms_to_rad" or np.dtype(names[0]).kind == "u") else (-127 if names[0] == "int8" else -359)
            d = float(rng.randint(lo, 127 if names[0] == "int8" else 255 if names[0] == "uint8" else 359))
            m = float(rng.randint(0, 59))
            s = float(rng.randint(0, 59)) if names[2] != "float64" or rng.random() < 0.3 else rng.uniform(0, 60)
            if names[2] == "float32":
                s = float(np.float32(rng.uniform(0, 60)))
            case = {"part": "types-dms-to", "fn": fn, "d": d, "m": m, "s": _fl(s), "dtypes": names, "form": form}
            ctx.case(case)
            for nm in names:
                ctx.count(f"types:dms_to:{dtclass(nm)}:{form}")
            check_dms_to(ctx, H, case)


def check_dms(ctx, H, case):
    from midgard.math.unit import Unit

    fn, v, name, form = case["fn"], _hx(case["value"]), case["dtype"], case["form"]
    f = getattr(Unit, fn)
    deg = abs(v) * (57.3 if fn == "rad_to_dms" else 1.0)
    tol = 1e-11 if name != "float32" else 16 * eps_of(name) * (deg + 1)      # degrees
    try:
        ref = [first(u) for u in f(v)]
        got = f(make_scalar(v, name, form))
        got_v = [first(u) for u in got]
    except Exception as e:  # noqa
        H.V(ctx, f"types:{fn}:raises:{type(e).__name__}", f"Unit.{fn}({name} {form} {v!r}) raised {type(e).__name__}: {str(e)[:100]}", case)
        return
    tot = lambda t: abs(Fraction(t[0])) + Fraction(t[1]) / 60 + Fraction(t[2]) / 3600   # noqa: E731
    sgn = lambda t: math.copysign(1.0, t[0])   # noqa: E731
    if any(np.asarray(u).dtype.kind != "f" for u in got) or abs(tot(got_v) - tot(ref)) > Fraction(tol) \
            or (v != 0 and sgn(got_v) != sgn(ref)):
        H.V(ctx, f"types:{fn}:{dtclass(name)}", f"Unit.{fn}({name} {form} {v!r}) = {got_v} but Unit.{fn}({v!r}) = {ref}", case)


def check_dms_to(ctx, H, case):
    from midgard.math.unit import Unit

    fn, d, m, s, names, form = case["fn"], float(case["d"]), float(case["m"]), _hx(case["s"]), case["dtypes"], case["form"]
    f = getattr(Unit, fn)
    low = max(eps_of(nm) for nm in names)
    tol = 1e-11 if low <= EPS64 else 64 * low * 360
    try:
        ref = first(f(d, m, s))
        got = f(*(make_scalar(v, nm, form) for v, nm in zip((d, m, s), names)))
        gv = first(got)
    except Exception as e:  # noqa
        H.V(ctx, f"types:{fn}:raises:{type(e).__name__}", f"Unit.{fn} with {names} {form} arguments {(d, m, s)} raised {type(e).__name__}: {str(e)[:100]}", case)
        return
    if np.asarray(got).dtype.kind != "f" or not abs(gv - ref) <= tol * (15 if fn == "hms_to_rad" else 1):
        cls = next((dtclass(nm) for nm in names if nm != "float64"), "float64")
        H.V(ctx, f"types:{fn}:{cls}", f"Unit.{fn} with {names} {form} arguments {(d, m, s)} = {gv!r}, with floats {ref!r}", case)


# ---------------------------------------------------------------------------------------------
# DOP


def dops_types_part(ctx, H):
    rng = ctx.rng
    for ci in range(ctx.budget(120, 2500)):
        with H.guard(ctx, "types"):
            n = rng.randint(5, 14)
            c = rng.random()
            if c < 0.6:
                # whole radians: every integer dtype holds them
                az = np.array([float(rng.randint(0, 6)) for _ in range(n)])
                el = np.array([float(rng.choice([0, 1, 1, 1])) for _ in range(n)])
                dts = {"az": rng.choice(INT_DT + ["float32", "float64"]), "el": rng.choice(["bool"] + INT_DT + ["float32", "float64"])}
            else:
                az = cast(np.array([rng.uniform(0, 2 * math.pi) for _ in range(n)]), "float32").astype(float)
                el = cast(np.array([math.radians(rng.uniform(5, 90)) for _ in range(n)]), "float32").astype(float)
                dts = {"az": rng.choice(["float32", "float64"]), "el": rng.choice(["float32", "float64"])}
            case = {"part": "types-dops", "n": n, "dtypes": dts, "az": [_fl(v) for v in az], "el": [_fl(v) for v in el]}
            ctx.case(case)
            ctx.count(f"types:dops:az:{dtclass(dts['az'])}")
            ctx.count(f"types:dops:el:{dtclass(dts['el'])}")
            check_dops(ctx, H, case)


def check_dops(ctx, H, case):
    dts = case["dtypes"]
    az = np.array([_hx(v) for v in case["az"]])
    el = np.array([_hx(v) for v in case["el"]])
    n = len(az)
    H_ = np.stack((-np.cos(el) * np.cos(az), -np.cos(el) * np.sin(az), -np.sin(el), np.ones(n)), axis=1)
    cond = float(np.linalg.cond(H_.T @ H_))
    if not cond < 1e8:
        ctx.count("types:dops:ill-conditioned-skipped")
        return
    low = max(eps_of(dts["az"], np.cos), eps_of(dts["el"], np.cos))    # np.cos(int8) is float16, np.cos(int16) float32
    tol = 256 * low * cond + 1e-12
    if tol > 0.05:
        ctx.count("types:dops:precision-of-the-dtype-too-low-to-judge")
        return
    st0, d0 = H.run_dops(az, el)
    if st0 != "ok":
        return
    st1, d1 = H.run_dops(cast(az, dts["az"]), cast(el, dts["el"]))
    if st1 != "ok" or max(abs(u1 - u0) / u0 for u0, u1 in zip(d0, d1)) > tol:
        cls = next((dtclass(dts[a]) for a in ("az", "el") if dts[a] != "float64"), "float64")
        H.V(ctx, f"types:compute_dops:{cls}", f"compute_dops with az/el of dtype {dts['az']}/{dts['el']}: {st1} {d1}; "
            f"the float64 copies give {d0} (cond(HtH) = {cond:.3g})", case)


# ---------------------------------------------------------------------------------------------
# plate motion


def seq_form(v, name, form):
    """a 3-vector in one of the forms a caller may use"""
    k = np.dtype(name).kind
    py = [int(u) if k in "iu" else float(u) for u in v]
    return py if form == "list" else tuple(py) if form == "tuple" else cast(np.array(v), name)


def plate_types_part(ctx, H, info):
    rng = ctx.rng
    poles = info["poles"]
    for ci in range(ctx.budget(120, 2500)):
        with H.guard(ctx, "types"):
            mname, plate = rng.choice(poles)[:2]
            name = rng.choice(["int32", "int64", "int64", "float32", "float64"])
            fn = rng.choice(["get_velocity", "get_velocity", "to_cartesian", "to_spherical"])
            if fn == "get_velocity":
                v = [float(rng.randint(-7000000, 7000000)) for _ in range(3)]
            elif fn == "to_cartesian":
                v = [float(rng.randint(-90, 90)), float(rng.randint(-180, 180)), float(rng.randint(1, 3))]
            else:
                v = [float(rng.randint(-1000, 1000)) for _ in range(3)]
                if v[0] == 0 and v[1] == 0:
                    v[0] = 1.0
            form = rng.choice(["list", "tuple", "array", "array"])
            case = {"part": "types-plate", "fn": fn, "model": mname, "plate": plate, "v": v, "dtype": name, "form": form}
            ctx.case(case)
            ctx.count(f"types:plate:{fn}:{form}:{dtclass(name) if form == 'array' else ('int' if np.dtype(name).kind in 'iu' else 'float')}")
            check_plate(ctx, H, case)


def check_plate(ctx, H, case):
    from midgard.math.plate_motion import PlateMotion

    fn, v, name, form = case["fn"], [float(u) for u in case["v"]], case["dtype"], case["form"]
    pm = PlateMotion(plate=case["plate"], model=case["model"])
    scale = {"get_velocity": 7e6 * 1e-7, "to_cartesian": 3 * 3600.0, "to_spherical": 360.0}[fn]
    f = getattr(pm, fn)
    try:
        ref = np.asarray(f(np.array(v, dtype=float)), dtype=float)
        got = np.asarray(f(seq_form(v, name, form)))
    except Exception as e:  # noqa
        H.V(ctx, f"types:{fn}:raises:{type(e).__name__}", f"PlateMotion.{fn}({form} of {name} {v}) raised {type(e).__name__}: {str(e)[:100]}", case)
        return
    low = eps_of(name) if (form == "array" and fn != "get_velocity") else EPS64     # np.float32 scalar * Python float is float32
    tol = 1e-12 * scale if low <= EPS64 else 64 * low * scale
    if got.shape != ref.shape or got.dtype.kind != "f" or not np.all(np.abs(got.astype(float) - ref) <= tol):
        H.V(ctx, f"types:{fn}:{form}:{dtclass(name)}", f"PlateMotion.{fn}({form} of {name} {v}) = {got.tolist()}, "
            f"with a float64 array {ref.tolist()}", case)


# ---------------------------------------------------------------------------------------------
# regression


def linreg_types_part(ctx, H):
    rng = ctx.rng
    for ci in range(ctx.budget(60, 1200)):
        with H.guard(ctx, "types"):
            n = rng.randint(4, 20)
            x = np.array(sorted(rng.sample(range(-100, 100), n)), dtype=float)
            a, b = rng.randint(-50, 50), rng.randint(-5, 5)
            y = a + b * x + np.array([float(rng.randint(-8, 8)) for _ in range(n)])
            reject = rng.random() < 0.4
            kw = dict(reject_outlier=True, outlier_limit_factor=rng.choice([1.5, 2.0, 3.0]), outlier_iteration=rng.randint(1, 2)) if reject else {}
            if reject and H.borderline(x, y, kw["outlier_limit_factor"], kw["outlier_iteration"]):
                continue
            forms, dts = {}, {}
            for nm, arr in (("x", x), ("y", y)):
                dts[nm] = pick_dtype(rng, arr, ["int8", "int16", "int32", "int64", "float32", "float64"], keep64=0.15)
                forms[nm] = rng.choice(["array", "array", "list"])
            case = {"part": "types-linreg", "n": n, "dtypes": dts, "forms": forms, "kw": kw, "x": x.tolist(), "y": y.tolist()}
            ctx.case(case)
            for nm in ("x", "y"):
                ctx.count(f"types:linreg:{nm}:{forms[nm]}:{dtclass(dts[nm])}")
            check_linreg(ctx, H, case)


def check_linreg(ctx, H, case):
    from midgard.math.linear_regression import LinearRegression

    dts, forms, kw = case["dtypes"], case["forms"], case["kw"]
    x, y = np.array(case["x"], dtype=float), np.array(case["y"], dtype=float)
    args = []
    for nm, arr in (("x", x), ("y", y)):
        t = cast(arr, dts[nm])
        args.append(t.tolist() if forms[nm] == "list" else t)
    try:
        l0 = LinearRegression(x.copy(), y.copy(), **kw)
        ref = (float(l0.interception), float(l0.slope), np.asarray(l0.x, dtype=float), np.asarray(l0.residuals, dtype=float))
    except Exception:  # noqa
        ctx.count("types:linreg:reference-raises(skipped)")
        return
    try:
        l1 = LinearRegression(*args, **kw)
        got = (float(l1.interception), float(l1.slope), np.asarray(l1.x, dtype=float), np.asarray(l1.residuals, dtype=float))
    except Exception as e:  # noqa
        H.V(ctx, f"types:linreg:raises:{type(e).__name__}", f"LinearRegression with x/y as {forms} of {dts} raised {type(e).__name__}: {str(e)[:100]}", case)
        return
    ys = float(np.max(np.abs(y))) + 1.0
    low = max(eps_of(dts["x"]), eps_of(dts["y"]))
    tol = (1e-9 if low <= EPS64 else 1e4 * low) * ys * 100
    if not np.array_equal(got[2], ref[2]) or abs(got[0] - ref[0]) > tol or abs(got[1] - ref[1]) > tol or \
            got[3].shape != ref[3].shape or not np.all(np.abs(got[3] - ref[3]) <= tol):
        cls = next((dtclass(dts[a]) for a in ("x", "y") if dts[a] != "float64"), "float64")
        H.V(ctx, f"types:linreg:{cls}", f"LinearRegression with x/y as {forms} of {dts}: intercept/slope {got[0]!r}/{got[1]!r}, "
            f"{len(got[2])} samples kept; the float64 copies give {ref[0]!r}/{ref[1]!r}, {len(ref[2])} kept", case)


def types_part(ctx, H, info):
    interp_types_part(ctx, H)
    derivative_types_part(ctx, H)
    dms_types_part(ctx, H)
    dops_types_part(ctx, H)
    plate_types_part(ctx, H, info)
    linreg_types_part(ctx, H)


CHECKS = {"types-interp": check_interp, "types-derivative": check_derivative, "types-dms": check_dms, "types-dms-to": check_dms_to,
          "types-dops": check_dops, "types-plate": check_plate, "types-linreg": check_linreg}


def replay_case(ctx, H, case) -> bool:
    """re-run the type-invariance oracle on a stored case; True when it fails"""
    CHECKS[case["part"]](ctx, H, case)
    for v in ctx.violations:
        print("  oracle:", v.key, "|", v.what)
    return bool(ctx.violations)
