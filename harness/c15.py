"""C15 — ANTEX antenna files are parsed into exactly the calibrations they contain.

translate:   translator/extract_antex.py  (every `fields` table of AntexParser.setup_parser()
             -> lean/Midgard/Generated/AntexCols.lean)
prove:       lean/Midgard/Props/C15.lean  (generated columns = ANTEX 1.4 columns, per-record round trip,
             cache invariant `freq_isolated`, mm->m, grids, validity dates; file level: `file_roundtrip`
             parseText (render F) = calibrations F for every well-formed abstract file F of Spec/AntexFile.lean)
correspond:  random antenna models -> independent Python writer -> text; the same model as the abstract file F
             goes to the driver: `render F` (the theorem's renderer) must be that text byte for byte, `F.wf` must
             hold and the instance of file_roundtrip must evaluate to true; the real AntexParser and the Lean model
             of the ChainParser/AntexParser state machine parse that text; canonicalised outputs are compared
             (numbers as exact rationals of the parsed doubles)
oracle:      the real parser's as_dict()/meta compared directly with the generating model (no Lean)
"""
from __future__ import annotations

import datetime as _dt
import math
import os
import shutil
import tempfile
from fractions import Fraction
from typing import Any, Dict, List, Optional, Tuple

import numpy as np

from . import common
from . import c15_lines
from .common import Ctx, frac, hexs, rs, unhex

EPOCH = _dt.datetime(1, 1, 1)
US = _dt.timedelta(microseconds=1)


def micros(dt: _dt.datetime) -> int:
    return (dt - EPOCH) // US


# ------------------------------------------------------------------------------------------------
# generator: a model of an ANTEX file (all numbers kept as the decimal *texts* that are printed)

RCV_TYPES = ["AERAT1675_120", "AOAD/M_T", "ASH701945C_M", "JAVRINGANT_DM", "LEIAR25.R4", "TRM57971.00",
             "TPSCR.G3", "SEPCHOKE_B3E6", "3S-02-TSADM", "JAV_GRANT-G3T", "NOV750.R4", "TWIVC6050"]
RADOMES = ["NONE", "SPKE", "SCIS", "SCIT", "LEIT", "TZGD", "SNOW", "JVDM"]
SAT_TYPES = ["BLOCK IIA", "BLOCK IIR-M", "BLOCK IIF", "BLOCK IIIA", "GLONASS-M", "GLONASS-K1", "GALILEO-1",
             "GALILEO-2", "BEIDOU-2G", "BEIDOU-3M-CAST", "QZSS-2I", "IRNSS-1IGSO"]
SYS_FREQS = {"G": ["G01", "G02", "G05"], "R": ["R01", "R02", "R03"], "E": ["E01", "E05", "E07", "E08", "E06"],
             "C": ["C02", "C07", "C06", "C01"], "J": ["J01", "J02", "J05", "J06"], "I": ["I05", "I09"],
             "S": ["S01", "S05"]}
DAZIS = ["0.0", "5.0", "10.0", "30.0", "90.0", "45.0", "15.0", "60.0", "120.0", "180.0", "2.5"]
DZENS = ["0.5", "1.0", "2.0", "2.5", "5.0", "10.0", "0.25", "4.0", "15.0"]
# a decimal step that is not a dyadic rational (the grid is computed with np.arange in doubles)
DZENS_DECIMAL = ["0.1", "0.2", "0.3", "0.7", "1.1", "0.4", "0.6", "0.9"]
COMMENT_CHARS = "ABCDEFGHIJKLMNOPQRSTUVWXYZabcdefghijklmnopqrstuvwxyz0123456789 #*-+./:(),=!_"


def dec_text(rng, lo: float, hi: float, places: int, plus: bool = False) -> str:
    scale = 10 ** places
    n = rng.randint(int(lo * scale), int(hi * scale))
    s = "-" if n < 0 else ("+" if plus else "")
    n = abs(n)
    return f"{s}{n // scale}.{n % scale:0{places}d}"


def gen_value(rng, plus: bool) -> str:
    """a PCV value in mm, F8.2, always leaving one blank in its 8 columns (rows are whitespace separated)"""
    v = _gen_value(rng, plus)
    return v.lstrip("+") if len(v) > 7 else v


def _gen_value(rng, plus: bool) -> str:
    k = rng.random()
    if k < 0.08:
        return ("+" if plus else "") + "0.00"
    if k < 0.12:
        return "-0.00"
    if k < 0.2:
        return rng.choice(["-999.99", "9999.99", "-100.00", "999.99", "-0.01", "0.01"])
    if k < 0.3:
        return dec_text(rng, -999.99, 9999.99, 2, plus)
    return dec_text(rng, -30, 30, 2, plus)


SPECIALS: Dict[str, int] = {}  # histogram of the special characters put into free-text cells (reset per run)


def special(rng, s: str, width: int, where: str, p: float = 0.15) -> str:
    """with probability p: one character at which str.splitlines() cuts but text-mode file iteration does not (FF, VT,
    FS/GS/RS, NEL, U+2028/9; also US) inside the text"""
    if rng.random() >= p:
        return s
    t, c = c15_lines.inject(rng, s, width)
    if c is not None:
        key = f"free text with {c15_lines.name(c)} in {where}"
        SPECIALS[key] = SPECIALS.get(key, 0) + 1
    return t


def gen_comment(rng, where: str = "comment") -> str:
    n = rng.randint(0, 60)
    s = "".join(rng.choice(COMMENT_CHARS) for _ in range(n))
    if rng.random() < 0.3:
        s = " " * rng.randint(1, 5) + s
    return special(rng, s[:60], 60, where)


def gen_seconds(rng) -> str:
    k = rng.random()
    if k < 0.3:
        return "0.0000000"
    if k < 0.6:
        return "59.9999999"
    if k < 0.7:
        return rng.choice(["59.9999995", "0.0000005", "0.0000015", "30.5000000", "59.9999994", "0.0000004", "59.0000000"])
    return f"{rng.randint(0, 59)}.{rng.randint(0, 9999999):07d}"


def gen_date(rng, lo_year=1980, hi_year=2040):
    y = rng.randint(lo_year, hi_year)
    m = rng.randint(1, 12)
    d = rng.randint(1, [31, 29 if (y % 4 == 0 and (y % 100 != 0 or y % 400 == 0)) else 28, 31, 30, 31, 30, 31, 31, 30, 31, 30, 31][m - 1])
    k = rng.random()
    if k < 0.4:
        h, mi = 0, 0
    elif k < 0.7:
        h, mi = 23, 59
    else:
        h, mi = rng.randint(0, 23), rng.randint(0, 59)
    # last day of month/year with 23:59:59.9999999 exercises every carry
    if rng.random() < 0.15:
        m, d, h, mi = 12, 31, 23, 59
    return [y, m, d, h, mi, gen_seconds(rng)]


def gen_antenna(rng, kind: str, used: Dict[str, Any], thorough: bool, decimal_grid: bool) -> Dict[str, Any]:
    a: Dict[str, Any] = {"kind": kind}
    plus = rng.random() < 0.4
    if kind == "rcv":
        while True:
            t = rng.choice(RCV_TYPES)
            if rng.random() < 0.3:
                t = "".join(rng.choice("ABCDEFGHIJKLMNOPQRSTUVWXYZ0123456789._-/") for _ in range(rng.randint(1, 15)))
            name = f"{t:<16}{rng.choice(RADOMES)}" if rng.random() < 0.85 else t
            if name.strip() not in used["rcv"]:
                break
        used["rcv"].add(name.strip())
        a["type"] = name.strip()
        a["code"] = rng.choice(["", "", "", "CR620012101", "1234", "A-7"])  # serial number (individual calibration)
        a["sat_code"] = ""
        a["cospar"] = ""
        systems = rng.sample(sorted(SYS_FREQS), rng.randint(1, 3))
    else:
        sysid = rng.choice(sorted(SYS_FREQS))
        if used["prns"] and rng.random() < 0.5:
            prn = rng.choice(sorted(used["prns"]))  # a further validity period of a PRN already in the file
            sysid = prn[0]
        else:
            prn = f"{sysid}{rng.randint(1, 36):02d}"
        used["prns"].add(prn)
        a["type"] = rng.choice(SAT_TYPES)
        a["code"] = prn
        a["sat_code"] = f"{sysid}{rng.randint(1, 999):03d}"
        a["cospar"] = f"{rng.randint(1978, 2030)}-{rng.randint(1, 120):03d}{rng.choice('ABCDEF')}"
        systems = [sysid]
    a["meth"] = None
    if rng.random() < 0.8:
        a["meth"] = [special(rng, rng.choice(["ROBOT", "FIELD", "CHAMBER", "COPIED", "CONVERTED", ""]), 20, "METH"),
                     special(rng, rng.choice(["Geo++ GmbH", "IGS", "TUM", ""]), 20, "METH"),
                     str(rng.randint(0, 99)), rng.choice(["29-JAN-17", "04-AUG-14", "16-DEC-20"])]
    # grids
    if kind == "sat":
        dazi = rng.choice(["0.0"] * 4 + DAZIS)
    else:
        dazi = rng.choice(DAZIS[:5] * 2 + DAZIS)
    if not thorough and Fraction(dazi) != 0 and Fraction(360) / Fraction(dazi) > 40:
        dazi = rng.choice(["30.0", "90.0", "45.0"])
    a["dazi"] = dazi
    dz = rng.choice(DZENS_DECIMAL if decimal_grid else DZENS)
    nzen = rng.randint(1, 19 if kind == "rcv" else 18)
    z1 = rng.choice(["0.0"] * 3 + ["0.5", "1.0", "5.0", "10.0", "2.5"])
    if decimal_grid and rng.random() < 0.5:
        z1 = rng.choice(["0.1", "0.3", "1.7"])
    z2q = Fraction(z1) + (nzen - 1) * Fraction(dz)
    a["zen1"], a["dzen"] = z1, dz
    a["zen2"] = f"{float(z2q):.1f}" if z2q * 10 == int(z2q * 10) else None
    if a["zen2"] is None:  # step has more than one decimal (0.25): keep the printed grid on one decimal
        a["dzen"] = dz = "0.5"
        z2q = Fraction(z1) + (nzen - 1) * Fraction(dz)
        a["zen2"] = f"{float(z2q):.1f}"
    a["nzen"] = nzen
    a["nazi"] = 0 if Fraction(dazi) == 0 else int(Fraction(360) / Fraction(dazi)) + 1
    # validity
    a["valid_from"] = None
    a["valid_until"] = None
    if kind == "sat":
        while True:
            vf = gen_date(rng)
            key = (a["code"], expected_datetime(vf))
            if key not in used["periods"]:
                break
        used["periods"].add(key)
        a["valid_from"] = vf
        if rng.random() < 0.7:
            a["valid_until"] = gen_date(rng)
    else:
        if rng.random() < 0.15:
            a["valid_from"] = gen_date(rng)
        if rng.random() < 0.15:
            a["valid_until"] = gen_date(rng)
    a["sinex"] = rng.choice([None, "IGS14_2000", "IGS20_2247"])
    if a["sinex"]:
        a["sinex"] = special(rng, a["sinex"], 10, "SINEX CODE")
    # frequencies
    pool = [f for s in systems for f in SYS_FREQS[s]]
    nf = min(len(pool), rng.randint(1, 5))
    codes = rng.sample(pool, nf)
    a["freqs"] = []
    for c in codes:
        f = {"code": c,
             "neu": [dec_text(rng, -3000, 3000, 2, plus) if kind == "sat" and rng.random() < 0.5 else dec_text(rng, -200, 200, 2, plus) for _ in range(3)],
             "noazi": [gen_value(rng, plus) for _ in range(nzen)],
             "azi": [[gen_value(rng, plus) for _ in range(nzen)] for _ in range(a["nazi"])]}
        if rng.random() < 0.1:
            f["neu"][rng.randint(0, 2)] = rng.choice(["0.00", "-99999.99", "999999.99", "-0.00"])
        a["freqs"].append(f)
    # optional START OF FREQ RMS ... END OF FREQ RMS sections (same row layout as a frequency section; their numbers
    # belong to no frequency's calibration).  Layouts: "interleaved" = every rms section directly after its frequency
    # section (frequency / rms / frequency / rms, individually calibrated antennas), "after" = all rms sections after the
    # last frequency section.  Not every frequency need have one.
    a["rms"] = []
    a["rms_layout"] = None
    k = rng.random()
    if k < 0.4:
        a["rms_layout"] = "interleaved" if k < 0.28 else "after"
        some = rng.random() < 0.3
        for f in a["freqs"]:
            if some and rng.random() < 0.4:
                continue
            a["rms"].append({"code": f["code"], "neu": [dec_text(rng, 0, 5, 2) for _ in range(3)],
                             "noazi": [dec_text(rng, 0, 3, 2) for _ in range(nzen)],
                             "azi": [[dec_text(rng, 0, 3, 2) for _ in range(nzen)] for _ in range(a["nazi"])]})
    # comments: (position index among the antenna's records, text); blank lines likewise
    a["comments"] = []
    if rng.random() < 0.5:
        for _ in range(rng.randint(1, 4)):
            a["comments"].append([rng.random(), gen_comment(rng, "antenna-section comment")])
    a["blank_lines"] = [rng.random() for _ in range(rng.randint(1, 2))] if rng.random() < 0.1 else []
    return a


def gen_file(rng, thorough: bool, decimal_grid: bool = False) -> Dict[str, Any]:
    m: Dict[str, Any] = {}
    m["version"] = rng.choice(["1.4", "1.4", "1.3"])
    m["sat_sys"] = rng.choice(["M", "G", "R", "E", "C", "J", "S"])
    m["pcv_type"] = rng.choice(["A", "R"])
    m["ref_antenna"] = "" if m["pcv_type"] == "A" else rng.choice(["AOAD/M_T        NONE", "AOAD/M_T"])
    m["ref_serial_num"] = "" if m["pcv_type"] == "A" or rng.random() < 0.5 else "CR1234"
    m["comments"] = [gen_comment(rng, "header comment") for _ in range(rng.randint(0, 4))]
    m["comment_first"] = rng.random() < 0.2  # comments may precede the PCV TYPE record
    used = {"rcv": set(), "prns": set(), "periods": set()}
    n = rng.randint(1, 6)
    m["antennas"] = [gen_antenna(rng, rng.choice(["rcv", "sat"]), used, thorough, decimal_grid) for _ in range(n)]
    m["between"] = [[rng.randint(0, n), gen_comment(rng, "comment between antennas")] for _ in range(rng.randint(0, 2))] if rng.random() < 0.2 else []
    return m


# ------------------------------------------------------------------------------------------------
# the model as a list of typed records (fed to the Lean spec renderer) ...

def antenna_records(a) -> List[Tuple[str, List[str]]]:
    recs: List[Tuple[str, List[str]]] = [("SOA", [])]
    recs.append(("TYP", [a["type"], a["code"], a["sat_code"], a["cospar"]]))
    if a["meth"]:
        recs.append(("METH", list(a["meth"])))
    recs.append(("DAZI", [a["dazi"]]))
    recs.append(("ZEN", [a["zen1"], a["zen2"], a["dzen"]]))
    recs.append(("NFREQ", [str(len(a["freqs"]))]))
    if a["valid_from"]:
        recs.append(("VFROM", [str(x) for x in a["valid_from"]]))
    if a["valid_until"]:
        recs.append(("VUNTIL", [str(x) for x in a["valid_until"]]))
    if a["sinex"]:
        recs.append(("SINEX", [a["sinex"]]))
    for f in a["freqs"]:
        recs.append(("SOF", [f["code"]]))
        recs.append(("NEU", list(f["neu"])))
        recs.append(("NOAZI", list(f["noazi"])))
        for i, row in enumerate(f["azi"]):
            recs.append(("AZI", [azi_label(a, i)] + list(row)))
        recs.append(("EOF", [f["code"]]))
        if a.get("rms_layout") == "interleaved":
            for r in a["rms"]:
                if r["code"] == f["code"]:
                    recs += rms_records(a, r)
    if a.get("rms_layout") != "interleaved":
        for r in a["rms"]:
            recs += rms_records(a, r)
    # comments / blank lines at pseudo-random positions strictly inside the section
    extra = [(p, ("COM", [t])) for p, t in a["comments"]] + [(p, ("BLANK", [])) for p in a["blank_lines"]]
    for p, r in sorted(extra, key=lambda x: x[0]):
        idx = 1 + int(p * (len(recs) - 1))
        recs.insert(idx, r)
    recs.append(("EOA", []))
    return recs


def rms_records(a, r) -> List[Tuple[str, List[str]]]:
    recs: List[Tuple[str, List[str]]] = [("SOR", [r["code"]]), ("NEU", list(r["neu"])), ("NOAZI", list(r["noazi"]))]
    for i, row in enumerate(r["azi"]):
        recs.append(("AZI", [azi_label(a, i)] + list(row)))
    recs.append(("EOR", [r["code"]]))
    return recs


def azi_label(a, i: int) -> str:
    q = Fraction(a["dazi"]) * i
    return f"{float(q):.1f}"


def file_records(m) -> List[Tuple[str, List[str]]]:
    recs: List[Tuple[str, List[str]]] = [("VER", [m["version"], m["sat_sys"]])]
    coms = [("COM", [c]) for c in m["comments"]]
    if m["comment_first"]:
        recs += coms
    recs.append(("PCV", [m["pcv_type"], m["ref_antenna"], m["ref_serial_num"]]))
    if not m["comment_first"]:
        recs += coms
    recs.append(("EOH", []))
    for i, a in enumerate(m["antennas"]):
        for pos, t in m["between"]:
            if pos == i:
                recs.append(("COM", [t]))
        recs += antenna_records(a)
    for pos, t in m["between"]:
        if pos == len(m["antennas"]):
            recs.append(("COM", [t]))
    return recs


def records_line(recs) -> str:
    """protocol form of a record list: KIND:hex,hex,..."""
    return " ".join(k + ":" + ",".join(hexs(c) for c in cells) if cells else k + ":" for k, cells in recs)


# ... the same model as the abstract file `FileM` of lean/Midgard/Spec/AntexFile.lean (the file the theorem
# `file_roundtrip` is about): header, antennas with their frequency / rms sections, and the unread lines (COMMENT,
# METH, SINEX CODE, blank) as the `deco` lists in front of the records

INERT_KINDS = {"COM": "c", "METH": "m", "SINEX": "s", "BLANK": "b"}


def wire_inert(kind: str, cells: List[str]) -> List[str]:
    return [INERT_KINDS[kind]] + [hexs(c) for c in cells]


def wire_sec(a, sec) -> List[str]:
    out = [hexs(x) for x in sec["neu"]] + [str(len(sec["noazi"]))] + [hexs(x) for x in sec["noazi"]] + [str(len(sec["azi"]))]
    for i, row in enumerate(sec["azi"]):
        out += [hexs(azi_label(a, i)), str(len(row))] + [hexs(x) for x in row]
    return out


def wire_date(v) -> List[str]:
    return ["-"] if not v else ["d"] + [hexs(str(x)) for x in v]


def wire_antenna(a, before: List[str]) -> List[str]:
    out = [hexs(a["type"]), hexs(a["code"]), hexs(a["sat_code"]), hexs(a["cospar"]), hexs(a["dazi"]), hexs(a["zen1"]), hexs(a["zen2"]),
           hexs(a["dzen"]), hexs(str(len(a["freqs"])))] + wire_date(a["valid_from"]) + wire_date(a["valid_until"])
    inter = a.get("rms_layout") == "interleaved"
    out.append(str(len(a["freqs"])))
    for f in a["freqs"]:
        out += [hexs(f["code"])] + wire_sec(a, f)
        r = next((r for r in a["rms"] if r["code"] == f["code"]), None) if inter else None
        out += ["r"] + wire_sec(a, r) if r else ["-"]
    after = [] if inter else a["rms"]
    out.append(str(len(after)))
    for r in after:
        out += [hexs(r["code"])] + wire_sec(a, r)
    # unread lines: in front of the i-th record of the section
    deco: List[List[List[str]]] = []
    pending: List[List[str]] = [["c", hexs(t)] for t in before]
    for kind, cells in antenna_records(a):
        if kind in INERT_KINDS:
            pending.append(wire_inert(kind, cells))
        else:
            deco.append(pending)
            pending = []
    out.append(str(len(deco)))
    for d in deco:
        out.append(str(len(d)))
        for i in d:
            out += i
    return out


def wire_file(m) -> str:
    c1 = m["comments"] if m["comment_first"] else []
    c2 = [] if m["comment_first"] else m["comments"]
    out = [hexs(m["version"]), hexs(m["sat_sys"]), hexs(m["pcv_type"]), hexs(m["ref_antenna"]), hexs(m["ref_serial_num"])]
    out += [str(len(c1))] + [hexs(c) for c in c1] + [str(len(c2))] + [hexs(c) for c in c2]
    n = len(m["antennas"])
    out.append(str(n))
    for i, a in enumerate(m["antennas"]):
        out += wire_antenna(a, [t for pos, t in m["between"] if pos == i])
    tr = [t for pos, t in m["between"] if pos == n]
    out.append(str(len(tr)))
    for t in tr:
        out += ["c", hexs(t)]
    return " ".join(out)


def model_file(ctx: Ctx, drv, m, text: str, case) -> Optional[str]:
    """the abstract file through `render F` / `parseText` / `calibrations F` in the driver (the functions the theorem
    `file_roundtrip` is about); returns the model's parse of the rendered text (None when the driver refused)"""
    ans = drv.ask1("c15 model " + wire_file(m))
    if ans == "bad-op":
        ctx.disagree("abstract file not accepted by the driver", case, ans, "")
        return None
    head, _, parse = ans.partition(" ;; ")
    f = dict(t.split("=", 1) for t in head.split())
    if f.get("wf") != "1":
        ctx.disagree("generated file does not satisfy the theorem's well-formedness predicate (generator outside FileM.wf)", case, "wf=0", "")
    elif f.get("thm") != "1":
        ctx.disagree("file_roundtrip instance: compiled parseText (render F) differs from calibrations F", case, "thm=0", "")
    lean_text = unhex(f.get("text", "."))
    if lean_text != text:
        got, want = lean_text.split("\n"), text.split("\n")
        bad = next((k for k, (x, y) in enumerate(zip(got, want)) if x != y), -1)
        ctx.disagree("render F (Lean, the theorem's renderer) = independent writer (Python), byte for byte", {**case, "line": bad},
                     got[bad] if bad >= 0 else f"{len(lean_text)} characters", want[bad] if bad >= 0 else f"{len(text)} characters")
        return None
    return parse


# ... and the independent writer (ANTEX 1.4 formats as Fortran edit descriptors -> % formats)

def write_record(kind: str, c: List[str]) -> str:
    def lab(body: str, label: str) -> str:
        return f"{body:<60.60}{label}"

    if kind == "VER":  # F8.1,12X,A1,39X
        return lab(f"{c[0]:>8}{'':12}{c[1]:1}", "ANTEX VERSION / SYST")
    if kind == "PCV":  # A1,19X,A20,A20
        return lab(f"{c[0]:1}{'':19}{c[1]:<20}{c[2]:<20}", "PCV TYPE / REFANT")
    if kind == "COM":
        return lab(c[0], "COMMENT")
    if kind == "EOH":
        return lab("", "END OF HEADER")
    if kind == "SOA":
        return lab("", "START OF ANTENNA")
    if kind == "EOA":
        return lab("", "END OF ANTENNA")
    if kind == "TYP":  # A20,A20,A10,A10
        return lab(f"{c[0]:<20}{c[1]:<20}{c[2]:<10}{c[3]:<10}", "TYPE / SERIAL NO")
    if kind == "METH":  # A20,A20,I6,4X,A10
        return lab(f"{c[0]:<20}{c[1]:<20}{c[2]:>6}{'':4}{c[3]:<10}", "METH / BY / # / DATE")
    if kind == "DAZI":  # 2X,F6.1
        return lab(f"  {c[0]:>6}", "DAZI")
    if kind == "ZEN":  # 2X,3F6.1
        return lab(f"  {c[0]:>6}{c[1]:>6}{c[2]:>6}", "ZEN1 / ZEN2 / DZEN")
    if kind == "NFREQ":  # I6
        return lab(f"{c[0]:>6}", "# OF FREQUENCIES")
    if kind in ("VFROM", "VUNTIL"):  # 5I6,F13.7
        return lab("".join(f"{x:>6}" for x in c[:5]) + f"{c[5]:>13}", "VALID FROM" if kind == "VFROM" else "VALID UNTIL")
    if kind == "SINEX":
        return lab(f"{c[0]:<10}", "SINEX CODE")
    if kind in ("SOF", "EOF", "SOR", "EOR"):  # 3X,A1,I2
        return lab(f"   {c[0]:<3}", {"SOF": "START OF FREQUENCY", "EOF": "END OF FREQUENCY",
                                      "SOR": "START OF FREQ RMS", "EOR": "END OF FREQ RMS"}[kind])
    if kind == "NEU":  # 3F10.2
        return lab("".join(f"{x:>10}" for x in c), "NORTH / EAST / UP")
    if kind == "NOAZI":  # 3X,A5,mF8.2
        return "   NOAZI" + "".join(f"{x:>8}" for x in c)
    if kind == "AZI":  # F8.1,mF8.2
        return "".join(f"{x:>8}" for x in c)
    if kind == "BLANK":
        return ""
    raise ValueError(kind)


def write_antex(m, trailing: str = "pad") -> str:
    lines = [write_record(k, c) for k, c in file_records(m)]
    return "\n".join(lines) + "\n"


# ------------------------------------------------------------------------------------------------
# what the file says (the expectation the oracle holds the parser to; no Lean, no parser code)

def expected_datetime(v) -> _dt.datetime:
    """printed date + printed seconds, rounded to the datetime resolution (1 us)"""
    y, mo, d, h, mi, s = v
    us = Fraction(s) * 10**6
    n = us.numerator // us.denominator
    r = us - n
    if r > Fraction(1, 2) or (r == Fraction(1, 2) and n % 2 == 1):
        n += 1
    return _dt.datetime(int(y), int(mo), int(d), int(h), int(mi)) + _dt.timedelta(microseconds=n)


def date_matches(dt, v) -> bool:
    """parsed instant equals the printed one to the printed precision (half a microsecond, the
    resolution of datetime; an exact tie in the 7th digit may round either way in doubles)"""
    if not isinstance(dt, _dt.datetime):
        return False
    y, mo, d, h, mi, s = v
    exact = Fraction(micros(_dt.datetime(int(y), int(mo), int(d), int(h), int(mi)))) + Fraction(s) * 10**6
    return abs(Fraction(micros(dt)) - exact) <= Fraction(1, 2)


def expected(m) -> Dict[str, Any]:
    meta = {"version": m["version"], "sat_sys": m["sat_sys"], "pcv_type": m["pcv_type"],
            "ref_antenna": m["ref_antenna"].strip(), "ref_serial_num": m["ref_serial_num"].strip()}
    if m["comments"]:
        meta["comment"] = [c.strip() for c in m["comments"]]
    data: Dict[str, Any] = {}
    for a in m["antennas"]:
        z1, z2, dz = Fraction(a["zen1"]), Fraction(a["zen2"]), Fraction(a["dzen"])
        ent: Dict[str, Any] = {"elevation": [90 - z1 - k * dz for k in range(a["nzen"])]}
        if a["nazi"]:
            ent["azimuth"] = [Fraction(a["dazi"]) * k for k in range(a["nazi"])]
        ent["freqs"] = {}
        for f in a["freqs"]:
            fe = {"neu": [Fraction(x) / 1000 for x in f["neu"]], "noazi": [Fraction(x) for x in f["noazi"]]}
            if a["nazi"]:
                fe["azi"] = [[Fraction(x) for x in row] for row in f["azi"]]
            ent["freqs"][f["code"]] = fe
        if a["kind"] == "rcv":
            data[a["type"]] = {"kind": "rcv", "entry": ent}
        else:
            ent["cospar_id"], ent["sat_code"], ent["sat_type"] = a["cospar"], a["sat_code"], a["type"]
            ent["valid_from"] = a["valid_from"]
            ent["valid_until"] = a["valid_until"]
            data.setdefault(a["code"], {"kind": "sat", "periods": []})["periods"].append(ent)
    return {"meta": meta, "data": data}


# ------------------------------------------------------------------------------------------------
# running the real parser; canonical form of its output

class Workdir:
    def __init__(self):
        self.d = tempfile.mkdtemp(prefix="verif-c15-", dir="/dev/shm" if os.path.isdir("/dev/shm") else None)
        self.n = 0

    def path(self, text: str) -> str:
        self.n += 1
        p = os.path.join(self.d, f"f{self.n % 4}.atx")
        with open(p, "w", newline="", encoding="utf-8") as f:
            f.write(text)
        return p

    def close(self):
        shutil.rmtree(self.d, ignore_errors=True)


def err_kind(e: BaseException) -> str:
    n = type(e).__name__
    if n == "ParserError":
        return "ERR:not-unique"
    return "ERR:other"


def run_impl(wd: Workdir, text: str):
    """-> (parser or None, error kind or None)"""
    from midgard.parsers.antex import AntexParser

    p = AntexParser(wd.path(text))
    try:
        p.parse()
    except Exception as e:  # mapped, never propagated
        return None, err_kind(e), e
    return p, None, None


FREQ_KEYS_SKIP = {"azimuth", "elevation", "cospar_id", "sat_code", "sat_type", "valid_until"}


def num_list(x) -> Optional[List[Fraction]]:
    """a 1-d float array/list as exact rationals; None when it is not numeric (e.g. an array of strings)"""
    try:
        arr = np.asarray(x)
        if arr.dtype.kind not in "fiu" or arr.ndim != 1:
            return None
        return [frac(v) for v in arr.tolist()]
    except Exception:
        return None


def canon_entry(ent: Dict[str, Any], now: _dt.datetime) -> Dict[str, str]:
    """flatten one receiver entry / satellite period into path -> canonical value text"""
    out: Dict[str, str] = {}
    for k, v in ent.items():
        if k in ("azimuth", "elevation"):
            nl = num_list(v)
            out[k] = "Qrad:" + ",".join(rs(q) for q in nl) if nl is not None else "BAD:" + repr(v)[:40]
        elif k in ("cospar_id", "sat_code", "sat_type"):
            out[k] = "T:" + hexs(v)
        elif k == "valid_until":
            if isinstance(v, _dt.datetime) and abs((v - now).total_seconds()) < 3600:
                out[k] = "D:now"
            elif isinstance(v, _dt.datetime):
                out[k] = f"D:{micros(v)}"
            else:
                out[k] = "BAD:" + repr(v)[:40]
        elif isinstance(v, dict):
            for kk, vv in v.items():
                p = f"f{hexs(k)}|{kk}"
                if kk in ("neu", "noazi"):
                    nl = num_list(vv)
                    out[p] = "Q:" + ",".join(rs(q) for q in nl) if nl is not None else "BAD:" + repr(vv)[:40]
                elif kk == "azi":
                    arr = np.asarray(vv)
                    if arr.dtype.kind == "f" and arr.ndim == 2:
                        out[p] = f"G:{arr.shape[0]}x{arr.shape[1]}:" + ",".join(rs(frac(q)) for q in arr.ravel().tolist())
                    else:
                        out[p] = f"BAD:dtype={arr.dtype.str},shape={arr.shape}"
                else:
                    out[p] = "BAD:" + repr(vv)[:40]
        else:
            out[k] = "BAD:" + repr(v)[:40]
    return out


def canon_impl(p, now: _dt.datetime) -> Dict[str, str]:
    out: Dict[str, str] = {}
    for k, v in p.meta.items():
        if k.startswith("__"):
            continue
        if k == "comment":
            out["m|comment"] = "L:" + ",".join(hexs(c) for c in v)
        else:
            out[f"m|{k}"] = "T:" + hexs(v)
    for ant, ent in p.as_dict().items():
        if ent and all(isinstance(k, _dt.datetime) for k in ent):
            for dt, per in ent.items():
                for kk, vv in canon_entry(per, now).items():
                    out[f"d|{hexs(ant)}|s{micros(dt)}|{kk}"] = vv
        else:
            for kk, vv in canon_entry(ent, now).items():
                out[f"d|{hexs(ant)}|r|{kk}"] = vv
    return out


def parse_model_out(ans: str) -> Any:
    """the driver's answer: `ERR:<kind>` or space separated `path=value` tokens"""
    if ans.startswith("ERR:") or ans == "bad-op":
        return ans
    out = {}
    for tok in ans.split():
        k, _, v = tok.partition("=")
        out[k] = v
    return out


REL = Fraction(4, 2**52)  # 4 ulp relative (DESIGN.md §3: parsed-and-scaled file value)


def close_q(a: Fraction, b: Fraction, rel: Fraction = REL) -> bool:
    return abs(a - b) <= rel * max(abs(a), abs(b))


def float_of(q: Fraction) -> Fraction:
    return Fraction(float(q))


def values_match(path: str, model: str, impl: str, ties: bool = False) -> bool:
    """model value (exact rationals of the *decimal text*) vs implementation value (doubles)"""
    if model == impl:
        return True
    mk, _, mv = model.partition(":")
    ik, _, iv = impl.partition(":")
    if mk == "Qdeg" and ik == "Qrad":  # grid in degrees (exact) vs radians (double)
        a = [Fraction(x) for x in mv.split(",")] if mv else []
        b = [Fraction(x) for x in iv.split(",")] if iv else []
        if len(a) != len(b):
            return False
        PI = Fraction(math.pi)
        return all(abs(x * PI / 180 - y) <= Fraction(1, 10**14) for x, y in zip(a, b))
    if mk != ik:
        return False
    if mk == "Q":
        a = [Fraction(x) for x in mv.split(",")] if mv else []
        b = [Fraction(x) for x in iv.split(",")] if iv else []
        if len(a) != len(b):
            return False
        if path.endswith("|neu"):  # text/1000 computed as double * 0.001
            return all(close_q(x, y) for x, y in zip(a, b))
        return all(float_of(x) == y for x, y in zip(a, b))  # float(text) is correctly rounded
    if mk == "G":
        ms, _, mq = mv.partition(":")
        is_, _, iq = iv.partition(":")
        if ms != is_:
            return False
        a = [Fraction(x) for x in mq.split(",")] if mq else []
        b = [Fraction(x) for x in iq.split(",")] if iq else []
        return len(a) == len(b) and all(float_of(x) == y for x, y in zip(a, b))
    if mk == "D" and ties and mv != "now" and iv != "now":
        return abs(int(mv) - int(iv)) <= 1
    return False


def key_matches(mk: str, ik: str, ties: bool) -> bool:
    return mk == ik


def compare_outputs(model: Dict[str, str], impl: Dict[str, str], ties: bool) -> List[str]:
    """names of the paths on which the two canonical outputs differ"""
    diffs = []
    mkeys, ikeys = set(model), set(impl)
    if ties and mkeys != ikeys:
        # a validity start that is an exact tie in the 7th digit lands on either neighbouring microsecond in
        # doubles: rename the implementation's period keys to the model's when they are 1 us apart
        def period(k):
            parts = k.split("|")
            return (parts[1], int(parts[2][1:])) if len(parts) > 2 and parts[2].startswith("s") else None
        mper = {period(k) for k in mkeys if period(k)}
        ren = {}
        for ip in {period(k) for k in ikeys if period(k)} - mper:
            near = [mp for mp in mper if mp[0] == ip[0] and abs(mp[1] - ip[1]) == 1]
            if len(near) == 1:
                ren[ip] = near[0]
        def rename(k):
            pk = period(k)
            if pk in ren:
                parts = k.split("|")
                parts[2] = f"s{ren[pk][1]}"
                return "|".join(parts)
            return k
        impl = {rename(k): v for k, v in impl.items()}
        mkeys, ikeys = set(model), set(impl)
    for k in sorted(mkeys - ikeys):
        diffs.append(f"only-in-model:{k}")
    for k in sorted(ikeys - mkeys):
        diffs.append(f"only-in-impl:{k}")
    for k in sorted(mkeys & ikeys):
        if not values_match(k, model[k], impl[k], ties):
            diffs.append(f"value:{k}")
    return diffs


# ------------------------------------------------------------------------------------------------
# the property oracle: real parser output vs the generating model

def has_tie(m) -> bool:
    for a in m["antennas"]:
        for v in (a["valid_from"], a["valid_until"]):
            if v and v[5][-1] == "5":
                return True
    return False


def oracle(m, p, err) -> List[Tuple[str, str]]:
    """-> [(stable key, what)]"""
    out: List[Tuple[str, str]] = []
    if p is None:
        return [(f"raises:{err}", f"the parser raised on a well-formed file ({err})")]
    exp = expected(m)
    meta = {k: v for k, v in p.meta.items() if not k.startswith("__")}
    for k, v in exp["meta"].items():
        if meta.get(k) != v:
            out.append((f"meta:{k}", f"meta[{k!r}] is {meta.get(k)!r}, file says {v!r}"))
    data = p.as_dict()
    if set(data) != set(exp["data"]):
        out.append(("antennas", f"antenna keys {sorted(data)} != file's {sorted(exp['data'])} (each antenna once)"))
        return out
    now = _dt.datetime.now()
    PI = Fraction(math.pi)

    def check_entry(where: str, got: Dict[str, Any], ent: Dict[str, Any]):
        for g in ("elevation", "azimuth"):
            if g in ent:
                nl = num_list(got.get(g))
                if nl is None or len(nl) != len(ent[g]):
                    out.append((f"grid:{g}:length", f"{where}: {g} has {None if nl is None else len(nl)} entries, the grid of the file has {len(ent[g])}"))
                elif any(abs(x * PI / 180 - y) > Fraction(1, 10**12) for x, y in zip(ent[g], nl)):
                    out.append((f"grid:{g}:value", f"{where}: {g} differs from the grid generated from DAZI / ZEN1 ZEN2 DZEN"))
            elif g in got:
                out.append((f"grid:{g}:spurious", f"{where}: {g} present although the file defines no such grid"))
        fkeys = {k for k in got if isinstance(got[k], dict)}
        if fkeys != set(ent["freqs"]):
            out.append(("frequencies", f"{where}: frequencies {sorted(fkeys)} != file's {sorted(ent['freqs'])}"))
            return
        for k, (code, fe) in enumerate(ent["freqs"].items()):
            g = got[code]
            neu = num_list(g.get("neu"))
            if neu is None or len(neu) != 3 or not all(close_q(x, y) for x, y in zip(fe["neu"], neu)):
                out.append(("neu", f"{where} {code}: neu {g.get('neu')} is not the printed offsets in metres {[float(x) for x in fe['neu']]}"))
            nz = num_list(g.get("noazi"))
            if nz is None or [float_of(x) for x in fe["noazi"]] != nz:
                out.append(("noazi", f"{where} {code}: noazi is not the NOAZI row of this frequency section"))
            if "azi" in fe:
                arr = np.asarray(g.get("azi")) if "azi" in g else None
                pos = "first" if k == 0 else "later"
                if arr is None:
                    out.append((f"azi:missing", f"{where} {code}: azimuth-dependent pattern missing"))
                elif arr.dtype.kind != "f":
                    out.append((f"azi:not-numbers:{pos}-frequency", f"{where} {code}: azi has dtype {arr.dtype.str} (text), not numbers"))
                    # still check the shape claim on the text array
                    if arr.shape != (len(fe["azi"]), len(fe["noazi"])):
                        out.append((f"azi:shape:{pos}-frequency", f"{where} {code} (frequency #{k + 1} of the antenna): azi has shape {arr.shape}, the section has "
                                    f"{len(fe['azi'])} azimuths x {len(fe['noazi'])} zenith angles"))
                elif arr.shape != (len(fe["azi"]), len(fe["noazi"])):
                    out.append((f"azi:shape:{pos}-frequency", f"{where} {code} (frequency #{k + 1} of the antenna): azi has shape {arr.shape}, the section has "
                                f"{len(fe['azi'])} azimuths x {len(fe['noazi'])} zenith angles"))
                elif [[frac(x) for x in row] for row in arr.tolist()] != [[float_of(x) for x in row] for row in fe["azi"]]:
                    out.append((f"azi:values:{pos}-frequency", f"{where} {code}: azi values are not the rows of this frequency section"))
            elif "azi" in g:
                out.append(("azi:spurious", f"{where} {code}: azi present although DAZI is 0"))

    for ant, e in exp["data"].items():
        got = data[ant]
        if e["kind"] == "rcv":
            if any(isinstance(k, _dt.datetime) for k in got):
                out.append(("rcv-keyed-by-date", f"receiver antenna {ant!r} keyed by dates"))
                continue
            check_entry(f"receiver {ant!r}", got, e["entry"])
        else:
            if len(got) != len(e["periods"]):
                out.append(("periods:count", f"{ant}: {len(got)} validity periods parsed, the file has {len(e['periods'])}"))
            for per in e["periods"]:
                hit = [dt for dt in got if date_matches(dt, per["valid_from"])]
                if len(hit) != 1:
                    sec = per["valid_from"][5]
                    kind = "zero-seconds" if Fraction(sec) == 0 else "nonzero-seconds"
                    out.append((f"valid_from:{kind}", f"{ant}: no period starts at the printed VALID FROM {per['valid_from']}; parsed starts: {[str(d) for d in got]}"))
                    continue
                g = got[hit[0]]
                for k in ("cospar_id", "sat_code", "sat_type"):
                    if g.get(k) != per[k]:
                        out.append((f"sat:{k}", f"{ant}: {k} is {g.get(k)!r}, file says {per[k]!r}"))
                vu = g.get("valid_until")
                if per["valid_until"] is None:
                    if not (isinstance(vu, _dt.datetime) and abs((vu - now).total_seconds()) < 3600):
                        out.append(("valid_until:absent", f"{ant}: VALID UNTIL absent in the file but parsed as {vu}"))
                elif not date_matches(vu, per["valid_until"]):
                    sec = per["valid_until"][5]
                    kind = "zero-seconds" if Fraction(sec) == 0 else "nonzero-seconds"
                    out.append((f"valid_until:{kind}", f"{ant}: valid_until {vu} is not the printed {per['valid_until']}"))
                check_entry(f"satellite {ant} from {hit[0]}", g, per)
    return out


# ------------------------------------------------------------------------------------------------
# AntennaCalibration (midgard/gnss/antenna_calibration.py): the consumer of the parsed dictionary

def check_calibration(ctx: Ctx, wd: Workdir, m, text: str, case):
    """`_used_date` picks the latest period starting on or before the date; PCOs are the parsed neu"""
    from midgard.gnss.antenna_calibration import AntennaCalibration
    import warnings

    try:
        ac = AntennaCalibration(wd.path(text))
    except Exception as e:
        ctx.violate("calibration:raises", f"AntennaCalibration raised {type(e).__name__}: {e}", case)
        return
    exp = expected(m)
    for ant, e in exp["data"].items():
        if e["kind"] != "sat":
            continue
        starts = sorted(expected_datetime(p["valid_from"]) for p in e["periods"])
        probes = [s.date() for s in starts] + [(s + _dt.timedelta(days=1)).date() for s in starts] + [(starts[0] - _dt.timedelta(days=2)).date()]
        for d in probes:
            given = _dt.datetime.combine(d, _dt.time())
            want = max([s for s in starts if s <= given], default=None)
            with warnings.catch_warnings():
                warnings.simplefilter("ignore")
                try:
                    got = ac._used_date(d, ant)
                except Exception as ex:
                    # a date before every period: the lookup of valid_until fails on None
                    got = f"ERR:{type(ex).__name__}"
            ctx.count("used_date probes")
            if want is None:
                if got is not None and not (isinstance(got, str) and got.startswith("ERR")):
                    ctx.violate("calibration:used_date", f"{ant} {d}: used date {got} although no period has started", case)
                elif isinstance(got, str):
                    ctx.violate("calibration:used_date-before-first-period-raises",
                                f"{ant} {d}: _used_date raised ({got}) for a date before the first validity period", {**case, "ant": ant, "date": str(d)})
            elif isinstance(got, str) or got is None or abs(micros(got) - micros(want)) > 1:
                ctx.violate("calibration:used_date", f"{ant} {d}: used date {got}, latest period starting on or before is {want}", case)


# ------------------------------------------------------------------------------------------------

def model_parse(drv, text: str):
    return parse_model_out(drv.ask1("c15 parse " + hexs(text)))


def one_text(ctx: Ctx, drv, wd: Workdir, text: str, case: Dict[str, Any], m=None, name="parse(file)", model_ans=None):
    """correspondence (+ oracle when the generating model is known) on one file text"""
    p, err, exc = run_impl(wd, text)
    now = _dt.datetime.now()
    impl = err if p is None else canon_impl(p, now)
    model = (parse_model_out(model_ans) if model_ans is not None else model_parse(drv, text)) if drv is not None else None
    ties = has_tie(m) if m is not None else True
    if drv is not None:
        if isinstance(model, str) or isinstance(impl, str):
            if model != impl:
                ctx.disagree(name, case, model if isinstance(model, str) else "a value", impl if isinstance(impl, str) else "a value")
        else:
            diffs = compare_outputs(model, impl, ties)
            if diffs:
                ctx.disagree(name, {**case, "paths": diffs[:8]}, {k.split(":", 1)[1]: model.get(k.split(":", 1)[1]) for k in diffs[:4]},
                             {k.split(":", 1)[1]: impl.get(k.split(":", 1)[1]) for k in diffs[:4]})
    if m is not None:
        for key, what in oracle(m, p, err if p is None else None):
            ctx.violate(key, what, {**case, "model": m, "file_text": text})
    return p


def run(ctx: Ctx):
    from translator import extract_antex

    extract_antex.main()
    ctx.proof = common.prove("C15")
    rng = ctx.rng
    SPECIALS.clear()
    wd = Workdir()
    try:
        drv = ctx.driver
    except common.ToolFailure:
        drv = None
        ctx.proof.failed.append("driver drv_c15 does not build")
        ctx.proof.ok = False
    ctx.rule = ("random ANTEX models: 1-6 antennas mixing receiver/satellite, 1-5 frequencies, DAZI in {0,2.5,5,10,15,30,45,60,90,120,180}, "
                "zenith grids (ZEN1 in {0,.5,1,2.5,5,10}, DZEN in {.5,1,2,2.5,4,5,10,15}, 1-19 angles), VALID FROM/UNTIL absent / 0 s / 59.9999999 s / "
                "7th-digit ties / random, several periods per PRN, +signed values, values filling 7 of 8 columns, comments and blank lines "
                "anywhere, METH/SINEX CODE records, START OF FREQ RMS sections (with azimuth rows) directly after their frequency section "
                "(frequency / rms / frequency) or after the last frequency, for all or some frequencies; written by an independent Python "
                "writer and by the Lean renderer of file_roundtrip (byte-identical); non-trivial = at least one "
                "antenna with >= 2 frequencies and an azimuth grid, or a satellite with non-zero seconds; distinct by file text")
    ctx.trusted += ["the wire decoding of the abstract file in Driver/C15.lean (validated per case: render F = independent writer's text)",
                    "float(text) is correctly rounded (CPython); the model keeps the exact decimal and the harness compares with float(Fraction)",
                    "datetime + timedelta normalisation is CPython's; the Lean model has its own proleptic-Gregorian day count (compared, not proved)",
                    "np.arange/np.radians grid values are measured against the exact grid (1e-14 rad), not proved",
                    "neu = double * 0.001 measured to 4 ulp against the exact text/1000"]
    ctx.assumptions += ["well-formed = records in ANTEX 1.4 order and columns, satellite antennas carry VALID FROM, PCV values leave one blank "
                        "in their 8 columns (the rows are whitespace-separated by the parser), receiver antenna types unique per file",
                        "VALID UNTIL absent is reported by the parser as the current time (checked to lie within an hour of now)"]
    try:
        # corpus first
        corpus = common.VERIF / "corpus" / "C15"
        if corpus.is_dir():
            for f in sorted(corpus.glob("*.atx")):
                text = f.read_text()
                case = {"corpus": f.name}
                ctx.case(case)
                ctx.count("corpus")
                pc = one_text(ctx, drv, wd, text, case)
                if f.name == "two_freq_azi_valid_until.atx":
                    per = None if pc is None else pc.as_dict().get("G01", {}).get(_dt.datetime(1992, 11, 22))
                    ok = (per is not None and abs(per["valid_until"] - _dt.datetime(2008, 10, 17)) <= _dt.timedelta(microseconds=1)
                          and len(per.get("elevation", [])) == 3 and np.asarray(per["G02"]["azi"]).shape == (3, 3)
                          and np.asarray(per["G02"]["azi"]).dtype.kind == "f" and float(np.asarray(per["G02"]["azi"])[0, 0]) == 10.0)
                    if not ok:
                        ctx.violate("corpus:two_freq_azi_valid_until", "the corpus file (two frequencies with azimuth rows, VALID UNTIL ...59.9999999, "
                                    "zenith step 0.1) is not parsed into its own numbers", {**case, "file_text": text})
        # the repository's example file through both (correspondence only: no generating model)
        ex = common.REPO / "tests" / "parsers" / "example_files" / "antex"
        if ex.exists():
            text = ex.read_text()
            case = {"example_file": "tests/parsers/example_files/antex"}
            ctx.case(case)
            ctx.count("example file")
            p = one_text(ctx, drv, wd, text, case)
            example_oracle(ctx, p, case)
        n = ctx.budget(150, 2500)
        for i in range(n):
            decimal_grid = False
            m = gen_file(rng, ctx.thorough, decimal_grid)
            text = write_antex(m)
            case = {"i": i, "model": slim(m)}
            nontrivial = any((len(a["freqs"]) >= 2 and a["nazi"]) or (a["kind"] == "sat" and a["valid_from"] and Fraction(a["valid_from"][5]) != 0)
                             for a in m["antennas"])
            ctx.case(common.digest(text), nontrivial=nontrivial)
            stats(ctx, m)
            # the abstract file F: `render F` (Lean) must be the independent writer's text byte for byte, F.wf must hold,
            # the instance of file_roundtrip must evaluate to true; the model's parse of that text is compared with the
            # real parser below
            ans = model_file(ctx, drv, m, text, {"i": i}) if drv is not None else None
            if ans is not None:
                ctx.count("file_roundtrip instances evaluated (wf, thm, render = writer)")
            one_text(ctx, drv, wd, text, case, m, model_ans=ans)
            if i % 10 == 0:
                check_calibration(ctx, wd, m, text, case)
        # line ends: `read_data` iterates the text-mode file object (universal newlines).  The same well-formed file with
        # CRLF or bare-CR line ends must parse to the same calibrations (oracle + correspondence through textLines of the
        # model); a CR *inside* a comment is a line end for the real parser (the file is then not the rendering of its
        # model): correspondence only - the model must cut where the code cuts
        for i in range(ctx.budget(24, 240)):
            m = gen_file(rng, False)
            how = ["CRLF line ends", "CR line ends", "mixed line ends", "no final line end", "CR inside an antenna-section comment"][i % 5]
            text = write_antex(m)
            if how == "CRLF line ends":
                text = text.replace("\n", "\r\n")
            elif how == "CR line ends":
                text = text.replace("\n", "\r")
            elif how == "mixed line ends":
                text = "".join(l + rng.choice(c15_lines.TEXT_MODE_LINE_ENDS) for l in text.split("\n")[:-1])
            elif how == "no final line end":
                text = text[:-1]
            else:
                a = rng.choice(m["antennas"])
                a["comments"] = a["comments"] + [[rng.random(), rng.choice(["ROBOT\rPAGE 2", "12.5\r 3.25  -1.00", "see note\r\n   7.0   1.00"])]]
                text = write_antex(m)
            case = {"line_ends": how, "i": i, "model": slim(m)}
            ctx.case(common.digest(text))
            ctx.count(how)
            if how.startswith("CR inside"):
                one_text(ctx, drv, wd, text, case, None, name="parse(file with a CR inside a comment): lines as text-mode iteration cuts them")
            else:
                one_text(ctx, drv, wd, text, case, m, name=f"parse(file with {how})")
        # files that are *not* well-formed in one way: a repeated antenna / frequency / period must be refused
        for i in range(ctx.budget(20, 150)):
            m = gen_file(rng, False)
            a = rng.choice(m["antennas"])
            how = rng.choice(["antenna", "frequency"])
            m2 = dict(m)
            if how == "antenna":
                m2["antennas"] = m["antennas"] + [a]
            else:
                a2 = dict(a)
                a2["freqs"] = a["freqs"] + [a["freqs"][0]]
                m2["antennas"] = [a2 if x is a else x for x in m["antennas"]]
            text = write_antex(m2)
            case = {"dup": how, "i": i}
            ctx.case(common.digest(text))
            ctx.count(f"duplicate {how}")
            p, err, _ = run_impl(wd, text)
            if drv is not None:
                ans = model_file(ctx, drv, m2, text, case)
                model = parse_model_out(ans) if ans is not None else model_parse(drv, text)
                if (model if isinstance(model, str) else "value") != (err or "value"):
                    ctx.disagree("parse(file with a repeated section)", case, model if isinstance(model, str) else "a value", err or "a value")
            if err != "ERR:not-unique":
                ctx.violate(f"duplicate-{how}-accepted", f"a file repeating one {how} section was not refused ({err or 'parsed'})", {**case, "file_text": text})
        # decimal zenith steps: oracle only (np.arange on doubles), reported separately
        for i in range(ctx.budget(30, 300)):
            m = gen_file(rng, False, True)
            text = write_antex(m)
            case = {"decimal_grid": True, "i": i, "model": slim(m)}
            ctx.case(common.digest(text))
            ctx.count("decimal zenith step")
            p, err, _ = run_impl(wd, text)
            for key, what in oracle(m, p, err):
                ctx.violate(key + (":decimal-step" if key.startswith("grid:") else ""), what, {**case, "model": m, "file_text": text})
    finally:
        wd.close()
    for k, v in sorted(SPECIALS.items()):
        ctx.count(k, v)
    ctx.traces = ctx.evaluations


def example_oracle(ctx: Ctx, p, case):
    """facts of the repository's example file read off the file itself (not from the parser)"""
    if p is None:
        ctx.violate("example:raises", "the example file does not parse", case)
        return
    d = p.as_dict()
    want_until = _dt.datetime(2008, 10, 17, 0, 0, 0)  # 2008-10-16 23:59:59.9999999 to 0.5 us
    g01 = d.get("G01", {})
    per = g01.get(_dt.datetime(1992, 11, 22))
    if per is None:
        ctx.violate("example:valid_from", "example file: G01 has no period starting 1992-11-22", case)
    elif abs(per["valid_until"] - want_until) > _dt.timedelta(microseconds=1):
        ctx.violate("valid_until:nonzero-seconds", f"example file: G01 valid_until {per['valid_until']} (printed 2008-10-16 23:59 59.9999999)", case)
    rc = d.get("AERAT1675_120   SPKE", {})
    for k, code in enumerate(["G01", "G02", "R01", "R02"]):
        if code not in rc:
            ctx.violate("frequencies", f"example file: receiver antenna lacks {code}", case)
            continue
        arr = np.asarray(rc[code].get("azi"))
        if arr.shape != (73, 19):
            ctx.violate("azi:shape:" + ("first" if k == 0 else "later") + "-frequency",
                        f"example file: {code} azi has shape {arr.shape}, the section has 73 azimuths x 19 zenith angles", case)
        if arr.dtype.kind != "f":
            ctx.violate("azi:not-numbers:" + ("first" if k == 0 else "later") + "-frequency", f"example file: {code} azi has dtype {arr.dtype.str}", case)


def slim(m):
    """the model without the bulky value rows (the replay carries the file text)"""
    out = {k: v for k, v in m.items() if k != "antennas"}
    out["antennas"] = [{k: v for k, v in a.items() if k not in ("freqs", "rms")} | {"freqs": [f["code"] for f in a["freqs"]], "rms": len(a["rms"])}
                       for a in m["antennas"]]
    return out


def stats(ctx: Ctx, m):
    ctx.count(f"antennas={len(m['antennas'])}")
    for a in m["antennas"]:
        ctx.count(f"kind={a['kind']}")
        ctx.count(f"nfreq={len(a['freqs'])}")
        ctx.count(f"dazi={a['dazi']}")
        if a["rms"]:
            ctx.count(f"rms layout={a['rms_layout']}")
            ctx.count(f"rms sections per antenna={len(a['rms'])}")
            if a["rms_layout"] == "interleaved":
                codes = [f["code"] for f in a["freqs"]]
                rc = {r["code"] for r in a["rms"]}
                # an rms section directly followed by a further frequency section of the same antenna
                nfollow = sum(1 for i, c in enumerate(codes[:-1]) if c in rc)
                if nfollow:
                    ctx.count("rms section followed by a frequency section" + (" (azimuth rows)" if a["nazi"] else " (NOAZI only)"), nfollow)
        if a["comments"]:
            ctx.count("antenna with comments")
        for v, nm in ((a["valid_from"], "valid_from"), (a["valid_until"], "valid_until")):
            if v is None:
                ctx.count(f"{nm}=absent")
            elif Fraction(v[5]) == 0:
                ctx.count(f"{nm}=0s")
            elif v[5] == "59.9999999":
                ctx.count(f"{nm}=59.9999999s")
            else:
                ctx.count(f"{nm}=other")


def replay(payload):
    """re-run the oracle on the stored file text against the real parser"""
    import json

    c = payload.get("replay", payload)
    text = c.get("file_text")
    print("key:", payload.get("key"))
    print("what:", payload.get("what"))
    if not text:
        print(json.dumps(c, indent=1, default=str)[:3000])
        return 0
    wd = Workdir()
    try:
        p, err, exc = run_impl(wd, text)
        print("file text (first 40 lines):\n" + "\n".join(l[:100] for l in text.split("\n")[:40]))
        if p is None:
            print("parser raised:", repr(exc))
        m = c.get("model")
        if isinstance(m, dict) and "antennas" in m and all("noazi" in f for a in m["antennas"] for f in (a["freqs"] if a["freqs"] and isinstance(a["freqs"][0], dict) else [])):
            fails = oracle(m, p, err)
            for key, what in fails:
                print(f"ORACLE FAILS [{key}]: {what}")
            print("verdict:", "property violated on this input" if fails else "property holds on this input")
            return 1 if fails else 0
        if p is not None:
            for k, v in sorted(canon_impl(p, _dt.datetime.now()).items()):
                if v.startswith("BAD") or k.endswith("valid_until"):
                    print(" ", k, v[:100])
    finally:
        wd.close()
    return 0
