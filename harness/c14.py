"""C14 — SINEX blocks are parsed column-exactly and matrices are rebuilt symmetric.

translate:   translator/extract_sinex.py  → lean/Midgard/Generated/SinexBlocks.lean (all SinexBlock tables)
prove:       lean/Midgard/Props/C14.lean  (table obligations by decide, generic block round trip, epoch pivot,
             D=E exponent, dms sign, matrix symmetry/entries, order independence, regrouping)
correspond:  files rendered by an independent writer (columns from Spec/Sinex202.lean, *not* from the
             code) are parsed by the real parsers and by the compiled Lean model; canonical trees compared
oracle:      the generating record model vs the real parsers' output, field by field; matrices; order
             independence; per-site regrouping as a multiset
"""
from __future__ import annotations

import json
import math
import os
import sys
import tempfile
import warnings
from datetime import datetime, timedelta
from fractions import Fraction
from pathlib import Path

import numpy as np

from . import c14_tms, common
from .common import Ctx, hexs

TEXT_CHARS = "ABCDEFGHIJKLMNOPQRSTUVWXYZabcdefghijklmnopqrstuvwxyz0123456789-_./()+,:;=<>[]%&'\"!?@$^~|{}"
CODE_CHARS = "ABCDEFGHIJKLMNOPQRSTUVWXYZ0123456789"


# ------------------------------------------------------------------------------------------
# canonical trees


def cell_tree(v):
    """canonical tree of one value returned by the real code"""
    if v is None:
        return None
    if isinstance(v, (np.str_, str)):
        return {"s": hexs(str(v))}
    if isinstance(v, (bool, np.bool_)):
        return {"i": str(int(v))}
    if isinstance(v, (int, np.integer)):
        return {"i": str(int(v))}
    if isinstance(v, (float, np.floating)):
        return {"f": "nan" if math.isnan(v) else (float(v) + 0.0).hex()}  # -0.0 and 0.0 are one rational
    if isinstance(v, datetime):
        return {"d": [v.toordinal(), v.hour * 3600 + v.minute * 60 + v.second]}
    if isinstance(v, (tuple, list)) and all(isinstance(x, str) for x in v):
        return {"t": [hexs(x) for x in v]}
    raise TypeError(f"no canonical form for {type(v).__name__}: {v!r}")


def val_tree(v):
    if isinstance(v, dict):
        return {"o": [[hexs(str(k)), val_tree(x)] for k, x in v.items()]}
    if isinstance(v, np.ndarray):
        if v.dtype.names:
            v = np.atleast_1d(v)
            return {"o": [[hexs(n), [cell_tree(x) for x in v[n].tolist()] if v[n].dtype != object else
                           [cell_tree(x) for x in v[n]]] for n in v.dtype.names]}
        if v.ndim == 2:
            return {"m": [[(float(x) + 0.0).hex() for x in row] for row in v]}
        v = np.atleast_1d(v)
        if v.dtype == object:
            return [cell_tree(x) for x in v]
        return [cell_tree(x) for x in v.tolist()] if v.dtype.kind not in "U" else [cell_tree(str(x)) for x in v]
    if isinstance(v, list) and not all(isinstance(x, str) for x in v):
        return [val_tree(x) for x in v]
    if isinstance(v, list) and not v:
        return []
    if isinstance(v, np.void):
        return {"o": [[hexs(n), cell_tree(v[n].item() if hasattr(v[n], "item") and not isinstance(v[n], (datetime, tuple)) else v[n])]
                      for n in v.dtype.names]}
    if isinstance(v, np.generic):
        return cell_tree(v.item() if not isinstance(v, np.str_) else str(v))
    return cell_tree(v)


def model_tree(t):
    """the model's JSON with exact rationals turned into the correctly rounded doubles"""
    if isinstance(t, dict):
        if "f" in t:
            return {"f": "nan" if t["f"] == "nan" else float(Fraction(t["f"])).hex()}
        if "m" in t:
            return {"m": [[float(Fraction(x)).hex() for x in row] for row in t["m"]]}
        if "o" in t:
            return {"o": [[k, model_tree(v)] for k, v in t["o"]]}
        if "meta" in t:
            return {k: model_tree(v) for k, v in t.items()}
        return t
    if isinstance(t, list):
        return [model_tree(x) for x in t]
    return t


DMS_KEYS = {hexs("approx_lon"), hexs("approx_lat")}


def tree_diff(a, b, loose=False, path=""):
    """first difference between two canonical trees (None when equal). Floats under a dms key may
    differ by 4 ulp (the code multiplies by pi/180 and 180/pi)."""
    if isinstance(a, dict) and isinstance(b, dict):
        if "o" in a and "o" in b:
            ka, kb = [k for k, _ in a["o"]], [k for k, _ in b["o"]]
            if ka != kb:
                return f"{path}: keys {[common.unhex(k) for k in ka]} vs {[common.unhex(k) for k in kb]}"
            for (k, x), (_, y) in zip(a["o"], b["o"]):
                d = tree_diff(x, y, loose or k in DMS_KEYS, f"{path}/{common.unhex(k)}")
                if d:
                    return d
            return None
        if "f" in a and "f" in b:
            if a["f"] == b["f"]:
                return None
            if loose and "nan" not in (a["f"], b["f"]):
                x, y = float.fromhex(a["f"]), float.fromhex(b["f"])
                if abs(x - y) <= 8e-16 * max(abs(x), abs(y), 1e-300):
                    return None
            return f"{path}: {a} vs {b}"
        if "meta" in a and "meta" in b:
            return tree_diff(a["meta"], b["meta"], loose, "meta") or tree_diff(a["data"], b["data"], loose, "data")
        if a != b:
            return f"{path}: {a} vs {b}"
        return None
    if isinstance(a, list) and isinstance(b, list):
        if len(a) != len(b):
            return f"{path}: lengths {len(a)} vs {len(b)}"
        for i, (x, y) in enumerate(zip(a, b)):
            d = tree_diff(x, y, loose, f"{path}[{i}]")
            if d:
                return d
        return None
    if a != b:
        return f"{path}: {a} vs {b}"
    return None


# ------------------------------------------------------------------------------------------
# the independent writer: record model → text


def rnd_text(rng, width, chars=TEXT_CHARS, inner_blank=True, full=None, allow_empty=True):
    if allow_empty and rng.random() < 0.05:
        return ""
    if full is None:
        full = rng.random() < 0.35
    n = width if full else rng.randint(1, width)
    s = [rng.choice(chars) for _ in range(n)]
    if chars is TEXT_CHARS and n > 1 and rng.random() < 0.04:
        s[rng.randrange(n)] = "#"  # an ordinary character in SINEX; numpy's default comment marker
    if inner_blank and n > 2:
        for i in range(1, n - 1):
            if rng.random() < 0.12:
                s[i] = " "
    return "".join(s)


def epoch_text(rng, open_p=0.15):
    """(text, expected datetime | None)"""
    if rng.random() < open_p:
        return "00:000:00000", None
    year = rng.choice([1951, 1999, 2000, 2001, 2050]) if rng.random() < 0.25 else rng.randint(1951, 2050)
    leap = year % 4 == 0 and (year % 100 != 0 or year % 400 == 0)
    doy = rng.choice([1, 365 + leap]) if rng.random() < 0.2 else rng.randint(1, 365 + leap)
    sec = rng.choice([0, 86399]) if rng.random() < 0.2 else rng.randint(0, 86399)
    return f"{year % 100:02d}:{doy:03d}:{sec:05d}", datetime(year, 1, 1) + timedelta(days=doy - 1, seconds=sec)


def flt_text(rng, width):
    """a real number that fits `width` columns; (text, exact decimal Fraction)"""
    if width >= 18:
        mant = rng.uniform(-9.99, 9.99)
        e = rng.randint(-12, 12)
        t = f"{mant * 10.0 ** e:{width}.{width - 7}E}"
        t = t.strip()
        return t, Fraction(t.replace("E", "e"))
    dec = rng.randint(0, max(0, min(4, width - 3)))
    intw = width - dec - (1 if dec else 0) - 1  # leave room for a sign
    mag = rng.randint(0, 10 ** max(intw, 0) - 1) if rng.random() < 0.4 else rng.randint(0, 10 ** rng.randint(0, max(intw, 0)) - 1) if intw > 0 else 0
    frac = rng.randint(0, 10 ** dec - 1) if dec else 0
    sign = "-" if rng.random() < 0.35 else ""
    t = f"{sign}{mag}" + (f".{frac:0{dec}d}" if dec else "")
    if len(t) > width:
        t = t[:width].rstrip(".")
    return t, Fraction(t)


def exp_text(rng, width):
    """E or D exponent forms; (text, exact Fraction of the value)"""
    digits = width - 6 - rng.randint(0, 2)
    style = rng.choice(["-.dE", "0.dE", "d.dE", "d.de"])
    mant_digits = "".join(rng.choice("0123456789") for _ in range(max(digits - 1, 1)))
    lead = rng.choice("123456789")
    e = rng.randint(-20, 20)
    es = f"{'+' if e >= 0 else '-'}{abs(e):02d}"
    neg = rng.random() < 0.4
    ch = rng.choice(["E", "E", "D", "e"]) if style != "d.de" else "e"
    if style == "-.dE":
        body = f"{'-' if neg else ''}.{lead}{mant_digits}"
    elif style == "0.dE":
        body = f"{'-' if neg else ''}0.{lead}{mant_digits[:-1]}"
    else:
        body = f"{'-' if neg else ''}{lead}.{mant_digits[:-1]}"
    t = f"{body}{ch}{es}"
    if len(t) > width:
        t = f"{body[:width - 4]}{ch}{es}"
    val = Fraction(t.replace("D", "e").replace("E", "e"))
    return t, val


def dms_text(rng):
    d = rng.choice([0, 0, 1, 179, 180, 359]) if rng.random() < 0.3 else rng.randint(0, 359)
    neg = rng.random() < 0.4
    if neg:
        d = min(d, 99)
    m = rng.randint(0, 59)
    s10 = rng.randint(0, 599)
    t = f"{('-' if neg else '') + str(d):>3} {m:2d} {s10 // 10:2d}.{s10 % 10}"
    v = Fraction(d) + Fraction(m, 60) + Fraction(s10, 36000)
    return t, (-v if neg else v)


def gen_value(rng, name, width, kind, ctxrow):
    """(text, expected) for one field"""
    if kind == "text":
        if name in ("site_code", "site_name", "solved_site_code", "input_site_code"):
            return ctxrow.get("site") or rnd_text(rng, 4, CODE_CHARS, False, True, False), None
        if name == "antenna_type" and width == 20:
            a = rnd_text(rng, rng.randint(1, 15), CODE_CHARS + "._-", False, True, False)
            r = rnd_text(rng, 4, CODE_CHARS, False, True, False)
            return f"{a:15} {r}", None
        if name in ("obs_code", "point_code", "soln", "constraint", "unit", "param_name", "param_type", "bias_type"):
            return rnd_text(rng, width, CODE_CHARS, False, None, False), None
        return rnd_text(rng, width), None
    if kind == "int":
        if "idx" in ctxrow and name in ("param_idx",):
            return str(ctxrow["idx"]), ctxrow["idx"]
        v = rng.randint(0, 10 ** rng.randint(1, width) - 1)
        return str(v), v
    if kind == "flt":
        return flt_text(rng, width)
    if kind == "epoch":
        return epoch_text(rng)
    if kind == "exp":
        return exp_text(rng, width)
    if kind == "dms":
        return dms_text(rng)
    if kind == "tup":
        k = rng.randint(0, 6)
        flags = [rng.choice("SOETCA") for _ in range(k)]
        return " ".join(flags), tuple(flags)
    raise ValueError(kind)


def render_row(fields, texts, lead=" "):
    """place each text in its standard columns (numbers right-, text left-justified)"""
    line = [" "] * 80
    line[0] = lead[0]
    for (name, start, width, kind), t in zip(fields, texts):
        assert len(t) <= width, (name, t, width)
        cellt = t.rjust(width) if kind in ("int", "flt", "exp") else t.ljust(width)
        line[start:start + width] = list(cellt)
    return "".join(line).rstrip() or lead[0]  # an all-blank record keeps its lead character


def expected_of(kind, text, exp):
    """what the property says the parser must deliver for a field"""
    if kind in ("text",):
        return ("s", text.strip())
    if kind == "int":
        return ("i", exp)
    if kind in ("flt", "exp"):
        return ("f", float(exp))  # float(Fraction) is correctly rounded, as float(text) is
    if kind == "dms":
        return ("dms", exp)
    if kind in ("epoch", "epoch4"):
        return ("d", exp)
    if kind == "tup":
        return ("t", exp)
    raise ValueError(kind)


def value_matches(expd, got) -> bool:
    k, e = expd
    if k == "s":
        return isinstance(got, (str, np.str_)) and str(got) == e
    if k == "i":
        return isinstance(got, (int, np.integer)) and int(got) == e
    if k == "f":
        return isinstance(got, (float, np.floating)) and float(got) == e
    if k == "dms":
        return isinstance(got, (float, np.floating)) and abs(Fraction(float(got)) - e) <= Fraction(1, 10 ** 12) and (
            e == 0 or (float(got) < 0) == (e < 0))
    if k == "d":
        return got == e if e is not None else got is None
    if k == "t":
        return tuple(got) == tuple(e)
    return False


# ------------------------------------------------------------------------------------------
# file generation


class GenBlock:
    def __init__(self, marker, fields, rows, params=""):
        self.marker, self.fields, self.rows, self.params = marker, fields, rows, params  # rows: list of (texts, expected)
        self.extra_lines = []

    def lines(self, rng, comments=True):
        out = [f"+{self.marker}{(' ' + self.params) if self.params else ''}"]
        if comments and rng.random() < 0.5:
            out.append("*" + "".join(f.upper()[:w].ljust(w, "_") + " " for f, s, w, k in self.fields)[:79])
        for texts, _ in self.rows:
            out.append(render_row(self.fields, texts))
            if comments and rng.random() < 0.05:
                out.append("* a comment line inside the block")
        out.append(f"-{self.marker}")
        return out


def gen_rows(rng, fields, n, sites=None, seq=False):
    rows = []
    for i in range(n):
        ctxrow = {}
        if sites:
            ctxrow["site"] = rng.choice(sites)
        if seq:
            ctxrow["idx"] = i + 1
        texts, exps = [], []
        for name, start, width, kind in fields:
            t, e = gen_value(rng, name, width, kind, ctxrow)
            texts.append(t)
            exps.append(expected_of(kind, t, e))
        rows.append((texts, exps))
    return rows


def gen_header(rng, spec_header):
    texts, exps = [], []
    for name, start, width, kind in spec_header:
        if name == "snx_version":
            t, e = rng.choice([("2.02", Fraction("2.02")), ("2.01", Fraction("2.01")), ("1.00", Fraction(1))])
        elif kind == "text":
            t, e = rnd_text(rng, width, CODE_CHARS, False, True, False), None
        else:
            t, e = gen_value(rng, name, width, kind, {})
        texts.append(t)
        exps.append(expected_of(kind, t, e))
    line = render_row(spec_header, texts, lead="%")
    line = "%=SNX" + line[5:]
    return line, list(zip([f[0] for f in spec_header], exps))


def gen_matrix(rng, n, tri, density=0.7, ctx=None):
    """symmetric n×n matrix with zeros, rendered in L or U form, complete (every element of the triangle listed) or
    with omissions, 1..3 values per line, and the lines in one of the layouts the format allows (every line carries
    its own indices): row by row, rows last-to-first, column by column one element per line (packed column-major
    storage), any order.  returns (lines as (row, col, [float…]), expected matrix as list of lists of float)"""
    complete = rng.random() < 0.35
    A = [[0.0] * n for _ in range(n)]
    for i in range(n):
        for j in range(i + 1):
            if rng.random() < density:
                v = float(f"{rng.uniform(-9.99, 9.99) * 10.0 ** rng.randint(-8, 8):.14E}")
                A[i][j] = A[j][i] = v
    lines = []
    layout = rng.choice(["rows", "rows", "rows", "rows-reversed", "columns", "shuffled"])
    per_line = 1 if layout == "columns" else rng.choice([1, 2, 3, 3])
    for r in range(1, n + 1):
        cols = range(1, r + 1) if tri == "L" else range(r, n + 1)
        run = []  # current (start col, values)
        for c in cols:
            v = A[r - 1][c - 1]
            write = complete or v != 0.0 or rng.random() < 0.3  # zeros are sometimes written, mostly omitted
            if write:
                if run and run[0] + len(run[1]) == c and len(run[1]) < per_line:
                    run[1].append(v)
                else:
                    if run:
                        lines.append((r, run[0], run[1]))
                    run = [c, [v]]
            else:
                if run:
                    lines.append((r, run[0], run[1]))
                run = []
        if run:
            lines.append((r, run[0], run[1]))
    if layout == "rows-reversed":
        lines.reverse()
    elif layout == "columns":
        lines.sort(key=lambda l: (l[1], l[0]))
    elif layout == "shuffled":
        rng.shuffle(lines)
    if ctx is not None:
        ctx.count(f"matrix:{'complete' if complete else 'omissions'}:{tri}:{layout}")
        ctx.count(f"matrix:values-per-line<={per_line}")
    return lines, A


def matrix_block(marker, mfields, lines, tri, typ):
    rows = []
    for r, c, vals in lines:
        texts = [str(r), str(c)] + [f"{v:.14E}" for v in vals] + [""] * (3 - len(vals))
        rows.append((texts, None))
    return GenBlock(marker, mfields, rows, params=f"{tri}{(' ' + typ) if typ else ''}")


FOREIGN = ["SOLUTION/FOO", "X/BLOCK", "SITE/UNKNOWN", "BIAS/DESCRIPTION"]


def assemble(rng, header_line, blocks, foreign=True, ctx=None):
    """file text with the blocks in random order, foreign blocks and comment lines in between; now and then one
    of the blocks is given a second time further down with other records (only the first one is read:
    theorem file_invisible)"""
    order = list(blocks)
    rng.shuffle(order)
    out = [header_line]
    for b in order:
        if foreign and rng.random() < 0.3:
            fm = rng.choice(FOREIGN)
            out += [f"+{fm}", " some content of a block nobody asked for", "*comment", f"-{fm}"]
        if foreign and rng.random() < 0.3:
            out.append("* ---------------------------------------------------------------")
        out += b.lines(rng, comments=foreign)
    if foreign and order and rng.random() < 0.08:
        b = rng.choice(order)
        if b.marker not in MATRIX_MARKERS:
            out += GenBlock(b.marker, b.fields, gen_rows(rng, b.fields, rng.randint(1, 2))).lines(rng, comments=False)
            if ctx is not None:
                ctx.count("block-given-twice")
    out.append("%ENDSNX")
    return "\n".join(out) + "\n"


# ------------------------------------------------------------------------------------------
# running the real code


class Impl:
    def __init__(self):
        self.dir = tempfile.mkdtemp(prefix="c14-")
        self.n = 0
        from midgard.parsers._parser_sinex import SinexParser
        from translator import extract_sinex

        with warnings.catch_warnings():
            warnings.simplefilter("ignore")
            t = extract_sinex.collect()
        self.props = t["base"]["props"]
        self.base_markers = [b.marker for b in t["base"]["blocks"]]
        props = self.props

        def make(sel):
            class Base(SinexParser):
                def setup_parser(self):
                    return tuple(getattr(self, props[i]) for i in sel)
            return Base

        self.make_base = make
        from midgard.parsers.sinex_discontinuities import DiscontinuitiesSnxParser
        from midgard.parsers.sinex_events import EventsSnxParser
        from midgard.parsers.sinex_site import SinexSiteParser
        from midgard.parsers.sinex_tro import SinexTropParser

        self.classes = {"site": SinexSiteParser, "disc": DiscontinuitiesSnxParser, "events": EventsSnxParser,
                        "tro": SinexTropParser}

    def parse(self, cls, text):
        """returns ('ok', parser) or ('raises', 'Type: msg')"""
        self.n += 1
        fn = os.path.join(self.dir, f"f{self.n % 8}.snx")
        with open(fn, "w", encoding="utf-8", newline="") as f:
            f.write(text)
        try:
            with warnings.catch_warnings():
                warnings.simplefilter("ignore")
                p = cls(fn)
                p.parse()
            return "ok", p
        except Exception as e:  # noqa: BLE001 — any exception is an observation
            return "raises", f"{type(e).__name__}: {e}"

    def cleanup(self):
        import shutil

        shutil.rmtree(self.dir, ignore_errors=True)


def impl_tree(p, sort_top=False):
    meta = {k: v for k, v in p.meta.items() if not k.startswith("__")}
    data = p.data
    if sort_top:
        data = {k: data[k] for k in sorted(data)}
    return {"meta": val_tree(meta), "data": val_tree(data)}


def ask_model(drv, kind, text, sel=None):
    line = f"c14 {kind} {','.join(map(str, sel)) + ' ' if sel is not None else ''}{hexs(text)}"
    a = drv.ask1(line)
    if a in ("RAISES", "bad-op"):
        return a
    return model_tree(json.loads(a))


# ------------------------------------------------------------------------------------------
# the check


def load_spec(drv):
    s = json.loads(drv.ask1("c14 spec"))
    spec = {"header": [tuple(f) for f in s["header"]]}
    for grp in ("official", "unofficial", "tro"):
        spec[grp] = {m: [tuple(f) for f in fs] for m, fs in s[grp]}
    return spec


MATRIX_MARKERS = ["SOLUTION/MATRIX_ESTIMATE", "SOLUTION/MATRIX_APRIORI", "SOLUTION/NORMAL_EQUATION_MATRIX"]


def check_block_values(ctx, case, marker, block, got_cols, keyprefix=""):
    """oracle: every field of every row equals the generating record"""
    names = [f[0] for f in block.fields]
    n = len(block.rows)
    for j, name in enumerate(names):
        key = name.replace(" ", "_")
        if key not in got_cols:
            ctx.violate(f"{keyprefix}{marker}:{name}:missing", f"field {name} of {marker} is not returned", case)
            return False
        col = got_cols[key]
        col = list(np.atleast_1d(col)) if not isinstance(col, list) else col
        if len(col) != n:
            ctx.violate(f"{keyprefix}{marker}:rows", f"{marker}: {n} rows written, {len(col)} returned for {name}", case)
            return False
        for i, (texts, exps) in enumerate(block.rows):
            if not value_matches(exps[j], col[i]):
                if any("#" in t for t in texts):
                    ctx.violate("record-containing-#", f"{marker} row {i} field {name}: columns hold {texts[j]!r}, parser returned "
                                f"{col[i]!r} (the record contains a '#')", {**case, "row": i, "field": name, "text": texts[j]})
                    return False
                ctx.violate(f"{keyprefix}{marker}:{name}:{block.fields[j][3]}",
                            f"{marker} row {i} field {name}: columns hold {texts[j]!r}, parser returned {col[i]!r}",
                            {**case, "row": i, "field": name, "text": texts[j]})
                return False
    return True


def base_case(ctx, impl, drv, spec, rng, quick):
    """one file for a base-class parser declaring a random selection of blocks"""
    usable = [i for i, m in enumerate(impl.base_markers) if m in spec["official"] or m in spec["unofficial"]]
    k = rng.randint(1, 6) if rng.random() < 0.7 else len(usable)
    sel = rng.sample(usable, min(k, len(usable)))
    with_est = rng.random() < 0.7
    est_i = impl.base_markers.index("SOLUTION/ESTIMATE")
    mat_sel = [i for i in sel if impl.base_markers[i] in MATRIX_MARKERS]
    if mat_sel and with_est and est_i not in sel:
        sel.append(est_i)
    if mat_sel and not with_est and est_i in sel:
        sel.remove(est_i)
    rng.shuffle(sel)
    allspec = {**spec["official"], **spec["unofficial"]}
    n_mat = rng.randint(1, 12 if not quick else 8)
    blocks, mats = [], {}
    maxrows = 12 if quick else 40
    for i in sel:
        m = impl.base_markers[i]
        fields = allspec[m]
        if m in MATRIX_MARKERS:
            tri = rng.choice(["L", "U"])
            if rng.random() < 0.1:
                tri = tri.lower()
            typ = rng.choice(["COVA", "CORR", "INFO", ""]) if "NORMAL" not in m else rng.choice(["", "INFO"])
            lines, A = gen_matrix(rng, n_mat, tri.upper(), density=rng.choice([0.2, 0.7, 1.0]), ctx=ctx)
            b = matrix_block(m, fields, lines, tri, typ)
            mats[m] = (A, lines, tri, typ)
        elif m == "SOLUTION/ESTIMATE" and mat_sel:
            b = GenBlock(m, fields, gen_rows(rng, fields, n_mat, seq=True))
        else:
            nrows = rng.choice([0, 1, 1, 2]) if rng.random() < 0.3 else rng.randint(0, maxrows)
            b = GenBlock(m, fields, gen_rows(rng, fields, nrows, seq=True))
        blocks.append(b)
    hline, hexp = gen_header(rng, spec["header"])
    text = assemble(rng, hline, blocks, ctx=ctx)
    case = {"parser": "base", "declares": [impl.base_markers[i] for i in sel], "file": text}
    ctx.case({"k": "base", "sel": sel, "text": common.digest(text)}, nontrivial=any(b.rows for b in blocks))
    for b in blocks:
        ctx.count(f"rows={'0' if not b.rows else '1' if len(b.rows) == 1 else '2-9' if len(b.rows) < 10 else '10+'}")
        ctx.count(f"block:{b.marker}")
    cls = impl.make_base(sel)
    st, p = impl.parse(cls, text)
    model = ask_model(drv, "base", text, sel)
    if st == "raises":
        ctx.violate(f"base:raises:{p.split(':')[0]}:{raise_site(blocks)}", f"well-formed file makes the parser raise {p}", case)
        if model != "RAISES":
            ctx.disagree("base file (model returns, code raises)", case, "value", p)
        return
    it = impl_tree(p)
    if model in ("RAISES", "bad-op"):
        ctx.disagree("base file (model raises, code returns)", case, model, "value")
    else:
        d = tree_diff(model, it)
        if d:
            ctx.disagree("base file", case, d, "")
    # ---- oracle
    for name, e in hexp:
        if not value_matches(e, p.meta.get(name)):
            ctx.violate(f"header:{name}", f"header field {name}: parser returned {p.meta.get(name)!r}, file has {hline!r}", case)
    for b in blocks:
        if b.marker not in p.data:
            ctx.violate(f"{b.marker}:absent", f"block {b.marker} is in the file but not in the result", case)
            continue
        got = p.data[b.marker]
        if b.marker in mats:
            A, lines, tri, typ = mats[b.marker]
            check_matrix(ctx, case, b.marker, got, A, lines, est_i in sel, typ)
        else:
            check_block_values(ctx, case, b.marker, b, got)
    # ---- order independence / foreign blocks: same blocks, other order, no extras
    if rng.random() < 0.5:
        text2 = assemble(rng, hline, blocks, foreign=rng.random() < 0.5)
        st2, p2 = impl.parse(cls, text2)
        if st2 == "raises" or tree_diff(impl_tree(p2), it):
            ctx.violate("order-dependence", "the same blocks in another order / without foreign blocks parse differently",
                        {**case, "file2": text2})
        ctx.count("order-checks")


def raise_site(blocks):
    one = [b.marker for b in blocks if len(b.rows) == 1]
    return "single-row-block" if one else "other"


def check_matrix(ctx, case, marker, got, A, lines, have_size, typ):
    M = np.asarray(got["matrix"])
    n = len(A)
    if not have_size:
        n = max([max(r, c + len(v) - 1) for r, c, v in lines], default=0)
    E = np.array([row[:n] for row in A[:n]], dtype=float).reshape(n, n)
    if M.shape != E.shape:
        ctx.violate(f"matrix:shape:{'size-block' if have_size else 'guessed'}",
                    f"{marker}: expected {E.shape}, got {M.shape}", case)
        return
    if not np.array_equal(M, M.T):
        ctx.violate("matrix:asymmetric", f"{marker}: result is not symmetric", case)
        return
    if not np.array_equal(M, E):
        i, j = np.argwhere(M != E)[0]
        ctx.violate("matrix:entry", f"{marker}: entry ({i + 1},{j + 1}) is {M[i, j]!r}, file says {E[i, j]!r}", case)
        return
    if str(got.get("type", "")) != typ:
        ctx.violate("matrix:type", f"{marker}: type {got.get('type')!r} vs {typ!r}", case)


SITE_ENTRY = {"SITE/ID": "site_id", "SITE/RECEIVER": "site_receiver", "SITE/ANTENNA": "site_antenna",
              "SITE/ECCENTRICITY": "site_eccentricity", "SOLUTION/EPOCHS": "solution_epochs",
              "SOLUTION/ESTIMATE": "solution_estimate", "SOLUTION/DISCONTINUITY": "solution_discontinuity",
              "SOLUTION/EVENT": "solution_event"}


def site_case(ctx, impl, drv, spec, rng, quick, kind):
    allspec = {**spec["official"], **spec["unofficial"]}
    markers = {"site": ["FILE/COMMENT", "SITE/ID", "SITE/RECEIVER", "SITE/ANTENNA", "SITE/ECCENTRICITY",
                        "SOLUTION/EPOCHS", "SOLUTION/ESTIMATE"],
               "disc": ["SOLUTION/DISCONTINUITY"], "events": ["SOLUTION/EVENT"]}[kind]
    nsites = rng.randint(1, 6)
    sites = []
    while len(sites) < nsites:
        s = rnd_text(rng, 4, CODE_CHARS, False, True, False)
        if s.lower() not in [x.lower() for x in sites]:
            sites.append(s)
    blocks = []
    maxrows = 10 if quick else 40
    frame = None
    for m in markers:
        if kind == "site" and rng.random() < 0.2:
            continue
        fields = allspec[m]
        if m == "FILE/COMMENT":
            rows = gen_rows(rng, fields, rng.randint(0, 3))
            if rng.random() < 0.6:
                frame = rnd_text(rng, 8, CODE_CHARS, False, None, False)
                t = f"LOCAL_GEODETIC_DATUM: {frame}"
                rows.insert(rng.randint(0, len(rows)), ([t], [("s", t)]))
            rows = [r for r in rows if not r[0][0].startswith("LOCAL_GEODETIC_DATUM") or r[0][0].startswith("LOCAL_GEODETIC_DATUM:")]
            blocks.append(GenBlock(m, fields, rows))
        elif m == "SITE/ID":
            order = list(sites)
            rng.shuffle(order)
            rows = []
            for s in order:
                r = gen_rows(rng, fields, 1, sites=[s])
                rows += r
            if rows and rng.random() < 0.04:  # the same site code under another point code (legal in SINEX)
                rows += gen_rows(rng, fields, 1, sites=[rng.choice(order)])
            blocks.append(GenBlock(m, fields, rows))
        else:
            nrows = rng.choice([0, 1, 1, 2]) if rng.random() < 0.3 else rng.randint(0, maxrows)
            blocks.append(GenBlock(m, fields, gen_rows(rng, fields, nrows, sites=sites, seq=True)))
    hline, hexp = gen_header(rng, spec["header"])
    text = assemble(rng, hline, blocks, ctx=ctx)
    case = {"parser": kind, "file": text}
    ctx.case({"k": kind, "text": common.digest(text)}, nontrivial=any(b.rows for b in blocks))
    for b in blocks:
        ctx.count(f"{kind}:rows={'0' if not b.rows else '1' if len(b.rows) == 1 else '2+'}")
    st, p = impl.parse(impl.classes[kind], text)
    model = ask_model(drv, kind, text)
    if st == "raises":
        ctx.violate(f"{kind}:raises:{p.split(':')[0]}:{raise_site(blocks)}", f"well-formed file makes the parser raise {p}", case)
        if model != "RAISES":
            ctx.disagree(f"{kind} file (model returns, code raises)", case, "value", p)
        return
    it = impl_tree(p)
    if model in ("RAISES", "bad-op"):
        ctx.disagree(f"{kind} file (model raises, code returns)", case, model, "value")
    else:
        d = tree_diff(model, it)
        if d:
            ctx.disagree(f"{kind} file", case, d, "")
    # ---- oracle: regrouping loses and duplicates no row; every value is the text of its columns
    for b in blocks:
        if b.marker == "FILE/COMMENT":
            continue
        entry = SITE_ENTRY[b.marker]
        names = [f[0] for f in b.fields]
        si = names.index("site_code")
        by_site = {}
        for texts, exps in b.rows:
            by_site.setdefault(texts[si].lower(), []).append((texts, exps))
        got_sites = {s: v[entry] for s, v in p.data.items() if isinstance(v, dict) and entry in v}
        if set(got_sites) != set(by_site):
            ctx.violate(f"{kind}:{entry}:sites", f"{b.marker}: sites written {sorted(by_site)} but returned {sorted(got_sites)}", case)
            continue
        for s, rows in by_site.items():
            got = got_sites[s]
            got = [got] if isinstance(got, dict) else got
            if len(got) != len(rows):
                if entry == "site_id" and not (len(rows) > 1 and len(got) == 1):
                    # theorem site_id_count: records are lost exactly when two records share a (lower-cased) site code, and
                    # then one per code comes back; anything else is not the known finding
                    ctx.violate("site:site_id:lost-record", f"{b.marker} site {s}: {len(rows)} record(s) written with this "
                                f"site code, {len(got)} returned", case)
                    break
                ctx.violate(f"{kind}:{entry}:row-count", f"{b.marker} site {s}: {len(rows)} rows written, {len(got)} returned", case)
                break
            bad = False
            for (texts, exps), g in zip(rows, got):
                for j, name in enumerate(names):
                    if name == "site_code" and kind in ("disc", "events"):
                        continue
                    e = exps[j]
                    gv = g.get(name)
                    if name == "antenna_type" and entry == "site_antenna":
                        full = texts[j].strip()
                        gv2 = g.get("radome_type")
                        if not (isinstance(gv, str) and isinstance(gv2, str) and gv == gv.strip() and gv2 == gv2.strip()
                                and full.startswith(gv) and full.endswith(gv2) and gv.split() + gv2.split() == full.split()):
                            ctx.violate("site:antenna_type:split", f"antenna field {full!r} returned as {gv!r} + radome {gv2!r}",
                                        {**case, "site": s})
                            bad = True
                        continue
                    if not value_matches(e, gv):
                        ctx.violate(f"{kind}:{entry}:{name}:{b.fields[j][3]}",
                                    f"{b.marker} site {s} field {name}: columns hold {texts[j]!r}, parser returned {gv!r}",
                                    {**case, "site": s, "field": name})
                        bad = True
                        break
                if bad:
                    break
                if entry == "solution_estimate" and frame is not None and any(bb.marker == "FILE/COMMENT" for bb in blocks):
                    if g.get("ref_frame") != frame:
                        ctx.violate("site:ref_frame", f"ref_frame {g.get('ref_frame')!r} vs {frame!r} (site {s})", case)
                        bad = True
                        break
            if bad:
                break


def tro_case(ctx, impl, drv, spec, rng, quick):
    tspec = spec["tro"]
    blocks = []
    sites = [rnd_text(rng, 4, CODE_CHARS, False, True, False) for _ in range(rng.randint(1, 5))]
    for m, fields in tspec.items():
        if rng.random() < 0.15:
            continue
        if m == "TROP/DESCRIPTION":
            n = rng.randint(0, 6)
            rows = []
            used = set()
            for r in gen_rows(rng, fields, n):
                kw = r[0][0].strip()
                if len(kw) > 4 and kw not in used and kw not in tspec:
                    used.add(kw)
                    rows.append(r)
            blocks.append(GenBlock(m, fields, rows))
        else:
            n = rng.choice([0, 1, 2]) if rng.random() < 0.3 else rng.randint(0, 10 if quick else 40)
            blocks.append(GenBlock(m, fields, gen_rows(rng, fields, n, sites=sites, seq=True)))
    hline, hexp = gen_header(rng, spec["header"])
    text = assemble(rng, hline, blocks, ctx=ctx)
    case = {"parser": "tro", "file": text}
    ctx.case({"k": "tro", "text": common.digest(text)}, nontrivial=any(b.rows for b in blocks))
    st, p = impl.parse(impl.classes["tro"], text)
    model = ask_model(drv, "tro", text)
    if st == "raises":
        ctx.violate(f"tro:raises:{p.split(':')[0]}:{raise_site(blocks)}", f"well-formed file makes the parser raise {p}", case)
        if model != "RAISES":
            ctx.disagree("tro file (model returns, code raises)", case, "value", p)
        return
    it = impl_tree(p, sort_top=True)
    if model in ("RAISES", "bad-op"):
        ctx.disagree("tro file (model raises, code returns)", case, model, "value")
    else:
        d = tree_diff(model, it)
        if d:
            ctx.disagree("tro file", case, d, "")
    for b in blocks:
        if b.marker in ("FILE/REFERENCE", "TROP/STA_COORDINATES"):
            if b.marker in p.data:
                check_block_values(ctx, case, b.marker, b, p.data[b.marker], "tro:")
            else:
                ctx.violate(f"tro:{b.marker}:absent", f"block {b.marker} missing from the result", case)
        elif b.marker == "TROP/DESCRIPTION":
            for texts, exps in b.rows:
                if str(p.data.get(texts[0].strip())) != texts[1].strip():
                    ctx.violate("tro:description", f"keyword {texts[0]!r}: {p.data.get(texts[0].strip())!r} vs {texts[1]!r}", case)
                    break
        elif b.marker == "TROP/SOLUTION":
            # theorem tro_solution: data[station] is the dictionary of the station's last row, without site_name
            names = [f[0] for f in b.fields]
            si = names.index("site_name")
            last = {}
            for texts, exps in b.rows:
                last[texts[si].strip()] = (texts, exps)
            for sta, (texts, exps) in last.items():
                got = p.data.get(sta)
                if not isinstance(got, dict) or "site_name" in got:
                    ctx.violate("tro:solution:station", f"station {sta!r}: data[station] is {got!r}", case)
                    break
                bad = [n for j, n in enumerate(names) if j != si and not value_matches(exps[j], got.get(n.replace(" ", "_")))]
                if bad:
                    ctx.violate("tro:solution:value", f"station {sta!r} field {bad[0]}: last row has "
                                f"{texts[names.index(bad[0])]!r}, parser returned {got.get(bad[0].replace(' ', '_'))!r}", case)
                    break
            ctx.count("tro:solution-stations", len(last))


def converter_cases(ctx, impl, drv, rng, n):
    """boundary-dense direct comparison of the three converters the statement names"""
    from midgard.parsers._parser_sinex import SinexParser

    class P(SinexParser):
        def setup_parser(self):
            return ()

    with warnings.catch_warnings():
        warnings.simplefilter("ignore")
        p = P("/dev/null")
    lines, metas = [], []
    for _ in range(n):
        k = rng.random()
        if k < 0.45:
            yy = rng.choice([0, 1, 49, 50, 51, 52, 99]) if rng.random() < 0.5 else rng.randint(0, 99)
            ddd = rng.choice([0, 1, 59, 60, 365, 366, 367, 400, 999]) if rng.random() < 0.5 else rng.randint(0, 370)
            sss = rng.choice([0, 1, 86399, 86400, 99999]) if rng.random() < 0.5 else rng.randint(0, 99999)
            t = f"{yy:02d}:{ddd:03d}:{sss:05d}"
            if rng.random() < 0.08:
                t = rng.choice([t[:-1], t[1:], t.replace(":", " ", 1), "", t + "0", t[:6], " " + t[1:]])
            metas.append(("epoch", "obj", t))
        elif k < 0.75:
            t, _ = exp_text(rng, rng.choice([11, 21]))
            if rng.random() < 0.1:
                t = rng.choice([t.replace("E", "d"), t + "x", "", t.replace(".", ""), "1", "-0.0", "+5E1"])
            metas.append(("exponent", "f8", t))
        else:
            t, _ = dms_text(rng)
            if rng.random() < 0.15:
                t = rng.choice([" -0  0  0.0", "-0 30 00.0", "0 -6 46.0", "12 30", "", "1 2 3 4", "+0 59 59.9", t + " "])
            metas.append(("dms2deg", "f8", t))
    for c, dt, t in metas:
        lines.append(f"c14 cell {c} {dt} {hexs(t)}")
    ans = drv.ask(lines)
    for (c, dt, t), a in zip(metas, ans):
        case = {"converter": c, "text": t}
        ctx.case(case)
        ctx.count(f"conv:{c}")
        f = getattr(p, f"_convert_{c}")
        try:
            r = cell_tree(f(t.encode()))
        except ValueError:
            r = None if dt == "obj" else {"f": "nan"}
        except Exception as e:  # noqa: BLE001
            r = f"ERR:{type(e).__name__}"
        m = model_tree(json.loads(a)) if a != "bad-op" else a
        d = tree_diff(m, r, loose=(c == "dms2deg"))
        if d:
            ctx.disagree(f"converter {c}", case, m, r)
        # oracle on the well-formed ones
        if c == "epoch" and len(t) == 12 and t[2] == ":" and t[6] == ":" and t.replace(":", "").isdigit():
            yy, ddd, sss = int(t[:2]), int(t[3:6]), int(t[7:])
            year = 2000 + yy if yy <= 50 else 1900 + yy
            leap = year % 4 == 0 and (year % 100 != 0 or year % 400 == 0)
            if t == "00:000:00000":
                if r is not None:
                    ctx.violate("epoch:open", f"00:000:00000 gave {r}", case)
            elif 1 <= ddd <= 365 + leap and sss < 86400:
                e = datetime(year, 1, 1) + timedelta(days=ddd - 1, seconds=sss)
                if r != cell_tree(e):
                    ctx.violate("epoch:pivot", f"{t} gave {r}, expected {e}", case)
        if c == "exponent" and "D" in t and r not in (None,) and isinstance(r, dict):
            try:
                e = float(t.replace("D", "E"))
                if r != cell_tree(e):
                    ctx.violate("exponent:D", f"{t} gave {r}, expected {e}", case)
            except ValueError:
                pass


def run(ctx: Ctx):
    from translator import extract_sinex

    changed = extract_sinex.main()
    ctx.extra["tables_regenerated"] = bool(changed)
    ctx.proof = common.prove("C14")
    drv = ctx.driver
    rng = ctx.rng
    spec = load_spec(drv)
    impl = Impl()
    quick = not ctx.thorough
    ctx.rule = ("files rendered by an independent writer whose columns come from Spec/Sinex202.lean (typed from the "
                "standard), values per field kind (text incl. full width and inner blanks, integers, fixed/E/D reals, "
                "epochs 1951-2050 incl. 00:000:00000, dms incl. -0), 0..40 rows per block, blocks shuffled with "
                "foreign blocks and * comments interleaved, matrices n=1..12 L/U with 1-3 values per line and "
                "omitted zeros, with and without the size block declared; base-class parsers over random "
                "selections of all official blocks, plus the site / discontinuities / events / tro parsers, now and then a "
                "block given twice; SINEX-TMS files (header, FILE/REFERENCE, four site blocks, REF_COORDINATE, COLUMNS, DATA in "
                "whitespace mode with 0..60 records of 1..14 tokens, lines with and without trailing blanks, ragged and "
                "single-column data, invalid first line) for SinexTmsParser; targeted np.genfromtxt probes (fixed-width cutting "
                "on random start tables with short/long/whitespace/#/blank-only lines, dtype and converter conversions of edge "
                "texts, whitespace mode) against the real function with the kwargs of the real parse_lines; "
                "a case is non-trivial when some block has rows; distinct by file text")
    ctx.trusted += ["np.genfromtxt fixed-width splitting / autostrip / loose converter calls are modelled, not verified; the assumed "
                    "behaviours G1..G12, W1..W4 (extra.genfromtxt_assumptions) are each probed against the real function in every run",
                    "Spec/Sinex202.lean columns typed from the SINEX 2.02 document",
                    "float(text) is compared with the correctly rounded double of the model's exact rational"]
    ctx.assumptions += ["ASCII text",
                        "SITE/GAL_PHASE_CENTER (empty field table, TODO in the source) is not exercised",
                        "sinex_tms: lines are LF-terminated; TIMESERIES/DATA tokens are decimal numbers or text that no numeral "
                        "matches (inf/nan/underscore/hex numerals and numeric tokens in a text column are outside the model)",
                        "SINEX-TMS has no published standard: the writer's columns are typed from the example records in the doc "
                        "strings of sinex_tms.py"]
    try:
        corpus = sorted((common.VERIF / "corpus" / "C14").glob("*.json"))
        for f in corpus:
            replay_case(ctx, impl, drv, json.loads(f.read_text()))
        converter_cases(ctx, impl, drv, rng, ctx.budget(2000, 20000))
        me = sys.modules[__name__]
        c14_tms.genfromtxt_cases(ctx, impl, drv, rng, ctx.budget(400, 5000), me)
        for _ in range(ctx.budget(250, 2500)):
            c14_tms.tms_case(ctx, impl, drv, rng, quick, me)
        nb = ctx.budget(400, 4400)
        for _ in range(nb):
            base_case(ctx, impl, drv, spec, rng, quick)
        for kind, n in (("site", ctx.budget(200, 2200)), ("disc", ctx.budget(60, 800)), ("events", ctx.budget(60, 800))):
            for _ in range(n):
                site_case(ctx, impl, drv, spec, rng, quick, kind)
        for _ in range(ctx.budget(120, 1200)):
            tro_case(ctx, impl, drv, spec, rng, quick)
    finally:
        impl.cleanup()
    ctx.traces = ctx.evaluations


def replay_case(ctx, impl, drv, payload):
    c = payload.get("replay", payload)
    if "file" not in c:
        return
    kind = c.get("parser", "base")
    if kind == "base":
        sel = [impl.base_markers.index(m) for m in c["declares"]]
        st, p = impl.parse(impl.make_base(sel), c["file"])
        model = ask_model(drv, "base", c["file"], sel)
    elif kind == "tms":
        from midgard.parsers.sinex_tms import SinexTmsParser

        st, p = impl.parse(SinexTmsParser, c["file"])
        model = ask_model(drv, "tms", c["file"])
    else:
        st, p = impl.parse(impl.classes[kind], c["file"])
        model = ask_model(drv, kind, c["file"])
    ctx.case({"corpus": common.digest(c)})
    ctx.count("corpus")
    if st == "raises":
        ctx.violate(f"{kind}:raises:{p.split(':')[0]}:corpus", f"corpus file makes the parser raise {p}", c)
        return
    it = c14_tms.tms_tree(sys.modules[__name__], p) if kind == "tms" else impl_tree(p, sort_top=(kind == "tro"))
    d = tree_diff(model, it) if model not in ("RAISES", "bad-op") else "model raises"
    for key, want in (c.get("expect") or {}).items():  # value-level expectations recorded with the corpus file
        got = p.data
        for part in key.split("/"):
            got = got[part] if isinstance(got, dict) else got[int(part)]
        got = [x.item() if hasattr(x, "item") else x for x in got] if hasattr(got, "__len__") and not isinstance(got, str) else got
        if got != want:
            ctx.violate(f"{kind}:corpus:{key}", f"corpus file: {key} is {got!r}, the file says {want!r}", c)
    if d:
        ctx.disagree(f"{kind} file (corpus)", c, d, "")


def replay(payload):
    ctx = Ctx("C14", "quick", 0)
    impl = Impl()
    try:
        replay_case(ctx, impl, ctx.driver, payload)
    finally:
        impl.cleanup()
    c = payload.get("replay", payload)
    print("key:", payload.get("key"), "|", payload.get("what"))
    for v in ctx.violations:
        print("VIOLATION (replayed):", v.key, v.what)
    for d in ctx.corr_broken:
        print("DISAGREEMENT (replayed):", d["correspondence"], d["model"])
    if not ctx.violations and not ctx.corr_broken:
        print("replayed input parses without exception and agrees with the model"
              " (value-level oracles need the generating record: re-run ./check C14 with the recorded seed)")
    return 1 if ctx.violations else 0
