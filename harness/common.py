"""Shared machinery of every check (see DESIGN.md §2).

A check is   translate → prove (lake build + axiom audit) → correspond (model vs code)
            → oracle (property stated directly on the real code) → decide → evidence.

Exit codes: 0 property held on everything explored; 1 VIOLATION printed; 2 tool failure/timeouts.
"""
from __future__ import annotations

import fcntl
import hashlib
import json
import os
import random
import re
import subprocess
import sys
import time
from fractions import Fraction
from pathlib import Path
from typing import Any, Callable, Dict, Iterable, List, Optional, Sequence, Tuple

VERIF = Path(__file__).resolve().parent.parent
LEAN = VERIF / "lean"
REPO = Path(os.environ.get("MIDGARD_REPO", "/repo"))
# runs against a scratch tree (MIDGARD_REPO set, seed verification) write their evidence elsewhere: the committed
# evidence always describes /repo itself
EVIDENCE = Path(os.environ["VERIF_EVIDENCE_DIR"]) if os.environ.get("VERIF_EVIDENCE_DIR") else VERIF / "evidence"
REPLAYS = EVIDENCE / "replays"
KNOWN = VERIF / "known_findings.txt"
BIN = LEAN / ".lake" / "build" / "bin"
GUARD = "MIDGARD_VERIF"

ADMISSIBLE_AXIOMS = {"propext", "Classical.choice", "Quot.sound"}
FORBIDDEN = re.compile(
    r"\bsorry\b|\badmit\b|^\s*axiom\s|native_decide|bv_decide|implemented_by|\bunsafe\s|maxHeartbeats\s+0"
)

# ---------------------------------------------------------------------------------------------
# small utilities


def frac(x) -> Fraction:
    """exact rational of a Python/NumPy number"""
    if isinstance(x, Fraction):
        return x
    if isinstance(x, int):
        return Fraction(x)
    return Fraction(float(x))


def rs(q) -> str:
    """rational → protocol text"""
    q = frac(q)
    return str(q.numerator) if q.denominator == 1 else f"{q.numerator}/{q.denominator}"


def pr(s: str) -> Fraction:
    return Fraction(s)


def hexs(s: str) -> str:
    return s.encode("utf-8").hex() if s else "."


def unhex(s: str) -> str:
    return "" if s == "." else bytes.fromhex(s).decode("utf-8")


def canon(obj: Any) -> str:
    return json.dumps(obj, sort_keys=True, default=str)


def digest(obj: Any) -> str:
    return hashlib.sha1(canon(obj).encode()).hexdigest()[:12]


class ToolFailure(Exception):
    pass


# ---------------------------------------------------------------------------------------------
# Lean side


class lake_lock:
    def __enter__(self):
        self.f = open(VERIF / ".lock-lake", "w")
        fcntl.flock(self.f, fcntl.LOCK_EX)
        return self

    def __exit__(self, *a):
        fcntl.flock(self.f, fcntl.LOCK_UN)
        self.f.close()


def lake_build(targets: Sequence[str], timeout: int = 1500) -> Tuple[bool, str]:
    """Build the given modules/targets (and always the driver). Returns (ok, log)."""
    with lake_lock():
        cmd = ["lake", "build", *targets]
        try:
            p = subprocess.run(cmd, cwd=LEAN, capture_output=True, text=True, timeout=timeout)
        except subprocess.TimeoutExpired:
            raise ToolFailure(f"lake build timed out: {cmd}")
        return p.returncode == 0, p.stdout + p.stderr


AX_RE = re.compile(r"'(\S+)' depends on axioms: \[([^\]]*)\]")
AX_NONE_RE = re.compile(r"'(\S+)' does not depend on any axioms")


def parse_axioms(log: str) -> Dict[str, List[str]]:
    out: Dict[str, List[str]] = {}
    for m in AX_RE.finditer(log):
        out[m.group(1)] = [a.strip() for a in m.group(2).split(",") if a.strip()]
    for m in AX_NONE_RE.finditer(log):
        out[m.group(1)] = []
    return out


def lean_sources_for(module: str) -> List[Path]:
    """transitive project-local imports of a module (for the forbidden-token grep)"""
    seen: Dict[str, Path] = {}
    todo = [module]
    while todo:
        m = todo.pop()
        if m in seen:
            continue
        p = LEAN / (m.replace(".", "/") + ".lean")
        if not p.exists():
            continue
        seen[m] = p
        for line in p.read_text().splitlines():
            mm = re.match(r"\s*import\s+((?:Midgard|Driver)[\w.]*)", line)
            if mm:
                todo.append(mm.group(1))
    return list(seen.values())


def strip_comments(text: str) -> str:
    text = re.sub(r"/-.*?-/", "", text, flags=re.S)
    return re.sub(r"--.*", "", text)


def theorem_names(path: Path) -> List[str]:
    """fully qualified names of the `theorem`s declared in a Props file"""
    text = strip_comments(path.read_text())
    ns: List[str] = []
    names = []
    for line in text.splitlines():
        m = re.match(r"\s*namespace\s+([\w.]+)", line)
        if m:
            ns.append(m.group(1))
            continue
        m = re.match(r"\s*end\s+([\w.]+)", line)
        if m and ns and ns[-1] == m.group(1):
            ns.pop()
            continue
        m = re.match(r"\s*(?:@\[[^\]]*\]\s*)?(?:private\s+|protected\s+)?theorem\s+([\w.'?!]+)", line)
        if m:
            names.append(".".join(ns + [m.group(1)]))
    return names


class ProofResult:
    def __init__(self):
        self.ok = False
        self.obligations = 0
        self.discharged = 0
        self.theorems: List[str] = []
        self.failed: List[str] = []  # names / reasons
        self.log_tail = ""
        self.axioms: Dict[str, List[str]] = {}
        self.checker_cmd = ""
        self.leanchecker: Dict[str, Any] = {}


def module_of(path: Path) -> str:
    return ".".join(path.relative_to(LEAN).with_suffix("").parts)


def leancheck(module: str, jobs: int = 12, timeout: int = 3000) -> Tuple[bool, Dict[str, Any]]:
    """independent re-check of the compiled .olean files of `module` and every project-local module it imports
    with the toolchain's `leanchecker` (replays every declaration through the kernel)"""
    from concurrent.futures import ThreadPoolExecutor

    mods = sorted(module_of(p) for p in lean_sources_for(module))
    t0 = time.time()

    def one(m):
        try:
            p = subprocess.run(["lake", "env", "leanchecker", m], cwd=LEAN, capture_output=True, text=True, timeout=timeout)
            return m, p.returncode, (p.stdout + p.stderr)[-300:]
        except subprocess.TimeoutExpired:
            return m, 124, "timeout"

    with ThreadPoolExecutor(max_workers=jobs) as ex:
        res = list(ex.map(one, mods))
    bad = [(m, rc, out) for m, rc, out in res if rc != 0]
    return not bad, {"modules": len(mods), "failed": [f"{m}: exit {rc} {out}" for m, rc, out in bad][:5], "wall_s": round(time.time() - t0, 1)}


def prove(prop: str, extra_targets: Sequence[str] = (), tier: Optional[str] = None) -> ProofResult:
    """lake build Midgard.Props.<prop> (+driver), audit axioms and forbidden tokens; in the thorough tier also
    re-check the compiled modules with leanchecker."""
    r = ProofResult()
    module = f"Midgard.Props.{prop}"
    targets = [module, f"drv_{prop.lower()}", *extra_targets]
    r.checker_cmd = "cd lean && lake build " + " ".join(targets)
    ok, log = lake_build(targets)
    r.log_tail = "\n".join([l for l in log.splitlines() if not l.startswith("info:") or "error" in l][-40:])
    props_file = LEAN / "Midgard" / "Props" / f"{prop}.lean"
    r.theorems = theorem_names(props_file)
    r.obligations = len(r.theorems)
    r.axioms = parse_axioms(log)
    for src in lean_sources_for(module):
        body = strip_comments(src.read_text())
        for i, line in enumerate(body.splitlines(), 1):
            if FORBIDDEN.search(line):
                r.failed.append(f"forbidden token in {src.relative_to(LEAN)}: {line.strip()[:80]}")
    for t in r.theorems:
        ax = r.axioms.get(t)
        if ax is None:
            r.failed.append(f"{t}: no '#print axioms' line (theorem did not check or is not audited)")
        elif not set(ax) <= ADMISSIBLE_AXIOMS:
            r.failed.append(f"{t}: inadmissible axioms {sorted(set(ax) - ADMISSIBLE_AXIOMS)}")
        else:
            r.discharged += 1
    if not ok:
        errs = [l for l in log.splitlines() if l.startswith("error:")]
        r.failed.append("lake build failed: " + " | ".join(errs[:6]))
    tier = tier or os.environ.get("VERIF_TIER_EFFECTIVE")
    if ok and not r.failed and tier == "thorough":
        lc_ok, info = leancheck(module)
        r.leanchecker = info
        if not lc_ok:
            r.failed.append("leanchecker rejected: " + "; ".join(info["failed"]))
    r.ok = ok and not r.failed and r.obligations > 0
    return r


class Driver:
    """The compiled Lean model behind its line protocol."""

    def __init__(self, prop: str):
        exe = BIN / f"drv_{prop.lower()}"
        if not exe.exists():
            ok, log = lake_build([f"drv_{prop.lower()}"])
            if not ok:
                raise ToolFailure("driver does not build:\n" + log[-2000:])
        self.p = subprocess.Popen(
            [str(exe)], stdin=subprocess.PIPE, stdout=subprocess.PIPE, text=True, bufsize=1 << 16
        )

    def ask(self, lines: Sequence[str]) -> List[str]:
        """send lines, read as many answers (the writing happens in a thread: both pipes are bounded, so writing a
        large batch while the driver is blocked on its own full output pipe would deadlock)"""
        if not lines:
            return []
        import threading

        out: List[str] = []
        CH = 2000
        for i in range(0, len(lines), CH):
            chunk = lines[i : i + CH]
            for l in chunk:
                assert "\n" not in l
            payload = "\n".join(chunk) + "\nflush\n"
            err: List[BaseException] = []

            def _write(data=payload):
                try:
                    self.p.stdin.write(data)
                    self.p.stdin.flush()
                except BaseException as e:  # broken pipe etc.
                    err.append(e)

            th = threading.Thread(target=_write, daemon=True)
            th.start()
            for _ in chunk:
                a = self.p.stdout.readline()
                if not a:
                    raise ToolFailure("driver died")
                out.append(a.rstrip("\n"))
            f = self.p.stdout.readline().rstrip("\n")
            th.join()
            if err:
                raise ToolFailure(f"driver write failed: {err[0]}")
            if f != "flushed":
                raise ToolFailure(f"driver protocol out of step: {f!r}")
        return out

    def ask1(self, line: str) -> str:
        return self.ask([line])[0]

    def close(self):
        try:
            self.p.stdin.close()
            self.p.wait(timeout=5)
        except Exception:
            self.p.kill()


# ---------------------------------------------------------------------------------------------
# known findings


def load_known(prop: str) -> Tuple[List[Tuple[str, str]], List[str]]:
    """returns ([(key, description)] for `finding:` lines of this property, [fixed lines])"""
    findings, fixed = [], []
    if KNOWN.exists():
        for line in KNOWN.read_text().splitlines():
            line = line.strip()
            if not line or line.startswith("#"):
                continue
            m = re.match(r"finding:\s+property=(\w+)\s+key=(\S+)\s*(.*)", line)
            if m and m.group(1) == prop:
                findings.append((m.group(2), m.group(3)))
            m = re.match(r"fixed:\s+property=(\w+)\s+(.*)", line)
            if m and m.group(1) == prop:
                fixed.append(m.group(2))
    return findings, fixed


# ---------------------------------------------------------------------------------------------
# the check context


class Violation:
    def __init__(self, key: str, what: str, replay: Any, found_input: bool = True):
        self.key = key  # stable identity: call site / kind of failing input
        self.what = what
        self.replay = replay
        self.found_input = found_input


class Ctx:
    def __init__(self, prop: str, tier: str, seed: int):
        self.prop = prop
        self.tier = tier
        self.seed = seed
        self.rng = random.Random(seed * 1000003 + int(prop[1:]))
        self.t0 = time.time()
        self.thorough = tier == "thorough"
        self.violations: List[Violation] = []
        self._vkeys: set = set()
        self.corr_broken: List[Dict[str, Any]] = []  # model/impl disagreements (not yet judged)
        self.evaluations = 0
        self.traces = 0
        self.nontrivial: set = set()
        self.samples: List[Any] = []
        self.hist: Dict[str, int] = {}
        self.assumptions: List[str] = []
        self.trusted: List[str] = []
        self.rule = ""
        self.extra: Dict[str, Any] = {}
        self._driver: Optional[Driver] = None
        self.proof: Optional[ProofResult] = None

    # budget helper: n for quick, n*mult for thorough
    def budget(self, quick: int, thorough: Optional[int] = None) -> int:
        if self.thorough:
            return thorough if thorough is not None else quick * 50
        return quick

    @property
    def driver(self) -> Driver:
        if self._driver is None:
            self._driver = Driver(self.prop)
        return self._driver

    def count(self, key: str, n: int = 1):
        self.hist[key] = self.hist.get(key, 0) + n

    def case(self, case: Any, nontrivial: bool = True):
        """register one explored case (canonical form) for the coverage counts"""
        self.evaluations += 1
        if nontrivial:
            self.nontrivial.add(digest(case))
        if len(self.samples) < 6 and self.rng.random() < 0.2 or not self.samples:
            self.samples.append(case)

    def disagree(self, name: str, case: Any, model: Any, impl: Any):
        """model and implementation differ on `case` (a broken correspondence, to be judged)"""
        if len(self.corr_broken) < 50:
            self.corr_broken.append({"correspondence": name, "case": case, "model": model, "impl": impl})
        self.count("disagreements")

    def violate(self, key: str, what: str, replay: Any):
        # one entry per stable key (the cap must not hide other keys behind many hits of one)
        if key not in self._vkeys and len(self.violations) < 200:
            self._vkeys.add(key)
            self.violations.append(Violation(key, what, replay))
        self.count("oracle_failures")
        self.count("oracle_failure:" + key)


def write_replay(ctx: Ctx, name: str, payload: Dict[str, Any]) -> Path:
    REPLAYS.mkdir(parents=True, exist_ok=True)
    path = REPLAYS / f"{ctx.prop}-{name}-{digest(payload)}.json"
    path.write_text(json.dumps(payload, indent=1, default=str))
    return path


def finish(ctx: Ctx, level: str = "proof") -> int:
    """decide, print VIOLATION / KNOWN-FINDING lines, write evidence, return exit code"""
    pr_ = ctx.proof
    findings, fixed = load_known(ctx.prop)
    lines: List[str] = []
    exit_code = 0
    reported = 0

    # 1. oracle failures on the real code: genuine violations with a replay
    seen_keys = set()
    for v in ctx.violations:
        if v.key in seen_keys:
            continue
        seen_keys.add(v.key)
        known = [f for f in findings if f[0] == v.key]
        if known:
            lines.append(f"KNOWN-FINDING: property={ctx.prop} {v.key} {known[0][1]}")
            continue
        path = write_replay(ctx, "oracle", {"property": ctx.prop, "key": v.key, "what": v.what,
                                             "replay": v.replay, "seed": ctx.seed, "tier": ctx.tier})
        lines.append(f"VIOLATION property={ctx.prop} replay={path}")
        lines.append(f"  what: {v.what}")
        reported += 1
        exit_code = 1

    # 2. broken proof obligation or broken correspondence without an oracle failure
    broken: List[str] = []
    if pr_ is not None and not pr_.ok:
        broken += [f"theorem/obligation: {f}" for f in pr_.failed] or ["theorem/obligation: lake build failed"]
    if ctx.corr_broken:
        names = sorted({d["correspondence"] for d in ctx.corr_broken})
        broken += [f"correspondence: {n}" for n in names]
    # a known finding explains oracle failures with its own key only: a theorem or correspondence that no longer
    # checks is reported even when known findings were printed
    if broken and reported == 0:
        path = write_replay(ctx, "broken", {
            "property": ctx.prop, "no_longer_checks": broken,
            "disagreements": ctx.corr_broken[:10],
            "build_log_tail": pr_.log_tail if pr_ is not None else "",
            "note": "the property oracle found no failing input on the real code within this run's budget",
            "seed": ctx.seed, "tier": ctx.tier})
        lines.append(f"VIOLATION property={ctx.prop} replay={path} no-failing-input-found")
        exit_code = 1

    coverage: Dict[str, Any] = {
        "obligations": pr_.obligations if pr_ else 0,
        "discharged": pr_.discharged if pr_ else 0,
        "checker_cmd": pr_.checker_cmd if pr_ else "",
        "trusted_base": ["Lean 4.33.0 kernel", "axioms: propext, Classical.choice, Quot.sound only (audited by #print axioms on every theorem)",
                         "correspondence harness (harness/%s.py) and line-protocol driver" % ctx.prop.lower()] + ctx.trusted,
        "theorems": pr_.theorems if pr_ else [],
        "leanchecker": (pr_.leanchecker if pr_ else {}) or "not run in this tier (thorough tier re-checks every project module with leanchecker)",
        "proof_failures": pr_.failed if pr_ else [],
        "evaluations": ctx.evaluations,
        "distinct_nontrivial": len(ctx.nontrivial),
        "traces_validated_against_impl": ctx.traces,
        "rule": ctx.rule,
        "samples": ctx.samples[:6] or ["(no correspondence cases this run)"],
        "distribution": ctx.hist,
        "disagreements": len(ctx.corr_broken),
        "disagreement_samples": ctx.corr_broken[:5],
        "oracle_failure_samples": [{"key": v.key, "what": v.what, "replay": v.replay} for v in ctx.violations[:5]],
        "oracle_failures": len(ctx.violations),
        "known_findings_listed": [f[0] for f in findings],
        "fixed_entries": fixed,
    }
    coverage.update(ctx.extra)
    ev = {
        "property_id": ctx.prop,
        "tier": ctx.tier,
        "seed": ctx.seed,
        "level": level,
        "coverage": coverage,
        "assumptions": ctx.assumptions,
        "wall_s": round(time.time() - ctx.t0, 2),
        "violations": reported + (1 if (exit_code == 1 and reported == 0) else 0),
    }
    EVIDENCE.mkdir(exist_ok=True)
    tmp = EVIDENCE / f".{ctx.prop}.json.tmp"
    tmp.write_text(json.dumps(ev, indent=1, default=str))
    tmp.replace(EVIDENCE / f"{ctx.prop}.json")
    for l in lines:
        print(l)
    print(f"{ctx.prop} [{ctx.tier} seed={ctx.seed}] obligations={coverage['obligations']} discharged={coverage['discharged']} "
          f"cases={ctx.evaluations} distinct_nontrivial={len(ctx.nontrivial)} disagreements={len(ctx.corr_broken)} "
          f"oracle_failures={len(ctx.violations)} wall={ev['wall_s']}s -> exit {exit_code}")
    if ctx._driver:
        ctx._driver.close()
    return exit_code
