"""C20 — midgard.math.spatial_interpolation and midgard.math.planetary_motion: defining identities.

spatial_interpolation.interpolate(grid_x, grid_y, values, x, y, kind=...) on rectangular grids (x increasing along the
columns, y decreasing down the rows, as the module expects):
  oracle, every interpolator: the node values are reproduced; the result is linear in the values; an array of
  positions gives the values of the single positions; a position outside the grid is refused; integer-typed grids /
  values / positions give the result of their float64 copies; the class of functions the method reproduces exactly
  (regular_grid_interpolator: c0 + c1 x + c2 y + c3 xy; griddata(linear): planes; rect_bivariate_spline: tensor cubics)
  correspondence: regular_grid_interpolator vs the Lean model regularGrid (bilinear); rect_bivariate_spline vs the
  not-a-knot spline model applied along x and then along y (two driver calls)

planetary_motion.gsdtime_sun / findsun on scalar and array epochs:
  correspondence: gstr vs the Lean model gmstAngle with the constants the translator read from the source
  oracle: ranges; gstr advances by 360 deg per day of day fraction and by the tabulated rate from one day to the next;
  right ascension / declination are the equatorial direction of the ecliptic longitude (cos d cos a = cos l,
  (cos d sin a, sin d) = sin l (cos e, sin e) with e the obliquity ~ 23.4 deg); |findsun| = AU and findsun is the
  equatorial vector turned by gstr about the third axis; an array of epochs gives the rows of the single epochs
"""
from __future__ import annotations

import math
import warnings
from fractions import Fraction

import numpy as np

from . import c20_types as T

AU = 1.49597870e8


def _fl(v):
    return float(v).hex()


def _hx(v):
    return float.fromhex(v) if isinstance(v, str) else float(v)


def call_spatial(kind, gx, gy, vals, x, y, **kw):
    from midgard.math import spatial_interpolation as sp

    with warnings.catch_warnings():
        warnings.simplefilter("ignore")
        r = sp.interpolate(gx, gy, vals, x, y, kind=kind, **kw)
    return np.atleast_1d(np.asarray(r, dtype=float)).ravel()


def gen_grid(rng):
    nx, ny = rng.randint(4, 8), rng.randint(4, 8)
    c = rng.random()
    if c < 0.35:
        xs = rng.uniform(-50, 50) + 10 ** rng.uniform(-1, 1) * np.arange(nx)
        ys = rng.uniform(-50, 50) + 10 ** rng.uniform(-1, 1) * np.arange(ny)
        fl_ = "uniform"
    elif c < 0.6:
        xs = np.cumsum([float(rng.randint(-20, 20))] + [float(rng.randint(1, 4)) for _ in range(nx - 1)])
        ys = np.cumsum([float(rng.randint(-20, 20))] + [float(rng.randint(1, 4)) for _ in range(ny - 1)])
        fl_ = "integer"
    else:
        xs = rng.uniform(-10, 10) + np.cumsum([rng.uniform(0.3, 3) for _ in range(nx)])
        ys = rng.uniform(-10, 10) + np.cumsum([rng.uniform(0.3, 3) for _ in range(ny)])
        fl_ = "random"
    return np.asarray(xs, dtype=float), np.asarray(ys, dtype=float), fl_


def gen_points(rng, xs, ys, k):
    px, py = [], []
    for _ in range(k):
        c = rng.random()
        if c < 0.25:
            px.append(float(xs[rng.randrange(len(xs))])); py.append(float(ys[rng.randrange(len(ys))]))      # a node
        elif c < 0.4:
            px.append(float(xs[rng.randrange(len(xs))])); py.append(rng.uniform(float(ys[0]), float(ys[-1])))   # on a grid line
        elif c < 0.5:
            px.append(float(rng.choice([xs[0], xs[-1]]))); py.append(float(rng.choice([ys[0], ys[-1]])))      # a corner
        else:
            px.append(rng.uniform(float(xs[0]), float(xs[-1]))); py.append(rng.uniform(float(ys[0]), float(ys[-1])))
    return np.array(px), np.array(py)


EXACT = {"regular_grid_interpolator": "bilinear", "griddata": "plane", "rect_bivariate_spline": "bicubic"}


def exact_function(rng, cls, xs, ys):
    """a function of the class the method reproduces, normalised to the grid: returns f(x, y) on arrays"""
    x0, xr, y0, yr = float(xs[0]), float(xs[-1] - xs[0]), float(ys[0]), float(ys[-1] - ys[0])
    if cls == "plane":
        co = [rng.uniform(-3, 3) for _ in range(3)]
        return (lambda x, y: co[0] + co[1] * (x - x0) / xr + co[2] * (y - y0) / yr), co
    if cls == "bilinear":
        co = [rng.uniform(-3, 3) for _ in range(4)]
        return (lambda x, y: co[0] + co[1] * (x - x0) / xr + co[2] * (y - y0) / yr + co[3] * (x - x0) / xr * (y - y0) / yr), co
    co = [[rng.uniform(-2, 2) for _ in range(4)] for _ in range(4)]
    return (lambda x, y: sum(co[i][j] * ((x - x0) / xr) ** i * ((y - y0) / yr) ** j for i in range(4) for j in range(4))), co


def spatial_part(ctx, H, drv):
    from midgard.math import spatial_interpolation as sp

    rng = ctx.rng
    kinds = sp.interpolators()
    want = ["griddata", "rect_bivariate_spline", "regular_grid_interpolator"]
    if kinds != want:
        ctx.disagree("spatial interpolator registry", {"registered": kinds}, want, kinds)
    for ci in range(ctx.budget(40, 500)):
        for kind in want:
            with H.guard(ctx, "spatial"):
                xs, ys, flv = gen_grid(rng)
                gx, gy = np.meshgrid(xs, ys[::-1])            # x increasing along columns, y decreasing down the rows
                mode = rng.choice(["exact", "exact", "random"])
                if mode == "exact":
                    f, co = exact_function(rng, EXACT[kind], xs, ys)
                    vals = f(gx, gy)
                else:
                    f, co = None, None
                    vals = np.array([[rng.uniform(-1, 1) for _ in range(len(xs))] for _ in range(len(ys))]) * 10 ** rng.uniform(-2, 4)
                    if flv == "integer":
                        vals = np.round(vals)
                k = rng.randint(1, 5)
                px, py = gen_points(rng, xs, ys, k)
                dts = {"grid": T.pick_dtype(rng, np.concatenate([xs, ys]), T.INT_DT, keep64=0.3),
                       "values": T.pick_dtype(rng, vals, T.INT_DT + ["float32"], keep64=0.3)}
                case = {"part": "spatial", "kind": kind, "flavour": flv, "mode": mode, "dtypes": dts, "xs": [_fl(v) for v in xs],
                        "ys": [_fl(v) for v in ys], "values": [[_fl(v) for v in r_] for r_ in vals], "px": [_fl(v) for v in px],
                        "py": [_fl(v) for v in py]}
                if co is not None:
                    case["coeffs"] = co
                ctx.case(case)
                ctx.count(f"spatial:{kind}:{mode}")
                ctx.count(f"spatial:grid={T.dtclass(dts['grid'])},values={T.dtclass(dts['values'])}")
                check_spatial(ctx, H, case, f, drv)


def check_spatial(ctx, H, case, f=None, drv=None):
    kind, dts = case["kind"], case["dtypes"]
    xs = np.array([_hx(v) for v in case["xs"]]); ys = np.array([_hx(v) for v in case["ys"]])
    vals = np.array([[_hx(v) for v in r_] for r_ in case["values"]])
    px = np.array([_hx(v) for v in case["px"]]); py = np.array([_hx(v) for v in case["py"]])
    gx, gy = np.meshgrid(xs, ys[::-1])
    k = len(px)
    rng = ctx.rng
    scale = float(np.max(np.abs(vals))) + 1e-300
    ratio = max(float(np.max(np.diff(xs)) / np.min(np.diff(xs))), float(np.max(np.diff(ys)) / np.min(np.diff(ys))))
    amp = 1.0 + max(float(np.max(np.abs(xs)) / np.min(np.diff(xs))), float(np.max(np.abs(ys)) / np.min(np.diff(ys))))
    tol = 1e-12 * amp * scale * (1.0 if kind != "rect_bivariate_spline" else 100 * ratio ** 4)

    def call(v, x, y):
        return call_spatial(kind, gx, gy, v, x, y)

    try:
        r0 = call(vals, px, py)
        if r0.shape != (k,) or not np.all(np.isfinite(r0)):
            H.V(ctx, f"spatial:{kind}:result", f"{kind} returns {r0.tolist()} for {k} positions inside the grid", case)
            return
        # 1. the grid nodes
        ii = [(rng.randrange(len(ys)), rng.randrange(len(xs))) for _ in range(4)] + [(0, 0), (len(ys) - 1, len(xs) - 1)]
        rn = call(vals, np.array([gx[a, b] for a, b in ii]), np.array([gy[a, b] for a, b in ii]))
        wn = np.array([vals[a, b] for a, b in ii])
        if not np.all(np.abs(rn - wn) <= tol):
            H.V(ctx, f"spatial:{kind}:nodes", f"{kind} does not reproduce the values at the grid nodes (error {float(np.max(np.abs(rn - wn))):.3e}, scale {scale:.3e})", case)
        # 2. linear in the values
        a, b = rng.uniform(-2, 2), rng.uniform(-2, 2)
        z = np.array([[rng.uniform(-1, 1) for _ in range(len(xs))] for _ in range(len(ys))]) * scale
        rz, rl = call(z, px, py), call(a * vals + b * z, px, py)
        if not np.all(np.abs(rl - (a * r0 + b * rz)) <= 8 * tol):
            H.V(ctx, f"spatial:{kind}:linearity", f"{kind} is not linear in the values (defect {float(np.max(np.abs(rl - (a * r0 + b * rz)))):.3e})", case)
        # 3. an array of positions = the single positions, in any scalar form
        for j in range(k):
            form = rng.choice(["float", "np.float64", "0-d array", "1-element array"])
            xj = {"float": float, "np.float64": np.float64, "0-d array": np.array, "1-element array": lambda v: np.array([v])}[form](px[j])
            yj = {"float": float, "np.float64": np.float64, "0-d array": np.array, "1-element array": lambda v: np.array([v])}[form](py[j])
            try:
                r1 = call(vals, xj, yj)
            except Exception as e:  # noqa
                H.V(ctx, f"spatial:{kind}:single-position:raises:{type(e).__name__}", f"{kind} at one position given as {form} raised {type(e).__name__}: {str(e)[:90]}", case)
                break
            if r1.shape != (1,) or abs(r1[0] - r0[j]) > tol:
                H.V(ctx, f"spatial:{kind}:array-vs-scalar", f"{kind}: position {j} of an array of {k} gives {r0[j]!r}, alone ({form}) {r1.tolist()}", case)
                break
        # 4. the functions the method reproduces
        if f is not None:
            wf = f(px, py)
            if not np.all(np.abs(r0 - wf) <= 4 * tol):
                H.V(ctx, f"spatial:{kind}:exact-{EXACT[kind]}", f"{kind} does not reproduce a {EXACT[kind]} function (error {float(np.max(np.abs(r0 - wf))):.3e}, scale {scale:.3e})", case)
        # 5. outside the grid
        ox, oy = px.copy(), py.copy()
        j = rng.randrange(k)
        if rng.random() < 0.5:
            ox[j] = rng.choice([xs[0] - (xs[-1] - xs[0]) * rng.uniform(1e-6, 0.3), xs[-1] + (xs[-1] - xs[0]) * rng.uniform(1e-6, 0.3)])
        else:
            oy[j] = rng.choice([ys[0] - (ys[-1] - ys[0]) * rng.uniform(1e-6, 0.3), ys[-1] + (ys[-1] - ys[0]) * rng.uniform(1e-6, 0.3)])
        try:
            ro = call(vals, ox, oy)
            H.V(ctx, f"spatial:{kind}:outside-accepted", f"{kind}: a position outside the grid is not refused (result {ro.tolist()})", {**case, "ox": [_fl(v) for v in ox], "oy": [_fl(v) for v in oy]})
        except ValueError:
            pass
        # 6. integer-typed / float32 grids and values, integer positions where the position is whole
        tgx, tgy, tv = T.cast(gx, dts["grid"]), T.cast(gy, dts["grid"]), T.cast(vals, dts["values"])
        rt = call_spatial(kind, tgx, tgy, tv, px, py)
        low = T.eps_of(dts["values"])
        if rt.shape != r0.shape or not np.all(np.abs(rt - r0) <= max(tol, 64 * low * scale * (1 if low > T.EPS64 else 0))):
            H.V(ctx, f"spatial:{kind}:types:{T.dtclass(dts['grid'])}/{T.dtclass(dts['values'])}", f"{kind} with grid/values of dtype {dts['grid']}/{dts['values']} gives "
                f"{rt.tolist()}, the float64 copies {r0.tolist()}", case)
        jw = [j for j in range(k) if px[j] == math.floor(px[j]) and py[j] == math.floor(py[j])]
        if jw:
            j = jw[0]
            ri = call(vals, int(px[j]), int(py[j]))
            if ri.shape != (1,) or abs(ri[0] - r0[j]) > tol:
                H.V(ctx, f"spatial:{kind}:types:int-position", f"{kind} at the Python int position ({int(px[j])}, {int(py[j])}) gives {ri.tolist()}, at the floats {r0[j]!r}", case)
            ctx.count("spatial:int-position")
    except Exception as e:  # noqa
        H.V(ctx, f"spatial:{kind}:raises:{type(e).__name__}", f"{kind} raised {type(e).__name__}: {str(e)[:120]} on a valid grid", case)
        return
    # ---- correspondence
    if drv is None:
        return
    fr, rs = H.frac, H.rs
    up = vals[::-1]                                   # rows by increasing y
    if kind == "regular_grid_interpolator":
        m = drv.ask1(f"c20 regulargrid {H.rl(fr(v) for v in xs)} {H.rl(fr(v) for v in ys)} "
                     f"{H.rrows([fr(v) for v in r_] for r_ in up)} {H.rl(fr(v) for v in px)} {H.rl(fr(v) for v in py)}")
        if not m.startswith("ok "):
            ctx.disagree("regular_grid_interpolator error branch", case, m, r0.tolist())
        else:
            mv = H.prl(m[3:])
            for j in range(k):
                if abs(fr(r0[j]) - mv[j]) > fr(tol):
                    ctx.disagree("regular_grid_interpolator vs bilinear model", {**case, "at": j}, float(mv[j]), float(r0[j]))
            ctx.count("spatial:regular_grid-vs-model")
    elif kind == "rect_bivariate_spline":
        # the specification bicubicAt: the tensor product of not-a-knot splines
        m = drv.ask1(f"c20 bicubic {H.rl(fr(v) for v in xs)} {H.rl(fr(v) for v in ys)} "
                     f"{H.rrows([fr(v) for v in r_] for r_ in up)} {H.rl(fr(v) for v in px)} {H.rl(fr(v) for v in py)}")
        if not m.startswith("ok "):
            ctx.disagree("rect_bivariate_spline: the spline model has no value", case, m, r0.tolist())
            return
        mv = H.prl(m[3:])
        for j in range(k):
            if abs(fr(r0[j]) - mv[j]) > fr(tol):
                ctx.disagree("rect_bivariate_spline vs tensor not-a-knot spline model", {**case, "at": j}, float(mv[j]), float(r0[j]))
        ctx.count("spatial:rect_bivariate_spline-vs-model")


# =============================================================================================
# the Sun


def make_time(vals, scale="gps"):
    from midgard.data import time

    return time.Time(vals, scale=scale, fmt="mjd")


def ang(a):
    """difference of angles in degrees, reduced to [-180, 180)"""
    return (np.asarray(a, dtype=float) + 180.0) % 360.0 - 180.0


def sun_part(ctx, H, drv, info):
    rng = ctx.rng
    sun = info.get("sun")
    if not sun:
        ctx.disagree("translator could not read the constants of gsdtime_sun", {}, "-", "-")
        return
    ctx.extra["sun_constants"] = {k: str(v) for k, v in zip(("epoch", "vl0", "vl_rate", "gst0", "gst_rate"), sun)}
    for ci in range(ctx.budget(60, 1200)):
        with H.guard(ctx, "sun"):
            n = rng.choice([1, 1, 2, 3, 5])
            days = [float(rng.randint(40000, 70000)) for _ in range(n)]
            fr_ = [rng.choice([0.0, 0.5, 0.25, rng.random(), rng.random()]) for _ in range(n)]
            scale = rng.choice(["gps", "utc", "utc", "tt"])
            case = {"part": "sun", "mjd": [d + f_ for d, f_ in zip(days, fr_)], "scale": scale}
            ctx.case(case)
            ctx.count(f"sun:epochs={n}")
            check_sun(ctx, H, case, drv, sun)


def check_sun(ctx, H, case, drv=None, sun=None):
    from midgard.math import planetary_motion as pmo

    vals, scale = [float(v) for v in case["mjd"]], case["scale"]
    n = len(vals)
    try:
        singles = []
        for v in vals:
            t = make_time(v, scale)
            g = [float(np.asarray(u, dtype=float).reshape(-1)[0]) for u in pmo.gsdtime_sun(t)]
            p = np.asarray(pmo.findsun(t), dtype=float)
            if p.shape != (3,):
                H.V(ctx, "sun:findsun-shape", f"findsun for one epoch returns an array of shape {p.shape}", case)
                return
            singles.append((t, g, p))
        for t, (gstr, slong, sra, sdec), p in singles:
            lam = math.radians(slong - 0.005686)
            a, d = math.radians(sra), math.radians(sdec)
            u = np.array([math.cos(d) * math.cos(a), math.cos(d) * math.sin(a), math.sin(d)])
            # ranges
            if not (0 <= gstr < 360 and 0 <= sra <= 360 and abs(sdec) <= 23.6):
                H.V(ctx, "sun:ranges", f"gstr/sra/sdec = {gstr!r}/{sra!r}/{sdec!r}", case)
            # right ascension / declination are the equatorial direction of the ecliptic longitude
            eps_ = math.degrees(math.atan2(u[2] * np.sign(math.sin(lam)), u[1] * np.sign(math.sin(lam)))) if abs(math.sin(lam)) > 1e-3 else 23.44
            if abs(u[0] - math.cos(lam)) > 1e-12 or abs(math.hypot(u[1], u[2]) - abs(math.sin(lam))) > 1e-12 or abs(eps_ - 23.44) > 0.1:
                H.V(ctx, "sun:equatorial-direction", f"(sra, sdec) = ({sra!r}, {sdec!r}) is not the direction of ecliptic longitude {math.degrees(lam)!r} "
                    f"(cos d cos a = {u[0]!r} vs cos l = {math.cos(lam)!r}; obliquity {eps_!r})", case)
            # the sidereal angle at 0h UTC is Greenwich mean sidereal time (IAU 1982 expression, typed independently),
            # to the precision of the low-precision series (UT1-UTC < 0.9 s = 0.004 deg; Newcomb vs IAU constants 0.001 deg)
            if scale == "utc" and float(t.jd_frac) == 0.0:
                Tc = (float(t.mjd_int) - 51544.5) / 36525
                g82 = (100.46061837 + 36000.770053608 * Tc + 0.000387933 * Tc * Tc - Tc ** 3 / 38710000) % 360
                ctx.count("sun:gstr-vs-GMST(IAU1982)-at-0h")
                if abs(ang(gstr - g82)) > 0.01:
                    H.V(ctx, "sun:gstr-is-GMST-at-0h", f"gstr = {gstr!r} deg at 0h UTC of MJD {float(t.mjd_int)}, Greenwich mean sidereal time is {g82!r} deg", case)
            # findsun: AU times that direction, turned by gstr about the third axis
            g = math.radians(gstr)
            want = AU * np.array([u[0] * math.cos(g) + u[1] * math.sin(g), -u[0] * math.sin(g) + u[1] * math.cos(g), u[2]])
            if abs(float(np.linalg.norm(p)) - AU) > 1e-9 * AU or not np.all(np.abs(p - want) <= 1e-9 * AU):
                H.V(ctx, "sun:findsun", f"findsun = {p.tolist()}, |.| = {float(np.linalg.norm(p))!r}; AU * R3(gstr) * direction = {want.tolist()}", case)
            # the sidereal angle: 360 degrees per day of day fraction, the tabulated rate from day to day
            if sun is not None:
                rate = float(sun[4])
                mj, fr_ = float(t.mjd_int), float(t.jd_frac)
                g1 = float(np.asarray(pmo.gsdtime_sun(make_time(mj + 1 + fr_, scale))[0]).reshape(-1)[0])
                if abs(ang(g1 - gstr - rate)) > 1e-7:
                    H.V(ctx, "sun:gstr-daily-advance", f"gstr advances by {float(ang(g1 - gstr))!r} deg from one day to the next, the source tabulates {rate!r}", case)
                df = 0.125 if fr_ < 0.8 else -0.125
                g2 = float(np.asarray(pmo.gsdtime_sun(make_time(mj + fr_ + df, scale))[0]).reshape(-1)[0])
                if abs(ang(g2 - gstr - 360 * df)) > 1e-6:
                    H.V(ctx, "sun:gstr-rotation", f"gstr changes by {float(ang(g2 - gstr))!r} deg in {df} days instead of {360 * df} (mod 360)", case)
                # correspondence with the model (the doubles mjd_int and jd_frac of the Time object as exact rationals)
                if drv is not None:
                    mvl, mg = (Fraction(u_) for u_ in drv.ask1(f"c20 sun {H.rs(H.frac(mj))} {H.rs(H.frac(fr_))}").split())
                    if abs(ang(gstr - float(mg))) > 1e-8:
                        ctx.disagree("gsdtime_sun gstr", case, float(mg), gstr)
                    if abs(ang(slong - float(mvl))) > 2.0:
                        ctx.disagree("gsdtime_sun slong vs mean longitude (equation of centre < 2 deg)", case, float(mvl), slong)
                    ctx.count("sun:gstr-vs-model")
        # an array of epochs gives the rows of the single epochs
        if n > 1:
            ta = make_time(vals, scale)
            ga = [np.asarray(u, dtype=float) for u in pmo.gsdtime_sun(ta)]
            pa = np.asarray(pmo.findsun(ta), dtype=float)
            ok = all(u.shape == (n,) for u in ga) and pa.shape == (n, 3)
            if ok:
                for i, (_, g, p) in enumerate(singles):
                    ok = ok and all(abs(ang(ga[j][i] - g[j])) <= 1e-9 for j in range(4)) and bool(np.all(np.abs(pa[i] - p) <= 1e-9 * AU))
            if not ok:
                H.V(ctx, "sun:array-vs-scalar", f"gsdtime_sun / findsun on {n} epochs (shapes {[u.shape for u in ga]}, {pa.shape}) do not give the values of the single epochs", case)
    except Exception as e:  # noqa
        H.V(ctx, f"sun:raises:{type(e).__name__}", f"gsdtime_sun / findsun raised {type(e).__name__}: {str(e)[:120]}", case)


def replay_case(ctx, H, case) -> bool:
    if case["part"] == "spatial":
        f = None
        if "coeffs" in case:
            xs = np.array([_hx(v) for v in case["xs"]]); ys = np.array([_hx(v) for v in case["ys"]])
            co = case["coeffs"]
            x0, xr, y0, yr = float(xs[0]), float(xs[-1] - xs[0]), float(ys[0]), float(ys[-1] - ys[0])
            cls = EXACT[case["kind"]]
            if cls == "plane":
                f = lambda x, y: co[0] + co[1] * (x - x0) / xr + co[2] * (y - y0) / yr   # noqa: E731
            elif cls == "bilinear":
                f = lambda x, y: co[0] + co[1] * (x - x0) / xr + co[2] * (y - y0) / yr + co[3] * (x - x0) / xr * (y - y0) / yr   # noqa: E731
            else:
                f = lambda x, y: sum(co[i][j] * ((x - x0) / xr) ** i * ((y - y0) / yr) ** j for i in range(4) for j in range(4))   # noqa: E731
        check_spatial(ctx, H, case, f, None)
    else:
        from translator import extract_c20
        check_sun(ctx, H, case, None, extract_c20.sun_constants()[0])
    for v in ctx.violations:
        print("  oracle:", v.key, "|", v.what)
    return bool(ctx.violations)
