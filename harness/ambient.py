"""Results of the library must not depend on ambient process state (time zone, locale, hash seed, …).

A property's harness hands a *slice* of its oracle — a function `payload -> list of [item id, canonical value]` living in
an importable module — to `compare(...)`; the slice is evaluated in fresh child interpreters, one per ambient setting, and
every item must come out bit for bit as in the reference child (TZ=UTC, LC_ALL=C, PYTHONHASHSEED=0).  A difference is an
oracle failure with the setting and the item as the failing input; a child that dies is one too.

    from . import ambient
    ambient.compare(ctx, "harness.c02:ambient_slice", payload)           # default settings
    ambient.compare(ctx, "harness.cxx:my_slice", payload, settings=ambient.SETTINGS[:3])

The slice must be deterministic, must import the library itself (the child puts $MIDGARD_REPO first on sys.path, as
./check does) and return JSON-serialisable values (floats as `float.hex()`, never raw addresses / timestamps).
Time zones are given as POSIX rule strings, which need no tzdata on the machine.
"""
from __future__ import annotations

import json
import os
import subprocess
import sys
from pathlib import Path
from typing import Dict, List, Optional, Sequence, Tuple

VERIF = Path(__file__).resolve().parent.parent
REFERENCE = {"TZ": "UTC", "LC_ALL": "C", "LANG": "C", "PYTHONHASHSEED": "0"}


def installed_locales() -> List[str]:
    try:
        out = subprocess.run(["locale", "-a"], capture_output=True, text=True, timeout=10).stdout.split()
    except Exception:
        return []
    return [l for l in out if l.split(".")[0] not in ("C", "POSIX") and not l.lower().startswith("en_")]


def default_settings() -> List[Tuple[str, Dict[str, str]]]:
    """(label = the variable that differs from the reference, environment overrides)"""
    s = [("TZ", {"TZ": "CET-1CEST,M3.5.0,M10.5.0/3"}),        # central Europe, DST
         ("TZ", {"TZ": "<+0530>-5:30"}),                       # half-hour offset, no DST
         ("TZ", {"TZ": "PST8PDT,M3.2.0,M11.1.0"}),             # west of Greenwich, DST
         ("TZ", {"TZ": "<+13>-13<+14>,M9.5.0/3,M4.1.0/4"}),    # beyond +12, southern-hemisphere DST
         ("PYTHONHASHSEED", {"PYTHONHASHSEED": "4711"})]
    loc = installed_locales()
    for l in loc[:2]:
        s.append(("LC_ALL", {"LC_ALL": l, "LANG": l}))
    return s


SETTINGS = default_settings()

_CHILD = ("import sys, os, json, importlib\n"
          "sys.path.insert(0, os.environ.get('MIDGARD_REPO', '/repo')); sys.path.insert(0, os.environ['VERIF_ROOT'])\n"
          "import time, locale\n"
          "time.tzset()\n"
          "try:\n    locale.setlocale(locale.LC_ALL, '')\nexcept Exception:\n    pass\n"
          "req = json.load(sys.stdin)\n"
          "mod, fn = req['target'].split(':')\n"
          "res = getattr(importlib.import_module(mod), fn)(req['payload'])\n"
          "sys.stdout.write('\\n@@AMBIENT-RESULT@@' + json.dumps(res))\n")


def _start(target: str, payload, env_over: Dict[str, str]) -> subprocess.Popen:
    env = dict(os.environ)
    env.update(REFERENCE)
    env.update(env_over)
    env["VERIF_ROOT"] = str(VERIF)
    p = subprocess.Popen([sys.executable, "-c", _CHILD], stdin=subprocess.PIPE, stdout=subprocess.PIPE, stderr=subprocess.PIPE,
                         text=True, env=env, cwd=str(VERIF))
    p._req = json.dumps({"target": target, "payload": payload})      # type: ignore[attr-defined]
    return p


def _finish(p: subprocess.Popen, timeout: float):
    try:
        out, err = p.communicate(p._req, timeout=timeout)              # type: ignore[attr-defined]
    except subprocess.TimeoutExpired:
        p.kill()
        return None, "timeout"
    if "@@AMBIENT-RESULT@@" not in out:
        return None, (err or out)[-600:]
    return json.loads(out.split("@@AMBIENT-RESULT@@", 1)[1]), None


def run(target: str, payload, settings: Sequence[Tuple[str, Dict[str, str]]], timeout: float = 300.0):
    """evaluate the slice in the reference child and in one child per setting (all started at once);
    returns (reference result | None, reference error, [(label, env, result | None, error)])"""
    procs = [("reference", {}, _start(target, payload, {}))] + [(lab, env, _start(target, payload, env)) for lab, env in settings]
    res = [(lab, env) + _finish(p, timeout) for lab, env, p in procs]
    ref = res[0]
    return ref[2], ref[3], res[1:]


def compare(ctx, target: str, payload, settings: Optional[Sequence[Tuple[str, Dict[str, str]]]] = None, key: str = "ambient-dependence",
            describe=None, max_reports: int = 3) -> int:
    """run the slice under every setting and report each item that differs from the reference as an oracle failure
    `key:<variable>` (at most `max_reports` items per setting); returns the number of items compared"""
    if settings is None and not any(lab == "LC_ALL" for lab, _ in SETTINGS):
        ctx.count("ambient:LC_ALL:no-non-English-locale-installed")
    settings = list(SETTINGS if settings is None else settings)
    ref, err, others = run(target, payload, settings)
    if ref is None:
        ctx.violate(f"{key}:reference-child", f"the slice {target} failed in the reference child (TZ=UTC, LC_ALL=C): {err}", {"target": target})
        return 0
    refd = {json.dumps(k): v for k, v in ref}
    n = 0
    for lab, env, r, e in others:
        ctx.count(f"ambient:{lab}:{'ok' if r is not None else 'child-failed'}")
        if r is None:
            ctx.violate(f"{key}:{lab}:child", f"the slice {target} failed with {env}: {e}", {"env": env, "target": target})
            continue
        reported = 0
        got = {json.dumps(k): v for k, v in r}
        if got.keys() != refd.keys():
            ctx.violate(f"{key}:{lab}", f"with {env} the slice yields other items than with TZ=UTC, LC_ALL=C", {"env": env, "target": target})
            continue
        for k, v in got.items():
            n += 1
            if v != refd[k] and reported < max_reports:
                reported += 1
                item = json.loads(k)
                what = (describe(item, refd[k], v, env) if describe else
                        f"with {env} item {item} is {v!r}; with TZ=UTC, LC_ALL=C, PYTHONHASHSEED=0 it is {refd[k]!r}")
                ctx.violate(f"{key}:{lab}", what, {"env": env, "item": item, "reference": refd[k], "value": v, "target": target})
    return n
