"""C03 — time / time-difference arithmetic obeys the affine laws.

prove:       lean/Midgard/Props/C03.lean (exact laws over Rat on the mirrored data flow)
correspond:  every constructor and operator result of the real classes vs the Lean driver
oracle:      the six laws, the scale guard and operand/caller-array immutability, stated
             directly on the real code with exact Fractions of the stored jd parts
"""
from __future__ import annotations

import copy
from datetime import datetime, timedelta
from fractions import Fraction

import numpy as np

from . import common
from .common import Ctx, frac, rs

NS = Fraction(1, 86400 * 10**9)  # one nanosecond in days
SCALES = ["utc", "tai", "gps", "tt", "tcg"]
DFMTS = ["jd", "days", "seconds", "timedelta"]


def _imp():
    from midgard.data.time import Time, TimeDelta

    return Time, TimeDelta


def jparts(obj):
    """stored (jd1, jd2) of a time/timedelta object as lists of exact Fractions"""
    j1 = np.atleast_1d(np.asarray(obj.jd1, dtype=float))
    j2 = np.atleast_1d(np.asarray(obj.jd2, dtype=float))
    return [frac(x) for x in j1], [frac(x) for x in j2]


def insts(obj):
    a, b = jparts(obj)
    return [x + y for x, y in zip(a, b)]


# ------------------------------------------------------------------------------------------
# generators


def gen_duration_days(rng):
    """durations in [-40000, 40000] days: whole, sub-day, negative, mixed, micro-exact"""
    k = rng.random()
    if k < 0.15:
        return float(rng.randint(-40000, 40000))
    if k < 0.35:
        return rng.choice([-1, 1]) * rng.random()
    if k < 0.5:
        return rng.randint(-40000, 40000) + rng.choice([0.5, 0.25, 0.125, 0.75])
    if k < 0.6:
        return rng.choice([0.0, 1.0, -1.0, 1e-9, -1e-9, 36525.0, -36525.0, 40000.0, -40000.0])
    return rng.uniform(-40000, 40000)


def gen_delta_value(rng, fmt):
    d = gen_duration_days(rng)
    if fmt in ("jd", "days"):
        return d
    if fmt == "seconds":
        # mostly values whose day count is not within a rounding error of an integer
        return float(np.float64(d) * 86400.0)
    us = int(round(d * 86400e6))
    if abs(us) > 40000 * 86400 * 10**6:
        us = 40000 * 86400 * 10**6 * (1 if us > 0 else -1)
    return timedelta(microseconds=us)


def gen_epoch_mjd(rng):
    k = rng.random()
    if k < 0.2:
        return float(rng.randint(37300, 88000))
    if k < 0.4:
        return rng.randint(37300, 88000) + rng.choice([0.5, 0.25, 0.75, 0.999999])
    return rng.uniform(37300, 88000)


def make_delta(TimeDelta, fmt, vals, scale, scalar):
    if fmt == "timedelta":
        v = vals[0] if scalar else np.array(vals, dtype=object)
    else:
        v = float(vals[0]) if scalar else np.array(vals, dtype=float)
    return TimeDelta(v, fmt=fmt, scale=scale), v


def delta_value_rats(fmt, vals):
    if fmt == "timedelta":
        return [Fraction(v.days * 86400 * 10**6 + v.seconds * 10**6 + v.microseconds) for v in vals]
    return [frac(v) for v in vals]


# ------------------------------------------------------------------------------------------


def close(a: Fraction, b: Fraction, scale_days: Fraction) -> bool:
    return abs(a - b) <= Fraction(1, 10**15) + Fraction(4, 10**16) * abs(scale_days)


def run(ctx: Ctx):
    from translator import extract_exprs

    ch, info = extract_exprs.generate()     # the operator branches and duration formats, from the `ast` of _time.py
    ctx.extra["source_functions_not_translated"] = info["not_translated"]
    from translator import extract_time

    ctx.extra["source_inplace_table"] = extract_time.generate_purity()[1]   # in-place operations on parameters (`ops_pure`)
    ctx.proof = common.prove("C03")
    Time, TimeDelta = _imp()
    drv = ctx.driver
    rng = ctx.rng
    ctx.rule = ("random operand pairs: epoch (mjd 37300..88000, whole/half/random) x duration in [-40000,40000] d "
                "(whole, sub-day, negative, mixed) x 4 duration formats x 5 scales x scalar/array; a case is "
                "non-trivial when the duration is non-zero; distinct by canonical operand values")
    ctx.trusted += ["floating-point: proved for any rounding with relative error <= 2^-53 that keeps half-integers (theorems result_normalised, "
                    "laws_rounded); that NumPy's float64 + and - are such a rounding is checked on every sampled operation (rounding-budget)",
                    "NumPy broadcasting modelled by `broadcast2` (0-/1-dimensional operands) and run against the real operators",
                    "translator/extract_timepurity.py (`ast` scan for in-place operations on parameters / aliases of parameters)"]
    ctx.assumptions += ["model operands are the exact rationals of the implementation's stored doubles"]
    n_cases = ctx.budget(400, 20000)
    for ci in range(n_cases):
        scale = rng.choice(SCALES)
        fmt = rng.choice(DFMTS)
        fmt2 = rng.choice(DFMTS)
        scalar = rng.random() < 0.3
        n = 1 if scalar else rng.randint(1, 5)
        dvals = [gen_delta_value(rng, fmt) for _ in range(n)]
        evals = [gen_delta_value(rng, fmt2) for _ in range(n)]
        mjds = [gen_epoch_mjd(rng) for _ in range(n)]
        mjds2 = [gen_epoch_mjd(rng) for _ in range(n)]
        tfmt = rng.choice(["mjd", "jd", "datetime"])
        case = {"scale": scale, "dfmt": fmt, "dfmt2": fmt2, "scalar": scalar, "tfmt": tfmt,
                "d": [str(v) for v in dvals], "e": [str(v) for v in evals], "mjd": mjds, "mjd2": mjds2}
        ctx.case(case, nontrivial=any(str(v) not in ("0.0", "0:00:00") for v in dvals))
        ctx.count(f"dfmt={fmt}")
        ctx.count("scalar" if scalar else f"array{n}")
        try:
            one_case(ctx, Time, TimeDelta, drv, scale, fmt, fmt2, scalar, dvals, evals, mjds, mjds2, tfmt, case)
        except Exception as e:  # the real code raised where the property says it must not
            ctx.violate(f"raises:{type(e).__name__}", f"arithmetic raised {type(e).__name__}: {e}", case)
    two_part_constructors(ctx, TimeDelta, drv)
    array_ops(ctx, Time, TimeDelta, drv)
    epoch_constructors(ctx, Time, TimeDelta, drv)
    laws_every_format(ctx, Time, TimeDelta)
    mixed_scales(ctx, Time, TimeDelta)
    ctx.traces = ctx.evaluations


def two_part_constructors(ctx, TimeDelta, drv):
    """TimeDelta(val, val2=...) in the numeric formats: value, normalisation, and the caller's two arrays untouched"""
    rng = ctx.rng
    for _ in range(ctx.budget(150, 6000)):
        fmt = rng.choice(["jd", "days", "seconds"])
        scale = rng.choice(SCALES)
        scalar = rng.random() < 0.3
        n = 1 if scalar else rng.randint(1, 5)
        unit = 86400.0 if fmt == "seconds" else 1.0
        v1, v2 = [], []
        for _k in range(n):
            d = gen_duration_days(rng)
            k = rng.random()
            if k < 0.35:    # whole days + fraction
                a, b = float(np.floor(d)), d - float(np.floor(d))
            elif k < 0.7:   # coarse value + (possibly negative or > 1) correction
                b = rng.choice([-0.5, -0.25, -0.75, 1.5, 0.625, -1.25, 2.0])
                a = d - b
            else:           # arbitrary split
                a = d * rng.random()
                b = d - a
            v1.append(a * unit)
            v2.append(b * unit)
        a1 = float(v1[0]) if scalar else np.array(v1, dtype=float)
        a2 = float(v2[0]) if scalar else np.array(v2, dtype=float)
        case = {"two_part": True, "fmt": fmt, "scale": scale, "scalar": scalar, "val": [float(x) for x in v1], "val2": [float(x) for x in v2]}
        ctx.case(case)
        ctx.count(f"two-part:{fmt}")
        before = (snapshot(a1), snapshot(a2))
        try:
            d = TimeDelta(a1, val2=a2, fmt=fmt, scale=scale)
        except Exception as e:
            ctx.violate(f"two-part-raises:{fmt}", f"TimeDelta(val, val2, fmt={fmt!r}) raised {type(e).__name__}: {e}", case)
            continue
        if (snapshot(a1), snapshot(a2)) != before:
            ctx.violate("constructor-mutates-input", f"constructing TimeDelta(val, val2=..., fmt={fmt!r}) changed the caller's array", case)
        j1, j2 = jparts(d)
        # the constructor on the heap model: the caller's two arrays (writable buffers) afterwards, and the shape of the result
        enc = (lambda v: f"s:{rs(frac(v[0]))}") if scalar else (lambda v: "a:" + ",".join(rs(frac(x)) for x in v))
        hres, hheap, _n = (x.strip() for x in drv.ask1(f"c03 hctor {fmt} {scale} {enc(v1)} {enc(v2)}").split("|"))
        if dec_heap(hheap) != heap_of(a1, a2):
            ctx.disagree("caller arrays after a two-part constructor (heap model)", case, hheap, str(heap_of(a1, a2))[:300])
        if hres in ("NI", "SHAPE", "BAD") or (hres.split()[1].startswith("s:")) != scalar:
            ctx.disagree("two-part constructor (heap model: result shape)", case, hres, "scalar" if scalar else f"array{n}")
        ans = drv.ask([f"c03 tojds {fmt} {rs(frac(x))} {rs(frac(y))}" for x, y in zip(v1, v2)])
        for i, a in enumerate(ans):
            m1, m2 = (common.pr(t) for t in a.split())
            if not close(j1[i] + j2[i], m1 + m2, m1 + m2):
                ctx.disagree("TimeDelta two-part constructor", {**case, "i": i}, a, [str(j1[i]), str(j2[i])])
            elif j1[i] != m1 and abs(j1[i] - m1) != 1:
                if abs(j1[i] - m1) <= Fraction(1, 10**15) * max(1, abs(m1)):
                    ctx.count("float-normalisation-ulp")  # val - (val - floor(..)) is not exact in doubles; the instant is
                else:
                    ctx.disagree("TimeDelta two-part constructor (whole-day part)", {**case, "i": i}, a, [str(j1[i]), str(j2[i])])
            want = (frac(v1[i]) + frac(v2[i])) / (86400 if fmt == "seconds" else 1)
            if abs(j1[i] + j2[i] - want) >= NS + Fraction(4, 10**16) * abs(want):
                ctx.violate(f"two-part-value:{fmt}", "TimeDelta(val, val2) does not denote val + val2 to 1 ns", {**case, "i": i})
        # the duration and the caller's arrays must not alias (a later change of the caller's array must not move the duration)
        if not scalar:
            keep = (np.asarray(d.jd1).copy(), np.asarray(d.jd2).copy())
            try:
                a2 += 1.0
                a1 += 1.0
            except ValueError:
                ctx.violate("constructor-freezes-input", "the array passed to TimeDelta was left read-only", case)
            if not (np.array_equal(keep[0], np.asarray(d.jd1)) and np.array_equal(keep[1], np.asarray(d.jd2))):
                ctx.violate("constructor-aliases-input", "changing the caller's array afterwards changed the duration", case)


U53 = Fraction(1, 2**53)


def enc_val(j1, j2, scalar):
    """operand for the driver: `s:j1:j2` or `a:j1,…:j2,…` (exact rationals of the stored doubles)"""
    if scalar:
        return f"s:{rs(j1[0])}:{rs(j2[0])}"
    return "a:" + ",".join(rs(x) for x in j1) + ":" + ",".join(rs(x) for x in j2)


def dec_val(tok):
    kind, a, b = tok.split(":")
    f = lambda t: [common.pr(x) for x in t.split(",")] if t else []
    return kind == "s", f(a), f(b)


def dec_heap(text):
    """`x,x/w;x/r` → [([Fractions], writable)]"""
    text = text.strip()
    if not text:
        return []
    out = []
    for c in text.split(";"):
        d, fl = c.rsplit("/", 1)
        out.append(([common.pr(x) for x in d.split(",")] if d else [], fl == "w"))
    return out


def heap_of(*arrays):
    """the buffers the model knows about, as they are now on the real side: contents (exact) and flags.writeable"""
    out = []
    for a in arrays:
        if isinstance(a, np.ndarray) and a.ndim == 1:
            out.append(([frac(x) for x in a.tolist()], bool(a.flags.writeable)))
    return out


SHAPES = ["scalar", "len1", "lenN", "lenM", "len0"]


def array_ops(ctx, Time, TimeDelta, drv):
    """scalar and array operands in every combination of shapes (scalar, length 1, n, m != n, 0): the real operators against
    the heap model `binopH` — result kind, shape and parts; NumPy's shape error exactly where the model has it; the operands'
    own buffers (contents and flags) afterwards against the model's heap"""
    rng = ctx.rng

    def build(kind, shape, scale, n, m):
        k = {"scalar": 1, "len1": 1, "lenN": n, "lenM": m, "len0": 0}[shape]
        if kind == "time":
            mj = [gen_epoch_mjd(rng) for _ in range(k)]
            v1 = [float(np.floor(x) + 2400000.5) for x in mj]
            v2 = [float(x - np.floor(x)) for x in mj]
            if shape == "scalar":
                return Time(v1[0], val2=v2[0], fmt="jd", scale=scale)
            return Time(np.array(v1, dtype=float), val2=np.array(v2, dtype=float), fmt="jd", scale=scale)
        dv = [gen_duration_days(rng) for _ in range(k)]
        if shape == "scalar":
            return TimeDelta(float(dv[0]), fmt="days", scale=scale)
        return TimeDelta(np.array(dv, dtype=float), fmt="days", scale=scale)

    OPS = [("add", "time", "delta", lambda x, y: x + y), ("sub", "time", "delta", lambda x, y: x - y),
           ("sub", "time", "time", lambda x, y: x - y), ("add", "delta", "delta", lambda x, y: x + y),
           ("sub", "delta", "delta", lambda x, y: x - y), ("add", "delta", "time", lambda x, y: x + y),
           ("add", "time", "time", lambda x, y: x + y), ("sub", "delta", "time", lambda x, y: x - y)]
    for _ in range(ctx.budget(250, 8000)):
        op, ka, kb, fn = rng.choice(OPS)
        sha, shb = rng.choice(SHAPES), rng.choice(SHAPES)
        scale = rng.choice(SCALES)
        n = rng.randint(2, 5)
        m = rng.choice([x for x in range(2, 7) if x != n])
        case = {"array_op": f"{op} {ka} {kb}", "shapes": [sha, shb], "n": n, "m": m, "scale": scale}
        try:
            a = build(ka, sha, scale, n, m)
            b = build(kb, shb, scale, n, m)
        except Exception as e:
            ctx.count(f"array-op:operand-not-constructible:{type(e).__name__}")
            continue
        ctx.case(case)
        ctx.count(f"array-op:{sha}x{shb}")
        pa, pb = jparts(a), jparts(b)
        bufs = [np.asarray(x) for o in (a, b) for x in (o.jd1, o.jd2)]
        before = heap_of(*bufs)
        try:
            r = fn(a, b)
            impl = "value"
        except TypeError:
            impl = "NI"
        except ValueError:
            impl = "SHAPE"
        except Exception as e:
            impl = f"ERR:{type(e).__name__}"
        after = heap_of(*bufs)
        line = f"c03 hbinop {op} {ka} {scale} {enc_val(*pa, sha == 'scalar')} {kb} {scale} {enc_val(*pb, shb == 'scalar')}"
        ans = drv.ask1(line)
        res_m, heap_m, _new = (x.strip() for x in ans.split("|"))
        ctx.count(f"array-op-result:{'value' if res_m not in ('NI', 'SHAPE', 'BAD') else res_m}")
        # the frame: model heap (operand buffers after the call) == real buffers after the call == real buffers before
        if dec_heap(heap_m) != after:
            ctx.disagree("operand buffers after an operator (heap model)", case, heap_m, str(after)[:300])
        if before != after:
            ctx.violate("operator-mutates-operand", "an arithmetic operator changed an operand's stored parts or their flags", case)
        if res_m in ("NI", "SHAPE", "BAD"):
            if impl != res_m:
                ctx.disagree("operator on array operands (refusal / shape error)", case, res_m, impl)
            if res_m == "NI" and impl == "value":
                ctx.violate(f"meaningless-op:{op} {ka} {kb}", "an operator the property excludes returned a value", case)
            continue
        if impl != "value":
            ctx.disagree("operator on array operands", case, res_m, impl)
            if impl.startswith("ERR"):
                ctx.violate(f"array-op-raises:{impl}", f"{op} {ka} {kb} on shapes {sha} x {shb} raised {impl}", case)
            continue
        kind_m, val_m = res_m.split()
        sc_m, m1, m2 = dec_val(val_m)
        r1, r2 = jparts(r)
        isdelta = "Delta" in type(r).__name__
        ok = (kind_m == "delta") == isdelta and sc_m == (np.ndim(r.jd1) == 0) and len(r1) == len(m1)
        if ok:
            for i in range(len(m1)):
                if r1[i] != m1[i] or not close(r2[i], m2[i], max(abs(m2[i]), 1)):
                    ok = False
        if not ok:
            ctx.disagree("operator on array operands", case, res_m, [("delta" if isdelta else "time"), np.shape(r.jd1), [str(x) for x in r1], [str(x) for x in r2]])
            continue
        # oracle on the real code: element i of the result is the scalar operation on elements i (stretched operands)
        na, nb = len(pa[0]), len(pb[0])
        for i in range(len(r1)):
            ia = 0 if (sha == "scalar" or na == 1) else i
            ib = 0 if (shb == "scalar" or nb == 1) else i
            sgn = 1 if op == "add" else -1
            want = pa[0][ia] + pa[1][ia] + sgn * (pb[0][ib] + pb[1][ib])
            if abs(r1[i] + r2[i] - want) >= NS:
                ctx.violate(f"elementwise:{op} {ka} {kb}", f"element {i} of {sha} {op} {shb} is not the operation on elements {i}", {**case, "i": i})
                break
        # the result is a new object: its buffers are none of the operands' buffers
        for x in (r.jd1, r.jd2):
            if isinstance(x, np.ndarray) and any(np.shares_memory(x, y) for y in bufs if isinstance(y, np.ndarray) and y.size and x.size):
                ctx.violate("result-aliases-operand", "the result of an operator shares memory with an operand", case)
    ctx.traces += 1


ALL_TIME_FMTS = ["jd", "mjd", "datetime", "gps_ws", "gps_seconds", "jyear", "decimalyear", "yydddsssss", "yyyydddsssss", "isot", "iso", "yday", "date"]


def laws_every_format(ctx, Time, TimeDelta):
    """the six laws at 1 ns with the epoch held in *every* format (the text formats isot / iso / yday / date / yy:ddd:sssss
    included: the result of `t ± d` keeps the format of t) and durations that have parts finer than a microsecond"""
    rng = ctx.rng
    for _ in range(ctx.budget(260, 5000)):
        fmt = rng.choice(ALL_TIME_FMTS)
        scale = "gps" if fmt.startswith("gps") else rng.choice(SCALES)
        scalar = rng.random() < 0.3
        n = 1 if scalar else rng.randint(1, 4)
        # (the gps formats exist from 1980-01-06 on, two-digit years denote 1969 .. 2068: keep t - 400 d and t + 400 d inside)
        lo, hi = (45000, 75000) if fmt in ("yydddsssss",) or fmt.startswith("gps") else (37800, 87500)
        mj = [rng.uniform(lo, hi) for _k in range(2 * n)]
        dfmt = rng.choice(["days", "jd", "seconds"])
        # durations with a part below the microsecond: k ns, a few hundred ns, a random fraction, on top of 0 .. +-400 days
        dv = [rng.choice([0, 1, -1, 17, -400]) + rng.choice([1e-9, -3e-9, 123e-9, 4.56789e-7, 0.123456789123, -0.987654321987]) / 86400 * rng.choice([1, 1, 1000])
              + rng.choice([0.0, 0.25, -0.5]) for _k in range(2 * n)]
        case = {"laws_fmt": fmt, "scale": scale, "scalar": scalar, "mjd": mj, "d_days": dv, "dfmt": dfmt}
        try:
            def mk(ms):
                base = Time(np.array(ms) + 0.0, fmt="mjd", scale=scale)
                if fmt == "gps_ws":
                    w, sec = np.array(base.gps_ws.week, dtype=float), np.array(base.gps_ws.seconds, dtype=float)
                    return Time(float(w[0]), val2=float(sec[0]), fmt=fmt, scale=scale) if scalar else Time(w, val2=sec, fmt=fmt, scale=scale)
                v = np.array(getattr(base, fmt))
                return Time(v[0].item() if isinstance(v[0], np.generic) else v[0], fmt=fmt, scale=scale) if scalar else Time(v, fmt=fmt, scale=scale)

            unit = 86400.0 if dfmt == "seconds" else 1.0
            t, t2 = mk(mj[:n]), mk(mj[n:])
            d = TimeDelta(dv[0] * unit if scalar else np.array(dv[:n]) * unit, fmt=dfmt, scale=scale)
            e = TimeDelta(dv[n] * unit if scalar else np.array(dv[n:]) * unit, fmt=dfmt, scale=scale)
        except Exception as ex:
            ctx.violate(f"laws-format-raises:{fmt}", f"{type(ex).__name__}: {ex}", case)
            continue
        ctx.case(case)
        ctx.count(f"laws-format:{fmt}")

        def law(name, lhs, rhs):
            for i, (x, y) in enumerate(zip(insts(lhs()), insts(rhs()))):
                if abs(x - y) >= NS:
                    ctx.violate(f"law:{name}", f"{name} violated by {float((x - y) * 86400):.3e} s with the epoch held as {fmt}", {**case, "i": i})
                    return

        try:
            law("(t+d)-t=d", lambda: (t + d) - t, lambda: d)
            law("(t-d)+d=t", lambda: (t - d) + d, lambda: t)
            law("(t2-t1)+t1=t2", lambda: (t2 - t) + t, lambda: t2)
            law("t-d=t+(-d)", lambda: t - d, lambda: t + (e - e - d))
            law("d1+d2=d2+d1", lambda: d + e, lambda: e + d)
            law("(d1+d2)-d2=d1", lambda: (d + e) - e, lambda: d)
            law("(t+d)+e=t+(d+e)", lambda: (t + d) + e, lambda: t + (d + e))
            if (t + d).fmt != t.fmt:
                ctx.violate("result-format", f"t + d of an epoch held as {fmt} is held as {(t + d).fmt}", case)
        except Exception as ex:
            ctx.violate(f"raises:{type(ex).__name__}", f"arithmetic with the epoch held as {fmt} raised {type(ex).__name__}: {ex}", case)
    ctx.traces += 1


EPOCH_FMTS = ["jd", "jd2", "mjd", "mjd2", "datetime", "gps_ws", "gps_seconds", "jyear", "decimalyear", "yydddsssss", "yyyydddsssss",
              "isot", "iso", "yday", "date"]
INPUT_KINDS = ["fresh", "midnight", "from-time", "from-time-copy", "table-columns", "table-columns-midnight"]


def epoch_constructors(ctx, Time, TimeDelta, drv):
    """`Time(val[, val2], fmt=…)` for every format x kinds of ndarray input (new arrays, midnight-only epochs, the two parts of
    another Time as they are / as writable copies, column views of a 2-d table): the caller's arrays (and the table) keep their
    contents and flags, the new object shares no memory with them, and changing them afterwards changes neither the epoch, nor
    its hash, nor `t + d`.  For jd / mjd also against the heap model `ctorTimeH` (caller buffers afterwards, fresh storage)."""
    rng = ctx.rng
    for _ in range(ctx.budget(260, 6000)):
        fmt = rng.choice(EPOCH_FMTS)
        kind = rng.choice(INPUT_KINDS)
        scale = "gps" if fmt.startswith("gps") else rng.choice(SCALES)
        n = rng.randint(1, 5)
        midnight = "midnight" in kind
        mj = [float(rng.randint(44300, 88000)) if midnight else gen_epoch_mjd(rng) if not fmt.startswith("gps") else rng.uniform(44300, 88000)
              for _k in range(n)]
        if fmt == "date":
            mj = [float(np.floor(x)) for x in mj]
        if fmt == "yydddsssss":      # two-digit years denote 1969 .. 2068
            mj = [40600.0 + (x - 37300.0) % 35000.0 for x in mj]
        j1 = np.array([np.floor(x) + 2400000.5 for x in mj], dtype=float)
        j2 = np.array([x - np.floor(x) for x in mj], dtype=float)
        case = {"epoch_ctor": fmt, "input": kind, "scale": scale, "mjd": mj}
        try:
            base = Time(j1.copy(), val2=j2.copy(), fmt="jd", scale=scale)     # supplies the values in the format under test
            two_part = fmt in ("jd2", "mjd2", "gps_ws")
            if fmt in ("jd2",):
                cols = [np.array(base.jd1), np.array(base.jd2)]
            elif fmt == "mjd2":
                cols = [np.array(base.jd1) - 2400000.5, np.array(base.jd2)]
            elif fmt == "gps_ws":
                cols = [np.array(base.gps_ws.week, dtype=float), np.array(base.gps_ws.seconds, dtype=float)]
            else:
                cols = [np.array(getattr(base, fmt))]
        except Exception as e:
            ctx.violate(f"epoch-values-raise:{fmt}", f"{type(e).__name__}: {e}", case)
            continue
        real_fmt = {"jd2": "jd", "mjd2": "mjd"}.get(fmt, fmt)
        numeric = all(c.dtype == float for c in cols)
        table = None
        if kind.startswith("from-time"):
            if not two_part or fmt == "gps_ws":
                # the parts of another Time only exist for the two-part jd / mjd input; one-part formats: its own value array
                src = [np.asarray(getattr(base, real_fmt))] if not two_part else None
                if src is None or src[0].ndim != 1:
                    ctx.count("epoch-ctor:kind-not-applicable")
                    continue
                args = src if kind == "from-time" else [x.copy() for x in src]
            else:
                src = [base.jd1, base.jd2] if fmt == "jd2" else None
                if src is None:
                    ctx.count("epoch-ctor:kind-not-applicable")
                    continue
                args = list(src) if kind == "from-time" else [np.array(x) for x in src]
        elif kind.startswith("table-columns") and numeric:
            table = np.empty((n, len(cols) + 1))
            for k, c in enumerate(cols):
                table[:, k] = c
            table[:, -1] = 7.0
            args = [table[:, k] for k in range(len(cols))]
        elif kind.startswith("table-columns"):
            table = np.empty((n, 2), dtype=cols[0].dtype)
            table[:, 0] = cols[0]
            table[:, 1] = cols[0]
            args = [table[:, 0]]
        else:
            args = [c.copy() for c in cols]
        for x in args:
            if isinstance(x, np.ndarray) and kind != "from-time" and not x.flags.writeable:
                x.flags.writeable = True
        ctx.case(case)
        ctx.count(f"epoch-ctor:{fmt}")
        ctx.count(f"epoch-input:{kind}")

        def state():
            return ([snapshot(x) for x in args], None if table is None else snapshot(table))

        before = state()
        try:
            t = Time(args[0], val2=args[1], fmt=real_fmt, scale=scale) if len(args) == 2 else Time(args[0], fmt=real_fmt, scale=scale)
        except Exception as e:
            ctx.violate(f"epoch-ctor-raises:{fmt}", f"Time(fmt={real_fmt!r}) raised {type(e).__name__}: {e}", case)
            continue
        after = state()
        if [x[:4] for x in before[0]] != [x[:4] for x in after[0]] or (before[1] or ())[:4] != (after[1] or ())[:4]:
            ctx.violate("constructor-mutates-input", f"constructing Time(fmt={real_fmt!r}) changed the contents of the caller's array", case)
        elif before != after:
            ctx.violate("constructor-freezes-input", f"constructing Time(fmt={real_fmt!r}) changed flags.writeable of the caller's array ({kind})", case)
        # the value: the epochs given (to the precision of the format: a microsecond for the calendar / text formats)
        got = insts(t)
        prec = Fraction(1, 86400 * 10**6) * 2 if real_fmt not in ("jd", "mjd") or not two_part else NS
        if real_fmt in ("jd", "mjd", "jyear", "decimalyear", "gps_seconds") and not two_part:
            prec = Fraction(1, 10**9)      # one float of days / years / seconds since 1980
        if real_fmt == "date":
            prec = Fraction(1)
        if real_fmt in ("yydddsssss", "yyyydddsssss"):
            prec = Fraction(1, 86400)      # these texts carry whole seconds of the day
        for i in range(n):
            want = frac(j1[i]) + frac(j2[i])
            if abs(got[i] - want) > prec:
                ctx.violate(f"epoch-ctor-value:{fmt}", f"Time(fmt={real_fmt!r}) denotes another epoch than the one given ({float((got[i] - want) * 86400):.3e} s)", {**case, "i": i})
                break
        # independence: no shared memory with anything the caller can write to …
        stores = [x for x in (t.jd1, t.jd2, np.asarray(t)) if isinstance(x, np.ndarray) and x.size]
        caller = [x for x in args if isinstance(x, np.ndarray) and x.size] + ([table] if table is not None else [])
        shared = any(np.shares_memory(x, y) for x in stores for y in caller if x.dtype == y.dtype or True)
        writable_caller = kind != "from-time"
        if shared and writable_caller:
            ctx.violate("constructor-aliases-input", f"Time(fmt={real_fmt!r}) keeps the caller's array ({kind}) as its own storage (np.shares_memory)", case)
        # … and on the heap model (jd / mjd): caller buffers afterwards, storage fresh
        if real_fmt in ("jd", "mjd") and numeric:
            enc = lambda v: "a:" + ",".join(rs(frac(x)) for x in v)
            ans = drv.ask1(f"c03 htime {real_fmt} {scale} {enc(args[0])} {enc(args[1]) if len(args) == 2 else 'none'}")
            hres, hheap, _new, hshared = (x.strip() for x in ans.split("|"))
            flags_now = [(sn[3], sn[4]) for sn in after[0]]
            model_heap = dec_heap(hheap)
            real_heap = [([frac(x) for x in vals], (True if kind == "from-time" else w)) for vals, w in flags_now]
            if kind == "from-time":
                model_heap = [(d_, True) for d_, _w in model_heap]      # the model places every caller array in a writable buffer
            if model_heap != real_heap:
                ctx.disagree("caller arrays after an epoch constructor (heap model)", case, hheap, str(real_heap)[:300])
            if (hshared == "shared") != shared:
                ctx.disagree("storage of a constructed epoch (heap model: fresh buffers)", case, hshared, "shared" if shared else "fresh")
            if hres in ("NI", "SHAPE", "BAD"):
                ctx.disagree("epoch constructor (heap model)", case, hres, "a value")
            else:
                _sc, m1, m2 = dec_val(hres.split()[1])
                p1, p2 = jparts(t)
                for i in range(n):
                    if not close(p1[i] + p2[i], m1[i] + m2[i], m1[i]) and abs((p1[i] + p2[i]) - (m1[i] + m2[i])) > Fraction(1, 10**9):
                        ctx.disagree("epoch constructor (heap model: value)", {**case, "i": i}, hres, [str(p1[i]), str(p2[i])])
                        break
            ctx.count("epoch-ctor:heap-model-compared")
        # history: the caller reuses its arrays / table afterwards
        d = TimeDelta(1.25, fmt="days", scale=scale)
        keep = (jparts(t), hash(t), jparts(t + d), [str(x) for x in np.atleast_1d(np.asarray(t)).ravel().tolist()])
        wrote = False
        for x in ([table] if table is not None else []) + [a for a in args if isinstance(a, np.ndarray)]:
            if kind == "from-time":
                break
            try:
                if x.dtype == float:
                    x += 0.375
                elif x.size:
                    x[...] = x.ravel()[::-1].reshape(x.shape) if x.size > 1 else x
                wrote = True
            except ValueError:
                ctx.violate("constructor-freezes-input", f"after Time(fmt={real_fmt!r}) the caller's array ({kind}) cannot be written any more", case)
        if wrote:
            ctx.count("epoch-ctor:history-mutated-afterwards")
            now = (jparts(t), hash(t), jparts(t + d), [str(x) for x in np.atleast_1d(np.asarray(t)).ravel().tolist()])
            if now != keep:
                what = "stored parts" if now[0] != keep[0] else "hash" if now[1] != keep[1] else "t + d" if now[2] != keep[2] else "format values"
                ctx.violate("constructor-aliases-input", f"changing the caller's array after Time(fmt={real_fmt!r}) changed the epoch ({what})", case)
    ctx.traces += 1


def make_time(Time, tfmt, mjds, scale, scalar):
    """(time, the caller's input value(s), their snapshot taken *before* the constructor ran)"""
    if tfmt == "mjd":
        v = mjds[0] if scalar else np.array(mjds)
        sn = snapshot(v)
        return Time(v, fmt="mjd", scale=scale), v, sn
    if tfmt == "jd":
        v1 = [np.floor(m) + 2400000.5 for m in mjds]
        v2 = [m - np.floor(m) for m in mjds]
        if scalar:
            sn = snapshot((v1[0], v2[0]))
            return Time(v1[0], val2=v2[0], fmt="jd", scale=scale), (v1[0], v2[0]), sn
        a1, a2 = np.array(v1), np.array(v2)
        sn = snapshot((a1, a2))
        return Time(a1, val2=a2, fmt="jd", scale=scale), (a1, a2), sn
    dts = [datetime(1858, 11, 17) + timedelta(days=int(np.floor(m)), microseconds=int(round((m - np.floor(m)) * 86400e6))) for m in mjds]
    v = dts[0] if scalar else np.array(dts, dtype=object)
    sn = snapshot(v)
    return Time(v, fmt="datetime", scale=scale), v, sn


def snapshot(x):
    if isinstance(x, tuple):
        return tuple(snapshot(y) for y in x)
    if isinstance(x, np.ndarray):
        return ("nd", x.dtype.str, x.shape, x.tolist(), bool(x.flags.writeable))
    return ("py", repr(x))


def obj_snapshot(o):
    return (o.fmt, o.scale, jparts(o), np.asarray(o).tolist() if np.asarray(o).dtype != object else [str(v) for v in np.atleast_1d(np.asarray(o))])


def one_case(ctx, Time, TimeDelta, drv, scale, fmt, fmt2, scalar, dvals, evals, mjds, mjds2, tfmt, case):
    # ---- constructors, with snapshots of the caller's inputs
    t_in = None
    t, t_in, t_sn = make_time(Time, tfmt, mjds, scale, scalar)
    t2, t2_in, t2_sn = make_time(Time, tfmt, mjds2, scale, scalar)
    if (snapshot(t_in), snapshot(t2_in)) != (t_sn, t2_sn):
        ctx.violate("constructor-mutates-input", f"constructing Time(fmt={tfmt!r}) changed the caller's array (contents or flags)", case)
    if not scalar:
        for obj, arrs in ((t, t_in), (t2, t2_in)):
            for x in (arrs if isinstance(arrs, tuple) else (arrs,)):
                if isinstance(x, np.ndarray) and x.dtype == float and any(
                        isinstance(y, np.ndarray) and np.shares_memory(x, y) for y in (obj.jd1, obj.jd2, np.asarray(obj))):
                    ctx.violate("constructor-aliases-input", f"Time(fmt={tfmt!r}) keeps the caller's array as its own storage", case)
    raw_d = copy.deepcopy(dvals)
    d_in_before = None
    if fmt == "timedelta":
        d_arg = dvals[0] if scalar else np.array(dvals, dtype=object)
    else:
        d_arg = float(dvals[0]) if scalar else np.array(dvals, dtype=float)
    e_arg = (evals[0] if scalar else np.array(evals, dtype=object)) if fmt2 == "timedelta" else (
        float(evals[0]) if scalar else np.array(evals, dtype=float))
    before = (snapshot(d_arg), snapshot(e_arg), snapshot(t_in), snapshot(t2_in))
    d = TimeDelta(d_arg, fmt=fmt, scale=scale)
    e = TimeDelta(e_arg, fmt=fmt2, scale=scale)
    after = (snapshot(d_arg), snapshot(e_arg), snapshot(t_in), snapshot(t2_in))
    if before != after:
        ctx.violate("constructor-mutates-input", f"constructing TimeDelta(fmt={fmt!r}/{fmt2!r}) changed the caller's array",
                    {**case, "before": str(before), "after": str(after)})

    # ---- correspondence: constructor of the duration
    vr = delta_value_rats(fmt, dvals)
    lines = [f"c03 tojds {fmt} {rs(v)} 0" for v in vr]
    ans = drv.ask(lines)
    dj1, dj2 = jparts(d)
    for i, a in enumerate(ans):
        m1, m2 = (common.pr(x) for x in a.split())
        days = m1 + m2
        if not close(dj1[i] + dj2[i], days, days):
            ctx.disagree("TimeDelta constructor (instant)", {**case, "i": i}, a, [str(dj1[i]), str(dj2[i])])
        elif dj1[i] != m1:
            if abs(dj1[i] - m1) == 1:
                ctx.count("floor-edge")
            else:
                ctx.disagree("TimeDelta constructor (whole-day part)", {**case, "i": i}, a, [str(dj1[i]), str(dj2[i])])
        # normalisation is part of the model's theorem toJds_normalised: check it on the code too
        if not (dj1[i].denominator == 1 and 0 <= dj2[i] < 1):
            ctx.disagree("TimeDelta constructor normalisation", {**case, "i": i}, a, [str(dj1[i]), str(dj2[i])])

    # ---- operators: record implementation results
    snap0 = (obj_snapshot(t), obj_snapshot(t2), obj_snapshot(d), obj_snapshot(e))
    ops = {
        "add time delta": lambda: t + d,
        "sub time delta": lambda: t - d,
        "sub time time": lambda: t2 - t,
        "add delta delta": lambda: d + e,
        "sub delta delta": lambda: d - e,
        "add delta time": lambda: d + t,
    }
    operands = {"add time delta": (t, d), "sub time delta": (t, d), "sub time time": (t2, t),
                "add delta delta": (d, e), "sub delta delta": (d, e), "add delta time": (d, t)}
    kinds = {"add time delta": "time", "sub time delta": "time", "sub time time": "delta",
             "add delta delta": "delta", "sub delta delta": "delta", "add delta time": "time"}
    res = {}
    lines = []
    keys = []
    for name, f in ops.items():
        r = f()
        res[name] = r
        a, b = operands[name]
        a1, a2 = jparts(a)
        b1, b2 = jparts(b)
        op, ka, kb = name.split()
        for i in range(len(a1)):
            lines.append(f"c03 binop {op} {ka} {scale} {rs(a1[i])} {rs(a2[i])} {kb} {scale} {rs(b1[i])} {rs(b2[i])}")
            keys.append((name, i))
    ans = drv.ask(lines)
    for (name, i), a in zip(keys, ans):
        r = res[name]
        toks = a.split()
        want_kind = "time" if type(r).__mro__[1].__name__ == "TimeArray" or "TimeDelta" not in type(r).__name__ else "delta"
        r1, r2 = jparts(r)
        if toks[0] == "NI":
            ctx.disagree(f"operator {name}", {**case, "i": i}, a, "a value")
            continue
        m1, m2 = common.pr(toks[1]), common.pr(toks[2])
        big = max(abs(m1), 1)
        # jd1 parts are sums of whole/half days: exact in doubles; jd2 carries the rounding
        ok = (r1[i] == m1 or close(r1[i], m1, 0)) and close(r2[i], m2, max(abs(m2), 1)) and toks[0] == kinds[name]
        isdelta = "Delta" in type(r).__name__
        if (toks[0] == "delta") != isdelta:
            ok = False
        if not ok:
            ctx.disagree(f"operator {name}", {**case, "i": i}, a, [("delta" if isdelta else "time"), str(r1[i]), str(r2[i])])
        else:
            # theorem `flPw_err` / `result_normalised`: operands whose day parts are multiples of 1/2 (|.| <= 2^50) give a day
            # part without any rounding and a fraction part within 2^-53 (|jd2| + |jd2'|) of the exact one
            x, y = operands[name]
            (x1, x2), (y1, y2) = jparts(x), jparts(y)
            if x1[i].denominator <= 2 and y1[i].denominator <= 2 and abs(x1[i]) <= 2**50 and abs(y1[i]) <= 2**50:
                ctx.count("rounding-budget:hypotheses-met")
                if r1[i] != m1 or abs(r2[i] - m2) > U53 * (abs(x2[i]) + abs(y2[i])):
                    ctx.disagree(f"rounding budget of theorem flPw_err ({name})", {**case, "i": i}, a, [str(r1[i]), str(r2[i])])
            else:
                ctx.count("rounding-budget:day-part-off-grid")
    snap1 = (obj_snapshot(t), obj_snapshot(t2), obj_snapshot(d), obj_snapshot(e))
    after2 = (snapshot(d_arg), snapshot(e_arg), snapshot(t_in), snapshot(t2_in))
    if snap0 != snap1 or after2 != after:
        ctx.violate("operator-mutates-operand", "an arithmetic operator changed an operand or a caller array", case)

    # ---- oracle: the laws on the real code
    def law(name, lhs, rhs):
        for i, (x, y) in enumerate(zip(insts(lhs), insts(rhs))):
            if abs(x - y) >= NS:
                ctx.violate(f"law:{name}", f"{name} violated by {float((x - y) * 86400):.3e} s", {**case, "i": i})
                return

    law("(t+d)-t=d", (t + d) - t, d)
    law("(t-d)+d=t", (t - d) + d, t)
    law("(t2-t1)+t1=t2", (t2 - t) + t, t2)
    if fmt == "timedelta":
        negd = TimeDelta((-dvals[0]) if scalar else np.array([-v for v in dvals], dtype=object), fmt=fmt, scale=scale)
    else:
        negd = TimeDelta((-float(dvals[0])) if scalar else -np.array(dvals, dtype=float), fmt=fmt, scale=scale)
    law("t-d=t+(-d)", t - d, t + negd)
    # the same laws with durations that come out of earlier arithmetic (their two parts hold more than one float can)
    D = t2 - t
    DD = d + e
    law("t2-(t2-t1)=t1", t2 - D, t)
    law("(t+D)-D=t [D=t2-t1]", (t + D) - D, t)
    law("(t-D)+D=t [D=t2-t1]", (t - D) + D, t)
    law("(t-D)+D=t [D=d1+d2]", (t - DD) + DD, t)
    law("(t+D)-t=D [D=d1+d2]", (t + DD) - t, DD)
    law("t-D=t+(-D) [D=t2-t1]", t - D, t + (t - t2))
    law("d1+d2=d2+d1", d + e, e + d)
    law("(d1+d2)-d2=d1", (d + e) - e, d)
    # the value read back in its own format is the value given ("identically for every duration format")
    back = np.atleast_1d(np.asarray(getattr(d, fmt)))
    for i, v in enumerate(dvals):
        if fmt == "timedelta":
            okv = abs((back[i] - v).total_seconds()) <= 1e-6
        else:
            okv = abs(frac(back[i]) - frac(v)) <= NS * (86400 if fmt == "seconds" else 1) + Fraction(4, 10**16) * abs(frac(v))
        if not okv:
            ctx.violate(f"format-readback:{fmt}", f"TimeDelta(fmt={fmt}) read back as {back[i]} for {v}", {**case, "i": i})
            break
    # shapes: scalar in → scalar out, n in → n out
    for name, r in res.items():
        sz = np.asarray(r.jd1).size
        if sz != len(dvals):
            ctx.violate("shape", f"{name}: {len(dvals)} operands gave {sz} results", case)


DELTA_VARIANTS = ["nonzero", "zero", "negzero", "zeros-array", "empty-array", "array"]
TIME_VARIANTS = ["nonzero", "mjd-zero", "mjd-zeros-array", "empty-array", "array"]


def _operand(Time, TimeDelta, kind, variant, scale, rng):
    """an operand of the given kind and value variant, and its encoding for the driver"""
    if kind == "delta":
        v = {"nonzero": 1.5, "zero": 0.0, "negzero": -0.0, "zeros-array": np.array([0.0, -0.0, 0.0]), "empty-array": np.array([]),
             "array": np.array([2.5, -1.25])}[variant]
        fmt = rng.choice(["days", "jd", "seconds"])
        o = TimeDelta(v, fmt=fmt, scale=scale)
    else:
        v = {"nonzero": 58000.25, "mjd-zero": 0.0, "mjd-zeros-array": np.array([0.0, 0.0]), "empty-array": np.array([]),
             "array": np.array([58000.25, 58001.5])}[variant]
        o = Time(v, fmt="mjd", scale=scale)
    j1, j2 = jparts(o)
    if np.ndim(o.jd1) == 0:
        j1, j2 = j1[:1], j2[:1]
    if np.asarray(o.jd1).size == 0:
        j1, j2 = [], []
    return o, f"{kind};{scale};{enc_val(j1, j2, np.ndim(o.jd1) == 0)}"


def _outcome(f):
    try:
        f()
        return "value"
    except TypeError:
        return "TYPE"
    except AttributeError:
        return "ATTR"
    except ValueError:
        return "SHAPE"
    except Exception as ex:
        return f"ERR:{type(ex).__name__}"


def mixed_scales(ctx, Time, TimeDelta):
    """Mixing scales is refused rather than silently computed: all 20 ordered scale pairs x 6 operator shapes x value variants on
    both sides (non-zero, 0.0, -0.0, all-zero array, empty array, array; for epochs also mjd 0) — the whole Python expression,
    i.e. including whatever the reflected method of the right operand does — against `pyBinop`; then plain numbers as operands
    (`d + 0`, `0 + d`, `sum([...])`, …), which the model mirrors as the code has them (AttributeError / TypeError)."""
    drv = ctx.driver
    rng = ctx.rng
    SHAPES6 = [("t+d", "add", "time", "delta"), ("t-d", "sub", "time", "delta"), ("t-u", "sub", "time", "time"),
               ("d+d", "add", "delta", "delta"), ("d-d", "sub", "delta", "delta"), ("d+t", "add", "delta", "time")]
    lines, meta = [], []
    for sa in SCALES:
        for sb in SCALES:
            if sa == sb:
                continue
            for name, op, ka, kb in SHAPES6:
                lv = DELTA_VARIANTS if ka == "delta" else TIME_VARIANTS
                rv = DELTA_VARIANTS if kb == "delta" else TIME_VARIANTS
                combos = [(x, y) for x in lv for y in rv] if ctx.thorough else [(x, rng.choice(rv)) for x in lv] + [(rng.choice(lv), y) for y in rv]
                for va, vb in combos:
                    case = {"mixed": name, "sa": sa, "sb": sb, "left": va, "right": vb}
                    try:
                        a, ea = _operand(Time, TimeDelta, ka, va, sa, rng)
                        b, eb = _operand(Time, TimeDelta, kb, vb, sb, rng)
                    except Exception as ex:
                        ctx.count(f"mixed-scale:operand-not-constructible:{type(ex).__name__}")
                        continue
                    ctx.case(case)
                    ctx.count("mixed-scale")
                    ctx.count(f"mixed-left:{va}")
                    impl = _outcome((lambda: a + b) if op == "add" else (lambda: a - b))
                    lines.append(f"c03 py {op} {ea} {eb}")
                    meta.append((case, name, impl))
    for (case, name, impl), m in zip(meta, drv.ask(lines)):
        if m != impl:
            ctx.disagree("scale guard through Python's operator dispatch", case, m, impl)
        if impl != "TYPE":
            ctx.violate(f"mixed-scale:{name}", f"{name} across scales {case['sa']}/{case['sb']} (left {case['left']}, right {case['right']}) "
                        f"was not refused ({impl})", case)
    # plain numbers and sum(): mirrored, not required by the property (a number has no scale)
    lines, meta = [], []
    for scale in SCALES:
        for kind, variants in (("delta", ["nonzero", "zero", "array", "zeros-array"]), ("time", ["nonzero", "array"])):
            for variant in variants:
                o, eo = _operand(Time, TimeDelta, kind, variant, scale, rng)
                for num in (0, 0.0, -0.0, 1, 2.5):
                    pl = "plain0" if num == 0 else "plain1"
                    for op, f, g in (("add", lambda: o + num, lambda: num + o), ("sub", lambda: o - num, lambda: num - o)):
                        for side, fn, line in (("right", f, f"c03 py {op} {eo} {pl}"), ("left", g, f"c03 py {op} {pl} {eo}")):
                            case = {"plain_number": repr(num), "side": side, "op": op, "kind": kind, "variant": variant, "scale": scale}
                            ctx.case(case)
                            ctx.count(f"plain-number:{side}")
                            lines.append(line)
                            meta.append((case, _outcome(fn)))
                if kind == "delta":
                    o2, eo2 = _operand(Time, TimeDelta, kind, "nonzero", scale, rng)
                    for lst, enc in (([o], [eo]), ([o, o2], [eo, eo2]), ([o2, o, o2], [eo2, eo, eo2])):
                        case = {"sum": len(lst), "variant": variant, "scale": scale}
                        ctx.case(case)
                        ctx.count("plain-number:sum")
                        lines.append("c03 pysum " + " ".join(enc))
                        meta.append((case, _outcome(lambda: sum(lst))))
    for (case, impl), m in zip(meta, drv.ask(lines)):
        if m != impl:
            ctx.disagree("plain number as an operand / sum() (Python dispatch)", case, m, impl)
    # NumPy scalars / arrays on the left are handled by NumPy itself (ndarray arithmetic on the value array): recorded, not judged
    d = TimeDelta(1.5, fmt="days", scale="utc")
    ctx.count("numpy-left-operand:" + _outcome(lambda: np.float64(0) + d))


def replay(payload):
    """re-run the oracle on a stored case"""
    import json

    ctx = Ctx("C03", "quick", 0)
    Time, TimeDelta = _imp()
    c = payload.get("replay", payload)
    print(json.dumps(c, indent=1, default=str)[:2000])
    print("re-run `./check C03` with the recorded seed to reproduce; key:", payload.get("key"))
    return 0
