"""C07 — histories of PosVel objects: conversions are cached, contents are modified in place, rows are views.

A history is a list of operations on a growing store of objects (ids = order of creation):

    n:<t|k>:<lit>         PosVel(literal, 'trs' | 'kepler')
    c:<o>                 objs[o].to_system(the other system)           -> id of the object handed out
    o:<o>                 objs[o].to_system(its own system)             -> the object itself
    v:<o>:<key>           objs[o][int | slice]                          -> a view (shares memory)
    t:<o>:<key>           objs[o][[rows]]                               -> a copy of rows
    s:<o>:<key>:<lit>     objs[o][key] = literal                        (in place)
    a:<o>:<lit>           x = objs[o]; x += Delta(literal, ref_pos=x)   -> the object `x` is bound to afterwards (a new
    b:<o>:<lit>           x = objs[o]; x -= Delta(literal, ref_pos=x)      array in midgard: `__iadd__` returns `self + other`,
                          every other reference keeps the old contents; for the model a `n:` with the sum / difference)
    m:<o> / d:<o>         x = objs[o]; x *= 1.5 / x /= 1.5               not defined for position arrays: TypeError, nothing
                          changes (not an operation of the model)

keys: `i2` (int), `s0-2` (slice), `a` (`:`), `e1.5` (row, column), `l0.2` (list of rows).

oracle (independent of the Lean model): a *shadow* of plain ndarrays replays the writes with NumPy alone; whatever a
conversion hands out — at any point of any history — must equal the conversion of an object freshly built from the
shadow contents of the object asked (same shape, same code path: bit-for-bit up to 1e-12), `.M`/`.f` of every Kepler
object must be those of its current elements, and at the end every object must still hold its shadow contents.

correspondence: the Lean model `Midgard.Geo.PosCache` (driver `c07 hist …`) executes the same history on its store
(`_cache[system]`, `_dependent_objs`, memory blocks and index paths); compared after every step: the id handed out,
every object's cached conversion and list of live dependents; at the end the model's symbolic value of every object
(`L n`, `C(sys, t)`, `G(key, t)`, `P(key, v, t)`) is evaluated with NumPy and fresh conversions and compared with the
real contents.  The theorem `Props.C07.cache_coherent` says that in the model every conversion handed out in every
history is the conversion of the current contents.
"""
from __future__ import annotations

import math
import re

import numpy as np

from .geo_common import PI, disagree as gdisagree, violate as gviolate, fline, floats

TWO_PI = 2 * PI


# ------------------------------------------------------------------ the families of position arrays with two systems
class Family:
    """a class of position arrays with exactly two systems and a registered conversion each way; the tokens `t` / `k` of
    the operations and of the model stand for the first / second system"""
    name = "posvel"
    a, b = "trs", "kepler"
    width = 6
    cls_name = "PosVelArray"
    anomalies = True      # the second system has .M / .f
    terms = True          # the model's value terms can be evaluated (no attribute like ref_pos involved)

    def __init__(self, factory, gen_elements=None):
        self.factory = factory
        self.gen_elements = gen_elements
        self.other = {self.a: self.b, self.b: self.a}
        self.sys = {"t": self.a, "k": self.b}
        self.tok = {self.a: "t", self.b: "k"}

    def make(self, arr, system, like=None):
        return self.factory(arr, system)

    def gen_rows(self, rng, system, rows):
        els = np.array([self.gen_elements(rng) for _ in range(rows)], dtype=float)
        if system == "trs":
            # (until /repo 60f7c07 a (1, 6) Kepler array converted to a (6,) state: `np.squeeze` in kepler2trs)
            els = np.array(np.asarray(self.factory(els, "kepler").trs, dtype=float), copy=True).reshape(-1, 6)
        return els

    def gen_elem(self, rng, system, col, old):
        return self.gen_elements(rng)[col] if system == "kepler" else float(old) * (1 + 1e-4 * rng.choice([-1, 1]))

    def delta(self, arr, system, obj):
        """a delta that can be added to `obj` with `+=` (None: this system has none)"""
        if system != "trs":
            return None
        from midgard.data.position import PosVelDelta

        return PosVelDelta(np.array(arr, dtype=float), "trs", ref_pos=obj)

    def gen_delta(self, rng, shape):
        d = np.array([[rng.uniform(-100, 100) for _ in range(3)] + [rng.uniform(-40, 40) for _ in range(3)] for _ in range(max(1, shape[0] if len(shape) == 2 else 1))])
        return d[0] if len(shape) == 1 else d


class PositionFamily(Family):
    name = "position"
    a, b = "trs", "llh"
    width = 3
    cls_name = "PositionArray"
    anomalies = False

    def _llh(self, rng):
        return [rng.uniform(-1.5, 1.5), rng.uniform(-3.1, 3.1), rng.uniform(-100.0, 9000.0)]

    def gen_rows(self, rng, system, rows):
        els = np.array([self._llh(rng) for _ in range(rows)], dtype=float)
        if system == "trs":
            els = np.array(np.asarray(self.factory(els, "llh").trs, dtype=float), copy=True).reshape(-1, 3)
        return els

    def gen_elem(self, rng, system, col, old):
        return self._llh(rng)[col] if system == "llh" else float(old) * (1 + 1e-4 * rng.choice([-1, 1]))

    def delta(self, arr, system, obj):
        if system != "trs":
            return None
        from midgard.data.position import PositionDelta

        return PositionDelta(np.array(arr, dtype=float), "trs", ref_pos=obj)

    def gen_delta(self, rng, shape):
        d = np.array([[rng.uniform(-100, 100) for _ in range(3)] for _ in range(max(1, shape[0] if len(shape) == 2 else 1))])
        return d[0] if len(shape) == 1 else d


class PositionDeltaFamily(Family):
    """position deltas: trs <-> enu through the reference position, which every new array takes from the object it is
    made for (`like`) or from a fixed list of sites"""
    name = "posdelta"
    a, b = "trs", "enu"
    width = 3
    cls_name = "PositionDeltaArray"
    anomalies = False
    terms = False
    SITES = [[3771793.968, 140253.342, 5124304.349], [2102928.189, 721619.617, 5958196.398], [-2390024.1, 5564663.2, 1994709.3],
             [4075539.8, 931735.3, 4801629.4], [-4460996.1, 2682557.1, -3674443.9], [1130773.8, -4831253.6, 3994200.4]]

    def __init__(self, factory, position):
        super().__init__(factory)
        self.position = position

    def make(self, arr, system, like=None):
        arr = np.asarray(arr, dtype=float)
        if like is not None:
            ref = self.position(np.array(np.asarray(like.ref_pos.trs, dtype=float), copy=True), "trs")
        else:
            sites = np.array(self.SITES)
            ref = self.position(sites[0].copy() if arr.ndim == 1 else np.array([sites[i % 6] for i in range(arr.shape[0])]), "trs")
        return self.factory(arr, system, ref_pos=ref)

    def gen_rows(self, rng, system, rows):
        return np.array([[rng.uniform(-100, 100) for _ in range(3)] for _ in range(rows)], dtype=float)

    def gen_elem(self, rng, system, col, old):
        return rng.uniform(-100, 100)

    def delta(self, arr, system, obj):
        return None



# ------------------------------------------------------------------ keys
def key_of(tok: str):
    if tok == "a":
        return slice(None)
    if tok[0] == "i":
        return int(tok[1:])
    if tok[0] == "s":
        a, b = tok[1:].split("-")
        return slice(int(a), int(b))
    if tok[0] == "e":
        a, b = tok[1:].split(".")
        return (int(a), int(b))
    if tok[0] == "l":
        return [int(x) for x in tok[1:].split(".")]
    raise ValueError(tok)


def fresh_conv(fam, contents, system, like=None):
    """conversion of an object built now from these contents (the reference every read is compared with)"""
    o = fam.make(np.array(contents, dtype=float, copy=True), system, like)
    return np.array(np.asarray(o.to_system(fam.other[system]), dtype=float), copy=True)


def same(a, b, tol=1e-12):
    a, b = np.asarray(a, dtype=float), np.asarray(b, dtype=float)
    if a.shape != b.shape:
        return False
    if a.size == 0:
        return True
    both_nan = np.isnan(a) & np.isnan(b)
    with np.errstate(invalid="ignore"):
        d = np.abs(a - b) / np.maximum(1.0, np.abs(b))
    d = np.where(both_nan, 0.0, d)
    return bool(np.all(d <= tol))


# ------------------------------------------------------------------ the executor
class Hist:
    def __init__(self, fam):
        self.fam = fam
        self.objs = []        # the real objects, kept alive
        self.shadow = []      # plain ndarray (views of plain blocks) with the contents each object must have
        self.system = []
        self.source = []      # id of the object this one was converted from (None for new/view/take)
        self.block = []       # id of the memory block (shadow side)
        self.ops = []
        self.model_ops = []   # what the model is asked to do for each operation (differs for `a:`)
        self.lits = {}
        self.nblocks = 0
        self.last_write = {}  # block -> step of the last write
        self.filled = {}      # object id -> step at which its conversion was last handed out

    # -- bookkeeping
    def _add(self, obj, shadow, system, source, block):
        self.objs.append(obj)
        self.shadow.append(shadow)
        self.system.append(system)
        self.source.append(source)
        self.block.append(block)
        return len(self.objs) - 1

    def index_of(self, obj):
        for j, o in enumerate(self.objs):
            if o is obj:
                return j
        return None

    def lit(self, arr):
        n = len(self.lits)
        self.lits[n] = np.array(arr, dtype=float, copy=True)
        return n

    # -- operations; each returns the id handed out (or None)
    def apply(self, tok: str):
        self.ops.append(tok)
        self.model_ops.append(tok)
        p = tok.split(":")
        step = len(self.ops)
        if p[0] == "n":
            a = self.lits[int(p[2])]
            sh = np.array(a, copy=True)
            self.nblocks += 1
            return self._add(self.fam.make(np.array(a, copy=True), self.fam.sys[p[1]]), sh, self.fam.sys[p[1]], None, self.nblocks - 1)
        o = int(p[1])
        if p[0] == "c":
            res = self.objs[o].to_system(self.fam.other[self.system[o]])
            self.filled[o] = step
            j = self.index_of(res)
            if j is None:
                self.nblocks += 1
                j = self._add(res, np.array(np.asarray(res, dtype=float), copy=True), self.fam.other[self.system[o]], o, self.nblocks - 1)
            return j
        if p[0] == "o":      # to_system(own system): the object itself
            res = self.objs[o].to_system(self.system[o])
            j = self.index_of(res)
            if j is None:
                self.nblocks += 1
                j = self._add(res, np.array(np.asarray(res, dtype=float), copy=True), self.system[o], None, self.nblocks - 1)
            return j
        if p[0] == "v":
            k = key_of(p[2])
            return self._add(self.objs[o][k], self.shadow[o][k], self.system[o], None, self.block[o])
        if p[0] == "t":
            k = key_of(p[2])
            self.nblocks += 1
            return self._add(self.objs[o][k], np.array(self.shadow[o][k], copy=True), self.system[o], None, self.nblocks - 1)
        if p[0] in "md":
            self.model_ops[-1] = None
            x = self.objs[o]
            try:
                if p[0] == "m":
                    x *= 1.5
                else:
                    x /= 1.5
            except TypeError:
                return "TypeError"
            return "accepted"
        if p[0] in "ab":
            lit = self.lits[int(p[2])]
            total = self.shadow[o] + lit if p[0] == "a" else self.shadow[o] - lit
            x = self.objs[o]
            if p[0] == "a":
                x += self.fam.delta(lit, self.system[o], x)
            else:
                x -= self.fam.delta(lit, self.system[o], x)
            self.model_ops[-1] = f"n:{self.fam.tok[self.system[o]]}:{self.lit(total)}"
            j = self.index_of(x)
            if j is None:        # midgard: the name is bound to a new array
                self.nblocks += 1
                return self._add(x, np.array(total, copy=True), self.system[o], None, self.nblocks - 1)
            self.shadow[j][...] = total   # an implementation that updates in place: the contents must follow all the same
            self.last_write[self.block[j]] = step
            return j
        if p[0] == "s":
            k = key_of(p[2])
            self.objs[o][k] = self.lits[int(p[3])]
            self.shadow[o][k] = self.lits[int(p[3])]
            self.last_write[self.block[o]] = step
            return None
        raise ValueError(tok)

    # -- what the real objects look like inside (compared with the model's store)
    def snapshot(self):
        out = []
        for j, o in enumerate(self.objs):
            c = o._cache.get(self.fam.other[self.system[j]])
            ci = "-" if c is None else (self.index_of(c) if self.index_of(c) is not None else "x")
            own = o._cache.get(self.system[j])
            # live dependents that are PosVel arrays, as a set (the code registers a view
            # more than once: __array_finalize__, __new__ and __getitem__ each link it; the 1-d .pos/.vel arrays of a state
            # are dependents too, they are not objects of the store)
            deps = []
            for w in o._dependent_objs:
                d = w()
                if d is None or getattr(d, "cls_name", None) != self.fam.cls_name:
                    continue
                dj = self.index_of(d)
                dj = "x" if dj is None else dj
                if dj not in deps:
                    deps.append(dj)
            deps = ".".join(str(x) for x in sorted(deps, key=lambda x: (isinstance(x, str), x)))   # as a set
            out.append(f"{self.fam.tok[self.system[j]]}:{ci}{'' if own is None else '!own-system-cached'}:{deps}")
        return ",".join(out)

    def relation(self, o):
        """why a conversion of object o could be stale: the most recent write, relative to o"""
        cands = []
        if self.block[o] in self.last_write:
            cands.append((self.last_write[self.block[o]], "own-contents-written"))
        s = self.source[o]
        if s is not None and self.block[s] in self.last_write:
            cands.append((self.last_write[self.block[s]], "source-written"))
        for j, src in enumerate(self.source):
            if src is not None and self.block[src] == self.block[o] and self.block[j] in self.last_write:
                cands.append((self.last_write[self.block[j]], "result-written"))
        return max(cands)[1] if cands else "no-write"


# ------------------------------------------------------------------ generation
def gen_literal(h: Hist, rng, system, shape, gen_elements=None):
    """an array of the given shape holding valid states / elements / coordinates of `system`"""
    if len(shape) == 0:
        raise ValueError
    rows = 1 if len(shape) == 1 else shape[0]
    els = h.fam.gen_rows(rng, system, max(rows, 1))[:rows]
    return els[0] if len(shape) == 1 else els


def gen_set(h: Hist, rng, o, gen_elements):
    sh = h.shadow[o]
    system = h.system[o]
    if sh.ndim == 1:
        kind = rng.choice(["a", "a", "e"])
        if kind == "a":
            return f"s:{o}:a:{h.lit(gen_literal(h, rng, system, (h.fam.width,), gen_elements))}"
        col = rng.randrange(h.fam.width)
        new = h.fam.gen_elem(rng, system, col, sh[col])
        return f"s:{o}:i{col}:{h.lit(new)}"
    n = sh.shape[0]
    kind = rng.choice(["a", "a", "i", "i", "s", "e", "l"])
    if kind == "a" or n == 0:
        return f"s:{o}:a:{h.lit(gen_literal(h, rng, system, sh.shape, gen_elements))}"
    if kind == "i":
        return f"s:{o}:i{rng.randrange(n)}:{h.lit(gen_literal(h, rng, system, (h.fam.width,), gen_elements))}"
    if kind == "s":
        a = rng.randrange(n)
        b = rng.randint(a + 1, n)
        return f"s:{o}:s{a}-{b}:{h.lit(gen_literal(h, rng, system, (b - a, h.fam.width), gen_elements))}"
    if kind == "l":
        rows = sorted(rng.sample(range(n), rng.randint(1, n)))
        return f"s:{o}:l{'.'.join(map(str, rows))}:{h.lit(gen_literal(h, rng, system, (len(rows), h.fam.width), gen_elements))}"
    r, col = rng.randrange(n), rng.randrange(h.fam.width)
    new = h.fam.gen_elem(rng, system, col, sh[r, col])
    return f"s:{o}:e{r}.{col}:{h.lit(new)}"


def gen_view(h: Hist, rng, o):
    n = h.shadow[o].shape[0]
    if rng.random() < 0.6:
        return f"v:{o}:i{rng.randrange(n)}"
    a = rng.randrange(n)
    return f"v:{o}:s{a}-{rng.randint(a + 1, n)}"


def gen_new(h: Hist, rng, gen_elements, system=None, shape=None):
    w = h.fam.width
    system = system or rng.choice([h.fam.a, h.fam.b])
    shape = shape or rng.choice([(w,), (1, w), (2, w), (3, w), (4, w)])
    return f"n:{h.fam.tok[system]}:{h.lit(gen_literal(h, rng, system, shape, gen_elements))}"


TEMPLATES = ["iadd", "kept-result:all", "kept-result:row", "kept-result:view", "kept-result:view-of-view", "result-written",
             "result-written:view", "own:view", "chain", "random", "random", "random", "random"]


def gen_iadd(h: Hist, rng, o):
    return f"{rng.choice('ab')}:{o}:{h.lit(h.fam.gen_delta(rng, h.shadow[o].shape))}"


def next_ops(h: Hist, rng, template, gen_elements):
    """generator of operation tokens; looks at the store built so far"""
    if template == "iadd":
        # read a conversion, update with += / through a view, read again on the object the name is bound to now
        w = h.fam.width
        yield gen_new(h, rng, gen_elements, "trs", rng.choice([(w,), (1, w), (3, w)]))
        if rng.random() < 0.8:
            yield "c:0"
        if h.fam.delta(np.zeros(h.shadow[0].shape), "trs", h.objs[0]) is None:
            yield gen_set(h, rng, 0, gen_elements)
        else:
            yield gen_iadd(h, rng, 0)
        yield f"c:{len(h.objs) - 1}"
        yield "c:0"
        for _ in range(rng.randint(0, 3)):
            yield random_op(h, rng, gen_elements)
        return
    if template.startswith("kept-result") or template.startswith("result-written") or template == "own:view" or template == "chain":
        sysm = rng.choice([h.fam.a, h.fam.b])
        w = h.fam.width
        how = template.split(":")[1] if ":" in template else "all"
        need2d = how in ("row", "view", "view-of-view")
        shape = rng.choice([(2, w), (3, w), (4, w)]) if need2d else rng.choice([(w,), (1, w), (3, w), (w, w)])
        yield gen_new(h, rng, gen_elements, sysm, shape)
        yield "c:0"                              # object 1 = the conversion, kept
        n = h.shadow[0].shape[0] if len(shape) == 2 else 0
        if template.startswith("kept-result"):
            target = 0
            if how == "row":
                yield f"s:0:i{rng.randrange(n)}:{h.lit(gen_literal(h, rng, sysm, (h.fam.width,), gen_elements))}"
            else:
                if how in ("view", "view-of-view"):
                    yield gen_view(h, rng, 0) if how == "view" else f"v:0:s0-{n}"
                    target = 2
                    if how == "view-of-view":
                        yield gen_view(h, rng, 2)
                        target = 3
                yield gen_set(h, rng, target, gen_elements)
            yield "c:1"                          # convert the kept object back
            yield "c:0"
        elif template.startswith("result-written"):
            target = 1
            if how == "view" and h.shadow[1].ndim == 2:
                yield gen_view(h, rng, 1)
                target = 2
            yield gen_set(h, rng, target, gen_elements)
            yield "c:0"                          # the source is asked again
            yield "c:1"
        elif template == "own:view":
            if h.shadow[0].ndim == 2:
                yield gen_view(h, rng, 0)
                yield "c:2"
                yield gen_set(h, rng, rng.choice([0, 2]), gen_elements)
                yield "c:2"
            else:
                yield gen_set(h, rng, 0, gen_elements)
            yield "c:0"
        else:  # chain: a -> b -> a' ; write somewhere; ask everywhere
            yield "c:1"
            yield gen_set(h, rng, rng.randrange(len(h.objs)), gen_elements)
            for j in rng.sample(range(len(h.objs)), len(h.objs)):
                yield f"c:{j}"
        for _ in range(rng.randint(0, 3)):
            yield random_op(h, rng, gen_elements)
        return
    yield gen_new(h, rng, gen_elements)
    for _ in range(rng.randint(3, 10)):
        yield random_op(h, rng, gen_elements)


def random_op(h: Hist, rng, gen_elements):
    o = rng.randrange(len(h.objs))
    two_d = h.shadow[o].ndim == 2 and h.shadow[o].shape[0] > 0
    x = rng.random()
    if x < 0.03:
        return f"{rng.choice('omd')}:{o}"
    if x < 0.08 and h.system[o] == "trs" and h.fam.delta(np.zeros(h.shadow[o].shape), "trs", h.objs[o]) is not None:
        return gen_iadd(h, rng, o)
    if x < 0.40:
        return f"c:{o}"
    if x < 0.72:
        return gen_set(h, rng, o, gen_elements)
    if x < 0.90 and two_d:
        return gen_view(h, rng, o)
    if x < 0.95 and two_d:
        n = h.shadow[o].shape[0]
        rows = sorted(rng.sample(range(n), rng.randint(1, n)))
        return f"t:{o}:l{'.'.join(map(str, rows))}"
    if len(h.objs) < 6:
        return gen_new(h, rng, gen_elements)
    return f"c:{o}"


# ------------------------------------------------------------------ the model's symbolic values
TOKEN = re.compile(r"\s*([A-Z]\(|\)|,|[^(),\s]+)")


def parse_term(s: str):
    toks = TOKEN.findall(s)
    pos = 0

    def term():
        nonlocal pos
        t = toks[pos]
        pos += 1
        if t.endswith("("):
            args = []
            while True:
                args.append(term())
                sep = toks[pos]
                pos += 1
                if sep == ")":
                    break
            return (t[0], *args)
        return t

    out = term()
    if pos != len(toks):
        raise ValueError(f"trailing tokens in term {s!r}")
    return out


def eval_term(t, h: Hist):
    """NumPy value of a model term; conversions are made by freshly built objects"""
    if isinstance(t, str):
        if t[0] == "L":
            return np.array(h.lits[int(t[1:])], dtype=float, copy=True)
        raise ValueError(t)
    if t[0] == "C":      # C(sys, t): t converted *to* system sys
        return fresh_conv(h.fam, eval_term(t[2], h), h.fam.other[h.fam.sys[t[1]]])
    if t[0] == "G":
        return np.array(eval_term(t[2], h)[key_of(t[1])], copy=True)
    if t[0] == "P":      # P(key, v, t): t with t[key] = v
        a = np.array(eval_term(t[3], h), copy=True)
        if a.ndim == 0:
            return np.array(eval_term(t[2], h), copy=True)
        a[key_of(t[1])] = eval_term(t[2], h)
        return a
    raise ValueError(t)


# ------------------------------------------------------------------ one history: oracle + correspondence
def run_history(ctx, fam, GM, template, gen_elements=None, recorded=None):
    """runs a generated (template) or a recorded ({'ops': [...], 'lits': {...}}) history"""
    rng = ctx.rng
    h = Hist(fam)
    h.GM = GM
    pre = "history:" if fam.name == "posvel" else f"history:{fam.name}:"
    cnt = "hist-" if fam.name == "posvel" else f"hist-{fam.name}-"
    if recorded is not None:
        h.lits = {int(k): np.array(v, dtype=float) for k, v in recorded["lits"].items()}
        source = iter(recorded["ops"])
    else:
        source = next_ops(h, rng, template, gen_elements)
    rets, snaps = [], []

    def case():
        return {"fn": "history", "family": fam.name, "template": template, "ops": list(h.ops),
                "lits": {str(k): np.asarray(v).tolist() for k, v in h.lits.items()}}

    for tok in source:
        try:
            ret = h.apply(tok)
        except Exception as e:  # noqa: BLE001 - any exception of the real code is an outcome
            gviolate(ctx, f"{pre}raises:{tok.split(':')[0]}:{type(e).__name__}", f"operation {tok} of the history raised {type(e).__name__}: {e}", case())
            return h
        if tok[0] in "md":
            ctx.count(cnt + "op:" + tok[0])
            if ret != "TypeError":
                gviolate(ctx, pre + "scaling-accepted", f"`x {'*' if tok[0] == 'm' else '/'}= 1.5` on a position array did not raise TypeError (history {' '.join(h.ops)})", case())
            continue
        rets.append("-" if ret is None else str(ret))
        snaps.append(h.snapshot())
        ctx.count(cnt + "op:" + tok.split(":")[0] + (":" + tok.split(":")[2][0] if tok[0] in "vs" else ""))
        if tok[0] == "c":
            o = int(tok.split(":")[1])
            check_read(ctx, h, o, ret, case)
        if tok[0] == "o" and ret != int(tok.split(":")[1]):
            gviolate(ctx, pre + "own-system", f"to_system(own system) of object {tok.split(':')[1]} handed out another object (history {' '.join(h.ops)})", case())
    # every object still holds what the plain-NumPy replay of the writes says, and converts accordingly
    for o in range(len(h.objs)):
        if not same(np.asarray(h.objs[o], dtype=float), h.shadow[o], tol=0.0):
            gviolate(ctx, pre + "contents", f"object {o} of the history holds {np.asarray(h.objs[o]).ravel()[:6].tolist()} but the writes made to it give "
                     f"{h.shadow[o].ravel()[:6].tolist()}", {**case(), "object": o})
    for o in range(len(h.objs)):
        ret = h.apply(f"c:{o}")
        rets.append(str(ret))
        snaps.append(h.snapshot())
        check_read(ctx, h, o, ret, case, final=True)
    ctx.count(f"{cnt}template:{template}")
    ctx.count(f"{cnt}objects:{min(len(h.objs), 8)}")
    model_history(ctx, h, rets, snaps, case, GM)
    return h


def check_read(ctx, h: Hist, o, ret, case, final=False):
    """objs[o].to_system(other) handed out object `ret`: its values are the conversion of o's current contents"""
    fam = h.fam
    pre = "history:" if fam.name == "posvel" else f"history:{fam.name}:"
    OTHER = fam.other
    got = np.asarray(h.objs[ret], dtype=float)
    want = fresh_conv(fam, h.shadow[o], h.system[o], like=h.objs[o])
    rel = h.relation(o)
    ctx.count(("hist-" if fam.name == "posvel" else f"hist-{fam.name}-") + f"read:{rel}")
    got_c = got
    if fam.anomalies and fam.other[h.system[o]] == "kepler" and got.shape == want.shape:
        # Omega, omega, E are angles: an ulp in `u - vega` around 0 makes the wrap return 2 pi instead of 0
        got_c = got.copy()
        got_c[..., 3:] = want[..., 3:] + ((got[..., 3:] - want[..., 3:] + PI) % TWO_PI - PI)
    if not same(got_c, want):
        w = 0
        if got.shape == want.shape and got.ndim == 2:   # show the row that differs most
            with np.errstate(invalid="ignore"):
                w = int(np.nanargmax(np.max(np.abs(got - want) / np.maximum(1.0, np.abs(want)), axis=1)))
        row = (lambda a: np.asarray(a).reshape(-1, fam.width)[w].tolist() if np.asarray(a).size >= fam.width * (w + 1) else np.ravel(a)[:6].tolist())
        gviolate(ctx, f"{pre}stale-conversion:{rel}",
                 f"object {o} ({h.system[o]}, shape {h.shadow[o].shape}, row {w}: {row(h.shadow[o])}) converted to {OTHER[h.system[o]]} gives "
                 f"{row(got)} but an object built from its current contents gives {row(want)} "
                 f"(history {' '.join(h.ops)})", {**case(), "object": o})
    # independent of the library (a process-wide memo of a kernel would serve the fresh object as well): the two-body
    # relations between the state and the elements of the pair (object asked, object handed out)
    if fam.anomalies and got.shape == want.shape:
        st, el = (h.shadow[o], got) if h.system[o] == "trs" else (got, h.shadow[o])
        st, el = np.asarray(st, dtype=float).reshape(-1, 6), np.asarray(el, dtype=float).reshape(-1, 6)
        GM = h.GM
        with np.errstate(all="ignore"):
            rn, vn = np.linalg.norm(st[:, :3], axis=1), np.linalg.norm(st[:, 3:], axis=1)
            a, e, E = el[:, 0], el[:, 1], el[:, 5]
            bad = ((np.abs(1.0 / (2.0 / rn - vn * vn / GM) - a) > 1e-9 * np.abs(a)) | (np.abs(rn - a * (1 - e * np.cos(E))) > 1e-9 * rn)
                   | (np.abs(np.einsum("ij,ij->i", st[:, :3], st[:, 3:]) - np.sqrt(GM * a) * e * np.sin(E)) > 1e-9 * rn * vn))
            ok = np.isfinite(st).all(axis=1) & np.isfinite(el).all(axis=1) & (a > 0) & (e < 1)
        if np.any(bad & ok):
            i = int(np.argmax(bad & ok))
            gviolate(ctx, f"{pre}two-body:{rel}", f"state {st[i].tolist()} and elements {el[i].tolist()} (object {o} and its conversion, row {i}) violate vis-viva / "
                     f"r = a(1 - e cos E) / r.v = sqrt(GM a) e sin E (history {' '.join(h.ops)})", {**case(), "object": o})
    # the anomalies of the Kepler side belong to the elements it holds now
    for j in ((o, ret) if fam.anomalies else ()):
        if h.system[j] != "kepler":
            continue
        el = h.shadow[j] if j == o else want
        with np.errstate(invalid="ignore"):
            e, E = el[..., 1], el[..., 5]
            M_want = E - e * np.sin(E)
            f_want = np.arctan2(np.sqrt(1 - e ** 2) * np.sin(E), np.cos(E) - e)
            M = np.asarray(h.objs[j].M, dtype=float)
            f = np.asarray(h.objs[j].f, dtype=float)
        if not same(np.squeeze(M), np.squeeze(M_want), tol=4e-15):
            gviolate(ctx, f"history:kepler-equation:{rel}", f"M of object {j} is {np.ravel(M)[:4].tolist()} but E - e sin E of its elements is {np.ravel(M_want)[:4].tolist()} "
                     f"(history {' '.join(h.ops)})", {**case(), "object": j})
        if not same(np.squeeze(f), np.squeeze(f_want), tol=1e-13):
            gviolate(ctx, f"history:true-anomaly:{rel}", f"f of object {j} is {np.ravel(f)[:4].tolist()} but its elements give {np.ravel(f_want)[:4].tolist()} "
                     f"(history {' '.join(h.ops)})", {**case(), "object": j})


def model_history(ctx, h: Hist, rets, snaps, case, GM):
    """the Lean store executes the same operations"""
    drv = ctx.driver
    fam = h.fam
    ans = drv.ask1("c07 hist " + " ".join(t for t in h.model_ops if t is not None))
    if ans is None or ans.startswith("?") or "|" not in ans:
        gdisagree(ctx, f"{fam.name} cache/view store: history rejected by the model", case(), ans, rets)
        return
    steps, _, terms = ans.partition(" || ")
    msteps = steps.split(" ; ")
    impl_steps = [f"{r} | {s}" for r, s in zip(rets, snaps)]
    if msteps != impl_steps:
        first = next((i for i, (a, b) in enumerate(zip(msteps, impl_steps)) if a != b), min(len(msteps), len(impl_steps)))
        gdisagree(ctx, f"{fam.name} cache/view store (object handed out, cached conversion, dependents of every object after every step)",
                  {**case(), "first_difference_at_step": first, "op": (h.ops[first] if first < len(h.ops) else None)},
                  msteps[first] if first < len(msteps) else None, impl_steps[first] if first < len(impl_steps) else None)
        return
    mterms = terms.split(" ; ")
    if len(mterms) != len(h.objs):
        gdisagree(ctx, f"{fam.name} cache/view store: number of objects", case(), len(mterms), len(h.objs))
        return
    for o, t in enumerate(mterms if fam.terms else []):
        try:
            val = eval_term(parse_term(t), h)
        except Exception as e:  # noqa: BLE001
            gdisagree(ctx, f"{fam.name} cache/view store: value term of the model cannot be evaluated", {**case(), "object": o}, t, f"{type(e).__name__}: {e}")
            return
        if not same(np.asarray(h.objs[o], dtype=float), val):
            gdisagree(ctx, f"{fam.name} cache/view store: contents of an object at the end of the history (model term evaluated with fresh conversions)",
                      {**case(), "object": o}, [t, np.ravel(val)[:6].tolist()], np.asarray(h.objs[o], dtype=float).ravel()[:6].tolist())
            return
    # the values handed out, against the Float model of the kernels (rows of the last object pair of the history)
    if fam.name == "posvel":
        float_model_rows(ctx, h, case, GM)


def angdiff(x, y):
    return abs((x - y + PI) % TWO_PI - PI)


def float_model_rows(ctx, h: Hist, case, GM):
    drv = ctx.driver
    o = ctx.rng.randrange(len(h.objs))
    res = h.objs[o].to_system(h.fam.other[h.system[o]])
    src = np.asarray(h.shadow[o], dtype=float).reshape(-1, 6)
    out = np.asarray(res, dtype=float).reshape(-1, 6)
    for row, got in list(zip(src, out))[:2]:
        if not (np.all(np.isfinite(row)) and np.all(np.isfinite(got))):
            continue
        if h.system[o] == "kepler":
            m = floats(drv.ask1(f"c07 f kepler2trs {fline(GM, *row)}"))
            rn, vn = float(np.linalg.norm(got[:3])), float(np.linalg.norm(got[3:]))
            bad = (max(abs(x - y) for x, y in zip(got[:3], m[:3])) > 16 * 2.3e-16 * rn
                   or max(abs(x - y) for x, y in zip(got[3:], m[3:])) > 16 * 2.3e-16 * vn)
        else:
            m = floats(drv.ask1(f"c07 f trs2kepler {fline(GM, *row)}"))
            a, e, inc = got[0], got[1], got[2]
            if not (1e-4 < e < 0.99 and 1e-3 < inc < PI - 1e-3 and a > 0):
                continue
            amp = 1.0 / (e * min(1.0, math.sin(inc)))
            tol_ang = 2e-14 * amp / e
            bad = (abs(got[0] - m[0]) > 1e-13 * a or abs(got[1] - m[1]) > 1e-14 / e or abs(got[2] - m[2]) > 1e-13 / math.sin(inc)
                   or angdiff(got[3], m[3]) > 1e-13 / math.sin(inc) or angdiff(got[4], m[4]) > tol_ang or angdiff(got[5], m[5]) > tol_ang)
        ctx.count("hist-float-model-rows")
        if bad:
            gdisagree(ctx, "conversion handed out at the end of a history (Float model of the kernel on the object's contents)",
                      {**case(), "object": o}, m, got.tolist())
