#!/usr/bin/env python3-vt
"""High-precision reference for C05 (runs under the tooling interpreter `python3-vt`, which has mpmath).

stdin : one JSON document {"dps": 50, "jobs": [ {"a": "num/den", "finv": "num/den" | null,
         "xyz": [hex, hex, hex], "llh": [hex, hex, hex] | null}, ... ]}      (doubles as float.hex())
stdout: one JSON list, per job
         {"exact": [lat, lon, h],        geodetic coordinates of xyz, iterated to convergence at `dps` digits
          "onestep": [lat, h],           the published one-step (Halley) algorithm evaluated at `dps` digits
          "resid": d}                    |llh2trs_exact(llh) - xyz| in metres for the implementation's llh
       numbers are decimal strings with 30 significant digits.

This is a *measurement* reference (mpmath is trusted, nothing here is proved).
"""
import json
import sys
from fractions import Fraction

import mpmath as mp


def mpq(s):
    q = Fraction(s)
    return mp.mpf(q.numerator) / mp.mpf(q.denominator)


def mph(h):
    return mp.mpf(float.fromhex(h))


def params(a, finv):
    f = mp.mpf(0) if finv is None else 1 / finv
    b = a * (1 - f)
    e2 = 1 - b * b / (a * a)
    return f, b, e2


def exact_geodetic(a, finv, x, y, z):
    f, b, e2 = params(a, finv)
    p = mp.sqrt(x * x + y * y)
    lon = mp.atan2(y, x)
    if p == 0:
        lat = mp.sign(z) * mp.pi / 2
        return lat, lon, abs(z) - b
    lat = mp.atan2(z, p * (1 - e2))
    eps = mp.mpf(10) ** (-(mp.mp.dps - 5))
    for _ in range(500):
        s = mp.sin(lat)
        n = a / mp.sqrt(1 - e2 * s * s)
        new = mp.atan2(z + e2 * n * s, p)
        if abs(new - lat) < eps:
            lat = new
            break
        lat = new
    s, c = mp.sin(lat), mp.cos(lat)
    h = p * c + z * s - a * mp.sqrt(1 - e2 * s * s)
    return lat, lon, h


def onestep(a, finv, x, y, z):
    """transformation._trs2llh evaluated in high precision (same formulas, same branch)"""
    f, b, e2 = params(a, finv)
    e4t = e2 * e2 * mp.mpf("1.5")
    ec2 = 1 - e2
    ec = mp.sqrt(ec2)
    p2 = x * x + y * y
    absz = abs(z)
    if p2 <= a * a * mp.mpf(float(1e-32)):
        return mp.sign(z) * mp.pi / 2, absz - b
    p = mp.sqrt(p2)
    s0 = absz / a
    pn = p / a
    zc = ec * s0
    c0 = ec * pn
    a0 = mp.sqrt(c0 * c0 + s0 * s0)
    d0 = zc * a0**3 + e2 * s0**3
    f0 = pn * a0**3 - e2 * c0**3
    b0 = e4t * s0 * s0 * c0 * c0 * pn * (a0 - ec)
    s1 = d0 * f0 - b0 * s0
    cc = ec * (f0 * f0 - b0 * c0)
    lat = mp.atan(s1 / cc)
    h = (p * cc + absz * s1 - a * mp.sqrt(ec2 * s1 * s1 + cc * cc)) / mp.sqrt(s1 * s1 + cc * cc)
    return lat * mp.sign(z), h


def tangential_offset(a, finv, x, y, z):
    """R of Props/C05.roundtrip_error_closed_form: (|z|·cc − p·s1)/D + e²·a·s1·cc/(D·W) with (s1, cc) of the one-step scheme;
    None in the pole branch"""
    f, b, e2 = params(a, finv)
    e4t = e2 * e2 * mp.mpf("1.5")
    ec2 = 1 - e2
    ec = mp.sqrt(ec2)
    p2 = x * x + y * y
    absz = abs(z)
    if p2 <= a * a * mp.mpf(float(1e-32)):
        return None
    p = mp.sqrt(p2)
    s0 = absz / a
    pn = p / a
    zc = ec * s0
    c0 = ec * pn
    a0 = mp.sqrt(c0 * c0 + s0 * s0)
    d0 = zc * a0**3 + e2 * s0**3
    f0 = pn * a0**3 - e2 * c0**3
    b0 = e4t * s0 * s0 * c0 * c0 * pn * (a0 - ec)
    s1 = d0 * f0 - b0 * s0
    cc = ec * (f0 * f0 - b0 * c0)
    D = mp.sqrt(s1 * s1 + cc * cc)
    W = mp.sqrt(ec2 * s1 * s1 + cc * cc)
    return (absz * cc - p * s1) / D + e2 * a * s1 * cc / (D * W)


def llh2trs(a, finv, lat, lon, h):
    f, b, e2 = params(a, finv)
    w = (1 - f) ** 2
    cl, sl = mp.cos(lat), mp.sin(lat)
    ac = a / mp.sqrt(cl * cl + w * sl * sl)
    r = (ac + h) * cl
    return r * mp.cos(lon), r * mp.sin(lon), (w * ac + h) * sl


def main():
    doc = json.load(sys.stdin)
    mp.mp.dps = int(doc.get("dps", 50))
    out = []
    for job in doc["jobs"]:
        a = mpq(job["a"])
        finv = None if job["finv"] is None else mpq(job["finv"])
        x, y, z = (mph(v) for v in job["xyz"])
        lat, lon, h = exact_geodetic(a, finv, x, y, z)
        lat1, h1 = onestep(a, finv, x, y, z)
        res = {"exact": [mp.nstr(v, 30) for v in (lat, lon, h)], "onestep": [mp.nstr(v, 30) for v in (lat1, h1)]}
        # the algorithm in exact arithmetic: its round-trip error, and the closed form R of that error
        X1, Y1, Z1 = llh2trs(a, finv, lat1, lon, h1)
        res["onestep_roundtrip"] = mp.nstr(mp.sqrt((X1 - x) ** 2 + (Y1 - y) ** 2 + (Z1 - z) ** 2), 20)
        R = tangential_offset(a, finv, x, y, z)
        res["R"] = None if R is None else mp.nstr(R, 20)
        if job.get("llh"):
            la, lo, hh = (mph(v) for v in job["llh"])
            X, Y, Z = llh2trs(a, finv, la, lo, hh)
            res["resid"] = mp.nstr(mp.sqrt((X - x) ** 2 + (Y - y) ** 2 + (Z - z) ** 2), 12)
        out.append(res)
    json.dump(out, sys.stdout)


if __name__ == "__main__":
    main()
