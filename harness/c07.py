"""C07 — orbit state <-> Keplerian elements conversion is invertible and consistent.

translate:   translator/extract_geodesy.py → Generated/PositionSystems.lean (registered conversions, constant.GM);
             translator/extract_kepler.py → Generated/KeplerShape.lean (einsum contractions, omega wrap, PQW @ column, hstack order)
prove:       lean/Midgard/Props/C07.lean — two-body relations of `kepler2trs` output for all elements with
             cos²+sin² = 1 pairs (vis-viva, angular momentum, inclination/node/perigee direction pairs, r·v),
             Kepler's equation, true-anomaly half-angle relation, both inverses over ℝ, principal ranges,
             coherence of the conversion cache of PosVel objects in every history (Model/PosCache.lean)
correspond:  PosVel(...,'kepler').trs, PosVel(...,'trs').kepler, .M, .f of the real code vs the compiled model
             at `Float` (whole chain through libm) and, for the algebraic core of kepler2trs, at `Rat` on the exact
             rationals of NumPy's cos/sin/sqrt values
oracle:      on the real code: state -> elements -> state < 1e-8 relative; elements -> state -> elements; vis-viva,
             angular-momentum eccentricity and inclination, node/perigee/anomaly angles against an independent
             vector construction (node line, eccentricity vector) and in their principal ranges; Kepler's equation and
             the half-angle relation; same numbers for (6,), (1,6), (n,6)
types:       harness/c07_types.py — the same values handed over as float32 / int / list / tuple / object / big-endian /
             Fortran-ordered / strided / reversed / read-only input: float64 contents and bit-identical conversions, M, f
histories:   harness/c07_hist.py — conversions, row views, row copies and in-place writes on a store of PosVel objects:
             oracle = every conversion handed out equals the conversion of a freshly built object with the current
             contents (plain-NumPy shadow of the writes), M/f belong to the current elements; correspondence = the
             Lean store (`c07 hist`): id handed out, `_cache`, `_dependent_objs` of every object after every step,
             symbolic contents at the end
"""
from __future__ import annotations

import json
import math
import warnings
from fractions import Fraction

import numpy as np

from . import common
from .common import Ctx, frac
from .geo_common import disagree as gdisagree, violate as gviolate, leancheck, run_corpus
from .geo_common import PI, as_shape, close, fbits, fline, floats, qline, rats, rows_of, ulps
from . import c07_hist, c07_types

REL = 1e-8
TWO_PI = 2 * PI


def _imp():
    """PosVel and the gravitational constant of the *default* source of constant.txt — deliberately not `constant.GM`
    read at call time: outside a `use_source` block every conversion has to use this value"""
    from midgard.data.position import PosVel
    from midgard.math.constant import constant

    return PosVel, float(constant.get("GM", source="default"))


def translate():
    from translator import extract_geodesy, extract_kepler

    out = dict(extract_geodesy.write_all())
    try:
        out.update(extract_kepler.write_all())
    except extract_kepler.Untranslatable as e:
        out["KeplerShape.lean"] = f"not translated: {e}"
    return out


def gen_angle02pi(rng):
    k = rng.random()
    if k < 0.25:
        # octant boundaries and their neighbourhoods
        base = rng.randint(0, 8) * (PI / 4)    # 8: just below 2 pi (clamped into [0, 2 pi))
        return min(max(base + rng.choice([0.0, 1e-9, -1e-9, 1e-4, -1e-4]), 0.0), math.nextafter(TWO_PI, 0))
    return rng.uniform(0, math.nextafter(TWO_PI, 0))


def gen_elements(rng):
    k = rng.random()
    a = rng.choice([6.6e6, 6.0e7]) if k < 0.05 else rng.uniform(6.6e6, 6.0e7)
    e = rng.choice([0.001, 0.95]) if rng.random() < 0.08 else (10 ** rng.uniform(-3, -1) if rng.random() < 0.3 else rng.uniform(0.001, 0.95))
    e = min(max(e, 0.001), 0.95)
    i = rng.choice([0.01, PI - 0.01, PI / 2]) if rng.random() < 0.1 else rng.uniform(0.01, PI - 0.01)
    return [a, e, i, gen_angle02pi(rng), gen_angle02pi(rng), gen_angle02pi(rng)]


def angdiff(x, y):
    return abs((x - y + PI) % TWO_PI - PI)


def run(ctx: Ctx):
    warnings.simplefilter("ignore")
    ctx.extra["translated"] = translate()
    if isinstance(ctx.extra["translated"].get("KeplerShape.lean"), str):
        gdisagree(ctx, "source tie: translator/extract_kepler.py cannot read the einsum / omega wrap / PQW product of transformation.py",
                  {"fn": "extract_kepler"}, "the shapes described in translator/extract_kepler.py", ctx.extra["translated"]["KeplerShape.lean"])
    ctx.proof = common.prove("C07")
    leancheck(ctx, "C07")
    ctx.rule = ("elements: a in [6600 km, 60000 km], e in [0.001, 0.95] (log-dense at small e, both ends), i in [0.01, pi-0.01] "
                "(incl. polar, both ends, retrograde), Omega/omega/E in [0, 2pi) with octant boundaries and +-1e-9/1e-4 "
                "neighbourhoods; shapes (6,), (1,6), (n,6); both directions. Typed inputs (after every fifth case): the values of 1-6 states or element sets, rounded so that float32 (or int32/int64: whole metres and m/s) holds them exactly, handed to PosVel as float32, int32, int64, nested list, tuple, object array, big-endian float64, read-only, Fortran-ordered, strided and negative-stride arrays. Histories (after every second case, thorough tier: sixth; one more on Position trs/llh or PositionDelta trs/enu objects after every fourth of these): 1-6 objects, 4-14 "
                "operations out of PosVel(...), to_system, obj[int|slice] views (and views of views), obj[[rows]] copies, "
                "obj[key] = values with key int / slice / : / (row, column) / list of rows, written to the source, to a view, "
                "to a view of a view, to the conversion handed out or to a view of it; 8 scripted shapes of the pattern convert -> "
                "keep -> write in place -> convert the kept object back (both directions) + random histories; every object is "
                "converted once more at the end. Non-trivial: every case; distinct by element values / operations.")
    ctx.trusted += ["floating-point error is measured on the sampled inputs, not proved",
                    "libm sin/cos/sqrt/atan2 (principal range (-pi, pi]) trusted",
                    "NumPy broadcasting / einsum / matmul over rows modelled as map; `a ** 3` modelled as a*a*a",
                    "histories: NumPy basic/advanced indexing semantics (the shadow replays the writes on plain ndarrays); the "
                    "model store abstracts array values (symbolic terms, evaluated by the harness with fresh conversions)"]
    ctx.assumptions += ["model inputs are the exact doubles the implementation was given; GM = constant.GM of the tree under test",
                        "histories: contents are written through `obj[key] = v` of the object or of a view obtained by obj[int] / "
                        "obj[slice] while all objects stay referenced, attribute `other` is None; writes that bypass __setitem__ "
                        "(np.copyto, obj.val[:] = v, obj.fill, the ndarray the object was built from) and views NumPy creates without "
                        "__getitem__'s registration (obj[i, :], obj[...], obj.view(), obj.reshape) leave caches stale and are outside "
                        "the histories generated"]
    PosVel, GM = _imp()
    drv, rng = ctx.driver, ctx.rng
    gm_model = drv.ask1("c07 gm")
    if Fraction(gm_model) != frac(GM):
        gdisagree(ctx, "constant.GM (generated table)", {"fn": "GM"}, gm_model, GM)
    n = ctx.budget(700, 32000)
    corpus = []
    hist_corpus = []

    def sort_corpus(c):
        for one in (c if isinstance(c, list) else [c]):
            if one.get("kind") == "kepler":
                corpus.append(one)
            elif one.get("kind") == "history":
                hist_corpus.append(one)

    run_corpus(ctx, "C07", sort_corpus)
    for c in hist_corpus:
        history_case(ctx, "corpus", recorded=c, family=c.get("family", "posvel"))
    every = ctx.budget(2, 6)     # a history after every second (thorough tier: sixth) case
    for gi in range(len(corpus) + n):
        if gi < len(corpus):
            shape, els = corpus[gi]["shape"], [list(map(float, r)) for r in corpus[gi]["elements"]]
            m = len(els)
        else:
            m = rng.choice([1, 1, 1, 2, 3, 3, 4, 5, 6, 6, 7])   # 3 and 6 rows: the array is as long as a row is wide
            shape = rng.choice(["1d", "1xk"]) if m == 1 else "nxk"
            els = [gen_elements(rng) for _ in range(m)]
            if m > 1 and rng.random() < 0.15:
                # an arc: the rows share the orbital plane and the line of apsides up to a slow drift
                drift = rng.choice([0.0, 1e-9, 1e-7, 1e-6, 5e-6])
                for j in range(1, m):
                    els[j] = [els[0][0], els[0][1]] + [min(x * (1 + j * drift), math.nextafter(TWO_PI if c > 0 else PI - 0.01, 0))
                                                        for c, x in enumerate(els[0][2:5])] + [els[j][5]]
                ctx.count(f"arc:drift={drift}")
        case = {"fn": "kepler<->trs", "shape": shape, "elements": els}
        ctx.case(case, nontrivial=True)
        ctx.count(f"shape={shape}")
        for el in els:
            ctx.count("retrograde" if el[2] > PI / 2 else "prograde")
            ctx.count("e<0.01" if el[1] < 0.01 else ("e>0.8" if el[1] > 0.8 else "e:mid"))
            ctx.count(f"E-octant={int(el[5] // (PI / 4))}")
            ctx.count(f"omega-octant={int(el[4] // (PI / 4))}")
        try:
            one_case(ctx, case, shape, els)
        except Exception as e:
            gviolate(ctx, f"raises:{type(e).__name__}", f"kepler/trs conversion raised {type(e).__name__}: {e}", case)
        if gi % 29 == 0:
            check_gm_sources(ctx)
        if gi % 5 == 2:
            typed_case(ctx)
        if gi % every == 0:
            history_case(ctx, c07_hist.TEMPLATES[(gi // every) % len(c07_hist.TEMPLATES)])
        if gi % (4 * every) == 1:   # the same machinery on the other two-system classes (Position trs/llh, PositionDelta trs/enu)
            history_case(ctx, c07_hist.TEMPLATES[(gi // (4 * every)) % len(c07_hist.TEMPLATES)], family=["position", "posdelta"][(gi // (4 * every)) % 2])
    check_gm_sources(ctx)
    ctx.traces = ctx.evaluations


def families():
    """the position-array classes with two systems and a conversion each way; `posvel` is the one C07 is about, the other
    two go through the same `PosBase.to_system` / `convert_to` / `__getitem__` / `__setitem__` code"""
    from midgard.data.position import Position, PositionDelta

    PosVel, _ = _imp()
    return {"posvel": c07_hist.Family(PosVel, gen_elements), "position": c07_hist.PositionFamily(Position),
            "posdelta": c07_hist.PositionDeltaFamily(PositionDelta, Position)}


def history_case(ctx, template, recorded=None, family="posvel"):
    """a history of conversions, views and in-place writes on position objects (harness/c07_hist.py)"""
    _, GM = _imp()
    h = None
    try:
        h = c07_hist.run_history(ctx, families()[family], GM, template, gen_elements, recorded)
    except Exception as e:
        gviolate(ctx, f"history:harness-raises:{type(e).__name__}", f"history ({family}, {template}) raised {type(e).__name__}: {e}", {"fn": "history", "family": family, "template": template})
    if h is not None:
        ctx.case({"fn": "history", "family": family, "ops": h.ops, "lits": {k: np.asarray(v).tolist() for k, v in h.lits.items()}}, nontrivial=True)


def typed_case(ctx, recorded=None):
    """the same values handed to PosVel in other numeric types / memory layouts (harness/c07_types.py)"""
    PosVel, GM = _imp()
    try:
        if recorded is not None:
            c07_types.run_typed(ctx, PosVel, GM, recorded["system"], np.ascontiguousarray(np.array(recorded["values"], dtype=float)), recorded.get("how", "recorded"))
        else:
            c07_types.typed_case(ctx, PosVel, GM, gen_elements)
    except Exception as e:
        gviolate(ctx, f"typed-input:harness-raises:{type(e).__name__}", f"typed-input case raised {type(e).__name__}: {e}", {"fn": "typed-input"})
    ctx.case({"fn": "typed-input", "n": ctx.evaluations}, nontrivial=True)


def check_gm_sources(ctx):
    """histories around `constant.use_source`: inside a block the conversions use that source's GM; after the block —
    left normally or by an exception raised inside it and caught by the caller — they use the default GM again"""
    from midgard.dev import exceptions
    from midgard.math.constant import constant

    PosVel, GM = _imp()
    drv, rng = ctx.driver, ctx.rng
    sources = []
    for src in sorted(constant._constants["GM"].as_dict()):
        if src.startswith("__") or src == "default":
            continue
        try:
            sources.append((src, float(constant.get("GM", source=src))))
        except exceptions.UnknownConstantError:
            continue
    src, gm_src = rng.choice(sources)
    k = ctx.__dict__.get("_gm_hist", 0)
    ctx.__dict__["_gm_hist"] = k + 1
    how = ["unknown-constant-inside", "exception-inside", "normal-exit"][k % 3]
    gm_history(ctx, src, gm_src, how, gen_elements(rng))


def gm_history(ctx, src, gm_src, how, el):
    from midgard.dev import exceptions
    from midgard.math.constant import constant

    PosVel, GM = _imp()
    drv = ctx.driver
    case = {"fn": "use_source history", "source": src, "GM_source": gm_src, "GM_default": GM, "leave_block_by": how, "elements": el}
    ctx.case(case, nontrivial=True)
    ctx.count(f"use_source:{how}")
    state = np.asarray(PosVel(np.array(el), "kepler").trs, dtype=float)
    inside = None
    try:
        with constant.use_source(src):
            inside = np.asarray(PosVel(state.copy(), "trs").kepler, dtype=float)
            if how == "unknown-constant-inside":
                # a constant this source does not define: raises UnknownConstantError inside the block
                missing = [c for c in constant._constants.section_names if src not in constant._constants[c].as_dict()]
                getattr(constant, missing[0]) if missing else (_ for _ in ()).throw(exceptions.UnknownConstantError("none missing"))
            elif how == "exception-inside":
                raise ZeroDivisionError("raised by the caller inside the block")
    except (exceptions.UnknownConstantError, ZeroDivisionError):
        pass
    after_source = constant.source
    after = np.asarray(PosVel(state.copy(), "trs").kepler, dtype=float)
    r, v = state[:3], state[3:]
    rn, vn = float(np.linalg.norm(r)), float(np.linalg.norm(v))

    def vis_viva(gm):
        return 1.0 / (2.0 / rn - vn * vn / gm)

    # correspondence: the model run with the GM that applies
    m_in = floats(drv.ask1(f"c07 f trs2kepler {fline(gm_src, *state)}"))
    m_out = floats(drv.ask1(f"c07 f trs2kepler {fline(GM, *state)}"))
    if inside is not None and abs(inside[0] - m_in[0]) > 1e-12 * m_in[0]:
        gdisagree(ctx, "trs2kepler inside use_source (Float model with that source's GM)", case, m_in, inside.tolist())
    if abs(after[0] - m_out[0]) > 1e-12 * m_out[0] or abs(after[1] - m_out[1]) > 1e-13 / el[1]:
        gdisagree(ctx, "trs2kepler after a use_source block (Float model with the default GM)", case, m_out, after.tolist())
    # oracle
    if inside is not None and abs(inside[0] - vis_viva(gm_src)) > 1e-12 * inside[0]:
        gviolate(ctx, "use_source:GM-inside-block", f"inside use_source({src!r}) a = {inside[0]!r} but vis-viva with that source's GM gives {vis_viva(gm_src)!r}", case)
    if after_source != "default":
        gviolate(ctx, "use_source:source-not-restored", f"after a use_source({src!r}) block left by {how} constant.source is {after_source!r}", case)
    if abs(after[0] - vis_viva(GM)) > 1e-12 * after[0]:
        gviolate(ctx, "use_source:GM-after-block", f"after a use_source({src!r}) block left by {how}, a = {after[0]!r} but the vis-viva semi-major axis with the default GM {GM!r} is {vis_viva(GM)!r}", case)
    if after_source != "default":
        constant._source = "default"  # keep the remaining cases (and their replays) independent of this history


def one_case(ctx, case, shape, els):
    PosVel, GM = _imp()
    drv = ctx.driver
    m = len(els)
    kep = PosVel(as_shape(els, shape), "kepler")
    trs = rows_of(np.asarray(kep.trs, dtype=float))
    if trs.shape != (m, 6):
        gviolate(ctx, f"shape:kepler.trs:{shape}", f"kepler.trs has shape {np.asarray(kep.trs).shape} for input {np.asarray(kep).shape}", case)
        return
    Mv = np.atleast_1d(np.asarray(kep.M, dtype=float))
    fv = np.atleast_1d(np.asarray(kep.f, dtype=float))
    state = PosVel(as_shape(trs.tolist(), shape), "trs")
    kback = rows_of(np.asarray(state.kepler, dtype=float))
    tback = rows_of(np.asarray(state.kepler.trs, dtype=float))
    if kback.shape != (m, 6) or tback.shape != (m, 6) or Mv.shape != (m,) or fv.shape != (m,):
        gviolate(ctx, f"shape:trs.kepler:{shape}", f"shapes: kepler {np.asarray(state.kepler).shape}, M {Mv.shape}, f {fv.shape} for {m} states", case)
        return
    # raw shapes (no rows_of): a conversion keeps the shape of what it was given ((1, 6) stays (1, 6) since /repo 60f7c07),
    # M and f have one value per state
    want = {"1d": ((6,), ()), "1xk": ((1, 6), (1,)), "nxk": ((m, 6), (m,))}[shape]
    raw = {"kepler.trs": np.asarray(kep.trs).shape, "trs.kepler": np.asarray(state.kepler).shape, "trs.kepler.trs": np.asarray(state.kepler.trs).shape,
           "kepler.trs.kepler": np.asarray(kep.trs.kepler).shape}
    for name, got in raw.items():
        if got != want[0]:
            gviolate(ctx, f"raw-shape:{name}:{shape}", f"{name} of a PosVel of shape {want[0]} has shape {got}", {**case, "what": name})
    for name, got in (("M", np.asarray(kep.M).shape), ("f", np.asarray(kep.f).shape), ("trs.kepler.M", np.asarray(state.kepler.M).shape)):
        if got != want[1]:
            gviolate(ctx, f"raw-shape:{name}:{shape}", f"{name} of {want[0]} Kepler elements has shape {got}, expected {want[1]}", {**case, "what": name})
    # ---------------- correspondence
    lines = []
    for i, el in enumerate(els):
        a, e, inc, Om, om, E = el
        lines.append(f"c07 f kepler2trs {fline(GM, *el)}")
        lines.append(f"c07 f trs2kepler {fline(GM, *trs[i])}")
        lines.append(f"c07 f M {fline(e, E)}")
        lines.append(f"c07 f f {fline(e, E)}")
        # algebraic core, exactly, on NumPy's own cos/sin/sqrt values
        fac = float(np.sqrt((1 - np.float64(e)) * (1 + np.float64(e))))
        g = float(np.sqrt(np.float64(GM) * np.float64(a)))
        cs = [float(np.cos(-Om)), float(np.sin(-Om)), float(np.cos(-inc)), float(np.sin(-inc)),
              float(np.cos(-om)), float(np.sin(-om)), float(np.cos(E)), float(np.sin(E))]
        lines.append(f"c07 q k2tcore {qline(a, e, fac, g, *cs)}")
    ans = drv.ask(lines)
    for i, el in enumerate(els):
        a, e, inc, Om, om, E = el
        mk2t, mt2k, mM, mf, qcore = ans[5 * i: 5 * i + 5]
        mk2t, mt2k = floats(mk2t), floats(mt2k)
        rn = float(np.linalg.norm(trs[i][:3]))
        vn = float(np.linalg.norm(trs[i][3:]))
        if (max(abs(x - y) for x, y in zip(trs[i][:3], mk2t[:3])) > 16 * 2.3e-16 * rn
                or max(abs(x - y) for x, y in zip(trs[i][3:], mk2t[3:])) > 16 * 2.3e-16 * vn):
            gdisagree(ctx, "transformation.kepler2trs (Float model)", {**case, "i": i}, mk2t, trs[i].tolist())
        q = rats(qcore)
        if (max(abs(frac(x) - y) for x, y in zip(trs[i][:3], q[:3])) > Fraction(16 * 2.3e-16 * rn)
                or max(abs(frac(x) - y) for x, y in zip(trs[i][3:], q[3:])) > Fraction(16 * 2.3e-16 * vn)):
            gdisagree(ctx, "transformation.kepler2trs (Rat model of the algebraic core on NumPy's cos/sin/sqrt)", {**case, "i": i}, [float(x) for x in q], trs[i].tolist())
        # trs2kepler: both sides evaluate the same formulas; their rounding differences are amplified by the
        # conditioning of the elements (1/e for the anomalies, 1/sin i for the node, 1/e² for e itself at small e)
        amp = 1.0 / (e * min(1.0, math.sin(inc)))
        tol_ang = 2e-14 * amp / e
        kb = kback[i]
        if (abs(kb[0] - mt2k[0]) > 1e-13 * a or abs(kb[1] - mt2k[1]) > 1e-14 / e or abs(kb[2] - mt2k[2]) > 1e-13 / math.sin(inc)
                or angdiff(kb[3], mt2k[3]) > 1e-13 / math.sin(inc) or angdiff(kb[4], mt2k[4]) > tol_ang or angdiff(kb[5], mt2k[5]) > tol_ang):
            gdisagree(ctx, "transformation.trs2kepler (Float model)", {**case, "i": i}, mt2k, kb.tolist())
        if not close(Mv[i], floats(mM)[0], ulp=4, abs_=1e-15):
            gdisagree(ctx, "KeplerPosVel.M (Float model)", {**case, "i": i}, floats(mM)[0], float(Mv[i]))
        if not close(fv[i], floats(mf)[0], ulp=8, abs_=4e-16 / (1 - e)):
            gdisagree(ctx, "KeplerPosVel.f (Float model)", {**case, "i": i}, floats(mf)[0], float(fv[i]))
    # ---------------- oracle
    for i, el in enumerate(els):
        a, e, inc, Om, om, E = el
        r, v = trs[i][:3], trs[i][3:]
        rn, vn = float(np.linalg.norm(r)), float(np.linalg.norm(v))
        ci = {**case, "i": i}
        # state -> elements -> state
        dr = float(np.linalg.norm(tback[i][:3] - r)) / rn
        dv = float(np.linalg.norm(tback[i][3:] - v)) / vn
        if not (dr < REL and dv < REL):
            gviolate(ctx, "roundtrip:trs->kepler->trs", f"state -> elements -> state changes r by {dr:.3e}, v by {dv:.3e} (relative); elements {el}", ci)
        # elements -> state -> elements
        kb = kback[i]
        cond = 1.0 / (e * math.sin(inc))
        if not (abs(kb[0] - a) < REL * a and abs(kb[1] - e) < REL and abs(kb[2] - inc) < REL and angdiff(kb[3], Om) < REL * cond
                and angdiff(kb[4], om) < REL * cond and angdiff(kb[5], E) < REL * cond):
            gviolate(ctx, "roundtrip:kepler->trs->kepler", f"elements {el} come back as {kb.tolist()}", ci)
        # principal ranges
        if not (0 <= kb[2] <= PI and -PI <= kb[3] <= PI and 0 <= kb[4] < TWO_PI + 1e-15 and -PI <= kb[5] <= PI and 0 <= kb[1] < 1 and kb[0] > 0):
            gviolate(ctx, "principal-ranges", f"elements out of range: {kb.tolist()}", ci)
        # two-body relations of the returned elements, from the state only
        h = np.cross(r, v)
        hn = float(np.linalg.norm(h))
        a_vv = 1.0 / (2.0 / rn - vn * vn / GM)
        if abs(kb[0] - a_vv) > 1e-12 * a_vv:
            gviolate(ctx, "vis-viva", f"a = {kb[0]!r} but 1/(2/r - v²/GM) = {a_vv!r}", ci)
        evec = np.cross(v, h) / GM - r / rn
        e_h = float(np.linalg.norm(evec))
        if abs(kb[1] - e_h) > 1e-11 / e:
            gviolate(ctx, "eccentricity", f"e = {kb[1]!r} but |v x h / GM - r/|r|| = {e_h!r}", ci)
        if abs(math.cos(kb[2]) - h[2] / hn) > 1e-12:
            gviolate(ctx, "inclination", f"cos i = {math.cos(kb[2])!r} but h_z/|h| = {h[2] / hn!r}", ci)
        node = np.array([-h[1], h[0], 0.0])
        nn = float(np.linalg.norm(node))
        if float(np.linalg.norm(np.array([math.cos(kb[3]), math.sin(kb[3]), 0.0]) - node / nn)) > 1e-11 / math.sin(inc):
            gviolate(ctx, "node", f"(cos Omega, sin Omega) = {(math.cos(kb[3]), math.sin(kb[3]))} but the ascending node is along {(node / nn).tolist()}", ci)
        # argument of perigee: angle from the node to the eccentricity vector, counted in the direction of motion
        nhat, ehat, hhat = node / nn, evec / e_h, h / hn
        w_true = math.atan2(float(np.dot(np.cross(nhat, ehat), hhat)), float(np.dot(nhat, ehat))) % TWO_PI
        if angdiff(kb[4], w_true) > 1e-10 * cond:
            gviolate(ctx, "perigee", f"omega = {kb[4]!r} but the eccentricity vector is at {w_true!r} from the node", ci)
        # eccentric anomaly: r = a(1 - e cos E), r·v = sqrt(GM a) e sin E
        if (abs(rn - kb[0] * (1 - kb[1] * math.cos(kb[5]))) > 1e-9 * rn
                or abs(float(np.dot(r, v)) - math.sqrt(GM * kb[0]) * kb[1] * math.sin(kb[5])) > 1e-9 * rn * vn):
            gviolate(ctx, "eccentric-anomaly", f"E = {kb[5]!r} does not satisfy r = a(1 - e cos E), r.v = sqrt(GM a) e sin E", ci)
        # mean / true anomaly of the elements
        M, f = float(Mv[i]), float(fv[i])
        if abs(M - (E - e * math.sin(E))) > 4e-15:
            gviolate(ctx, "kepler-equation", f"M = {M!r} but E - e sin E = {E - e * math.sin(E)!r}", ci)
        lhs = math.sin(f / 2) * math.sqrt(1 - e) * math.cos(E / 2)
        rhs = math.sqrt(1 + e) * math.sin(E / 2) * math.cos(f / 2)
        if abs(lhs - rhs) > 1e-14 / math.sqrt(1 - e):
            gviolate(ctx, "true-anomaly-half-angle", f"tan(f/2) != sqrt((1+e)/(1-e)) tan(E/2) for e = {e!r}, E = {E!r}, f = {f!r}", ci)
        if not -PI <= f <= PI:
            gviolate(ctx, "true-anomaly-range", f"f = {f!r}", ci)
        # the position in the orbital plane is r (cos f, sin f) from perigee
        u_true = math.atan2(float(np.dot(np.cross(nhat, r / rn), hhat)), float(np.dot(nhat, r / rn)))
        if angdiff(u_true, om + f) > 1e-10 * cond:
            gviolate(ctx, "true-anomaly-position", f"argument of latitude {u_true!r} != omega + f = {om + f!r}", ci)
    # every row of an array converts like the single state it is
    if m > 1:
        for i, el in enumerate(els):
            t1 = np.asarray(PosVel(np.array(el, dtype=float), "kepler").trs, dtype=float).ravel()
            rn, vn = float(np.linalg.norm(t1[:3])), float(np.linalg.norm(t1[3:]))
            if float(np.linalg.norm(trs[i][:3] - t1[:3])) > 1e-12 * rn or float(np.linalg.norm(trs[i][3:] - t1[3:])) > 1e-12 * vn:
                gviolate(ctx, "row-of-array-vs-single-state:kepler.trs", f"row {i} of kepler.trs of an array is {trs[i].tolist()} but the same elements as a single state give {t1.tolist()}", {**case, "i": i})
    # identical numbers for (6,), (1,6) and row 0 of an array
    for sh in ("1d", "1xk"):
        k1 = PosVel(as_shape([els[0]], sh), "kepler")
        t1 = np.asarray(k1.trs, dtype=float).ravel()
        if t1.shape != (6,) or float(np.max(np.abs(t1 - trs[0]) / np.array([1, 1, 1, 1e-3, 1e-3, 1e-3]))) > 1e-6:
            gviolate(ctx, f"shape-consistency:kepler.trs:{sh}", f"kepler.trs of one state given as {sh} is {t1.tolist()} but {trs[0].tolist()} as row of an array", {**case, "as": sh})
        s1 = PosVel(as_shape([trs[0].tolist()], sh), "trs")
        kk = np.asarray(s1.kepler, dtype=float).ravel()
        if kk.shape != (6,) or abs(kk[0] - kback[0][0]) > 1e-9 * kk[0] or any(angdiff(x, y) > 1e-9 / (els[0][1] * math.sin(els[0][2])) for x, y in zip(kk[1:], kback[0][1:])):
            gviolate(ctx, f"shape-consistency:trs.kepler:{sh}", f"trs.kepler of one state given as {sh} is {kk.tolist()} but {kback[0].tolist()} as row of an array", {**case, "as": sh})


    # the anomalies belong to the elements the object holds *now*: read, change an element in place, read again
    for sh in (["1d"] if m == 1 else []) + ["nxk" if m > 1 else "1xk"]:
        k2 = PosVel(as_shape(els if sh == "nxk" else [els[0]], sh), "kepler")
        before = [np.asarray(getattr(k2, n_), dtype=float).copy() for n_ in ("M", "f", "trs")]
        newE = float(els[0][5]) * 0.5 + 0.3
        if sh == "1d":
            k2[5] = newE
        else:
            k2[0, 5] = newE
        now = np.array(np.asarray(k2, dtype=float), copy=True)
        fresh = PosVel(now.copy(), "kepler")
        for n_ in ("M", "f", "trs"):
            got, want = np.asarray(getattr(k2, n_), dtype=float), np.asarray(getattr(fresh, n_), dtype=float)
            if got.shape != want.shape or float(np.max(np.abs(got - want) / np.maximum(1.0, np.abs(want)))) > 1e-12:
                gviolate(ctx, f"stale-after-element-changed:{n_}:{sh}", f"kepler.{n_} after the eccentric anomaly of the first state was changed in place is "
                         f"{got.ravel()[:6].tolist()} but an object built from the current elements gives {want.ravel()[:6].tolist()}", {**case, "as": sh, "new_E": newE})
        e0 = float(now.reshape(-1, 6)[0][1])
        M0 = float(np.asarray(k2.M, dtype=float).ravel()[0])
        if abs(M0 - (newE - e0 * math.sin(newE))) > 4e-15 * max(1.0, abs(newE)):
            gviolate(ctx, "kepler-equation:after-element-changed", f"after E was changed in place to {newE!r}: M = {M0!r} but E - e sin E = {newE - e0 * math.sin(newE)!r}", {**case, "as": sh, "new_E": newE})


def replay(payload):
    """re-run the oracle on a stored case against $MIDGARD_REPO; exit code 1 when the violation reproduces"""
    warnings.simplefilter("ignore")
    c = payload.get("replay", payload)
    print(json.dumps(c, indent=1, default=str)[:2500])
    print("key:", payload.get("key"), "| what:", payload.get("what"))
    ctx = Ctx("C07", "quick", int(payload.get("seed", 0) or 0))
    if c.get("fn") not in ("kepler<->trs", "use_source history", "history", "typed-input"):
        print("no dedicated replay for this kind of case")
        return 0
    try:
        if c["fn"] == "typed-input":
            typed_case(ctx, recorded=c)
        elif c["fn"] == "history":
            history_case(ctx, c.get("template", "recorded"), recorded=c, family=c.get("family", "posvel"))
        elif c["fn"] == "use_source history":
            gm_history(ctx, c["source"], c["GM_source"], c["leave_block_by"], c["elements"])
        else:
            one_case(ctx, c, c["shape"], c["elements"])
    except Exception as e:
        print("raised", type(e).__name__, e)
        return 1
    for v in ctx.violations:
        print("VIOLATION " + v.key + ": " + v.what)
    for d in ctx.corr_broken[:5]:
        print("model/code disagreement:", d["correspondence"])
    print("verdict:", "violation reproduced" if ctx.violations else "no violation on this tree")
    if ctx._driver:
        ctx._driver.close()
    return 1 if ctx.violations else 0
