"""helpers shared by the analytic checks C05, C06, C07 (wire format of Driver/GeoWire.lean, ulp distances,
structured direction / angle generators)"""
from __future__ import annotations

import math
import struct
from fractions import Fraction
from typing import Iterable, List, Sequence

import numpy as np

from . import common

PI = math.pi


# ---------------------------------------------------------------------------------------------
# wire


def fbits(x) -> str:
    """double → decimal value of its bit pattern (f-mode token)"""
    return str(struct.unpack("<Q", struct.pack("<d", float(x)))[0])


def unbits(tok: str) -> float:
    return struct.unpack("<d", struct.pack("<Q", int(tok)))[0]


def fline(*xs) -> str:
    return " ".join(fbits(x) for x in xs)


def qline(*xs) -> str:
    return " ".join(common.rs(x) for x in xs)


def floats(ans: str) -> List[float]:
    return [unbits(t) for t in ans.split()]


def rats(ans: str) -> List[Fraction]:
    return [Fraction(t) for t in ans.split()]


# ---------------------------------------------------------------------------------------------
# distances


def _ordered(x: float) -> int:
    b = struct.unpack("<q", struct.pack("<d", x))[0]
    return b if b >= 0 else -(b & 0x7FFFFFFFFFFFFFFF)


def ulps(a: float, b: float) -> float:
    """distance in units in the last place (inf when exactly one is nan)"""
    a = float(a)
    b = float(b)
    if math.isnan(a) or math.isnan(b):
        return 0.0 if (math.isnan(a) and math.isnan(b)) else math.inf
    if a == b:
        return 0.0
    return abs(_ordered(a) - _ordered(b))


def close(a: float, b: float, *, ulp: float = 0.0, abs_: float = 0.0) -> bool:
    """|a-b| within `ulp` units in the last place or within `abs_` absolutely"""
    a = float(a)
    b = float(b)
    if math.isnan(a) or math.isnan(b):
        return math.isnan(a) and math.isnan(b)
    return a == b or abs(a - b) <= abs_ or ulps(a, b) <= ulp


def allclose(xs: Iterable[float], ys: Iterable[float], **kw) -> bool:
    xs = list(xs)
    ys = list(ys)
    return len(xs) == len(ys) and all(close(x, y, **kw) for x, y in zip(xs, ys))


def worst(xs: Sequence[float], ys: Sequence[float]) -> float:
    return max((abs(float(x) - float(y)) for x, y in zip(xs, ys)), default=0.0)


# ---------------------------------------------------------------------------------------------
# generators


def gen_angle(rng, lo=-4 * PI, hi=4 * PI) -> float:
    """angles in [lo, hi]: multiples of pi/2 and pi/4 (exact doubles of them), tiny, random"""
    k = rng.random()
    if k < 0.2:
        return rng.randint(-8, 8) * (PI / 2)
    if k < 0.3:
        return rng.randint(-16, 16) * (PI / 4)
    if k < 0.38:
        return rng.choice([0.0, -0.0, 1e-300, 1e-9, -1e-9, 1e-17, 4 * PI, -4 * PI, PI, -PI])
    if k < 0.45:
        return rng.randint(-8, 8) * (PI / 2) + rng.choice([-1, 1]) * 10.0 ** rng.uniform(-15, -3)
    return rng.uniform(lo, hi)


def gen_lat(rng) -> float:
    k = rng.random()
    if k < 0.1:
        return rng.choice([PI / 2, -PI / 2])
    if k < 0.18:
        return rng.choice([0.0, -0.0])
    if k < 0.3:
        return rng.choice([-1, 1]) * (PI / 2 - 10.0 ** rng.uniform(-15, -2))
    if k < 0.4:
        return rng.choice([-1, 1]) * 10.0 ** rng.uniform(-15, -2)
    return rng.uniform(-PI / 2, PI / 2)


def gen_lon(rng) -> float:
    k = rng.random()
    if k < 0.12:
        return rng.choice([PI, -PI, 0.0, PI / 2, -PI / 2])
    if k < 0.22:
        return rng.choice([-1, 1]) * (PI - 10.0 ** rng.uniform(-15, -2))
    return rng.uniform(-PI, PI)


def gen_vec(rng, lo_exp=-9, hi_exp=8) -> List[float]:
    """difference vectors: zero, axis-aligned, 1e-9 … 1e8 m in every octant"""
    k = rng.random()
    if k < 0.05:
        return [0.0, 0.0, 0.0]
    m = 10.0 ** rng.uniform(lo_exp, hi_exp)
    if k < 0.2:
        v = [0.0, 0.0, 0.0]
        v[rng.randrange(3)] = rng.choice([-1, 1]) * m
        return v
    return [rng.choice([-1, 1]) * m * rng.random() for _ in range(3)]


def unit_dir(rng) -> List[float]:
    while True:
        v = [rng.gauss(0, 1) for _ in range(3)]
        n = math.sqrt(sum(x * x for x in v))
        if n > 1e-6:
            return [x / n for x in v]


def shape_variants(rows: np.ndarray, rng):
    """the three array shapes the properties quantify over: (k,), (1,k), (n,k)"""
    n = len(rows)
    if n == 1:
        return rng.choice(["1d", "1xk"])
    return "nxk"


def as_shape(rows, shape: str) -> np.ndarray:
    a = np.array(rows, dtype=float)
    if shape == "1d":
        return a[0].copy()
    if shape == "1xk":
        return a[0:1].copy()
    return a


def rows_of(a) -> np.ndarray:
    a = np.asarray(a, dtype=float)
    return a[None, :] if a.ndim == 1 else a


# ---------------------------------------------------------------------------------------------
# reporting: keep the (capped) violation / disagreement lists diverse


def violate(ctx, key: str, what: str, case, per_key: int = 2):
    """ctx.violate, at most `per_key` replays per stable key (every failure is still counted)"""
    seen = ctx.__dict__.setdefault("_geo_per_key", {})
    seen[key] = seen.get(key, 0) + 1
    ctx.count("oracle:" + key)
    if seen[key] <= per_key:
        ctx.violate(key, what, case)
    else:
        ctx.count("oracle_failures")


def disagree(ctx, name: str, case, model, impl, per_name: int = 3):
    seen = ctx.__dict__.setdefault("_geo_per_name", {})
    seen[name] = seen.get(name, 0) + 1
    if seen[name] <= per_name:
        ctx.disagree(name, case, model, impl)
    else:
        ctx.count("disagreements")


def leancheck(ctx, prop: str):
    """thorough tier: independent kernel re-check of the property's module with `lake env leanchecker`"""
    import subprocess

    if not ctx.thorough or ctx.proof is None or not ctx.proof.ok:
        return
    with common.lake_lock():
        try:
            p = subprocess.run(["lake", "env", "leanchecker", f"Midgard.Props.{prop}"], cwd=common.LEAN,
                               capture_output=True, text=True, timeout=900)
        except (subprocess.TimeoutExpired, FileNotFoundError) as e:
            ctx.extra["leanchecker"] = f"not run: {type(e).__name__}"
            return
    ctx.extra["leanchecker"] = "ok" if p.returncode == 0 else ("failed: " + (p.stdout + p.stderr)[-400:])
    if p.returncode != 0:
        ctx.proof.ok = False
        ctx.proof.failed.append("leanchecker rejected Midgard.Props." + prop)


def run_corpus(ctx, prop: str, handler):
    """corpus/<prop>/*.json: minimised past disagreements, run first; handler(case) re-runs one"""
    import json

    d = common.VERIF / "corpus" / prop
    if not d.is_dir():
        return
    for f in sorted(d.glob("*.json")):
        try:
            case = json.loads(f.read_text())
        except Exception:
            continue
        ctx.count("corpus")
        handler(case)
