"""C09 property oracle: a plain list-of-records reference for Dataset histories.

The reference keeps, per dataset, the declared row count and an ordered tree of columns; a column is
an object (rows + optional `other` / `ref_pos` objects).  Every operation is defined *globally*:

  subset       every reachable object keeps the selected rows, in the order of the index
  extend       rows of `other` are appended; missing fields / attachments are padded with the empty
               value of their type; differing units are converted to the unit of `self`
  merge+sort   extend, then the stable permutation that sorts the key column
  filter       the mask of rows whose key equals the value, then subset
  delete       the column goes away

and every object reachable through several paths is transformed exactly once (so sharing is kept).
This is the statement of C09; it is independent of the Lean model and of the code's memo mechanism.
`judge` compares the real world with it after every operation and names the first difference.
"""
from __future__ import annotations

import traceback
from fractions import Fraction
from typing import Any, Dict, List, Optional

from .c09_world import unit_factor, describe, POSCOLS, rows_token, tag_of

PLAIN = ("bool", "float", "text")
IDENT_KINDS = ("time", "time_delta", "position", "posvel", "position_delta", "posvel_delta")


class Skip(Exception):
    """the reference has no expectation for this operation (e.g. incompatible sharing)"""


class Expected(Exception):
    def __init__(self, enum):
        self.enum = enum


class RObj:
    def __init__(self, kind, ndim, cols, rows, other=None, ref_pos=None, tag=""):
        self.kind, self.ndim, self.cols, self.rows = kind, ndim, cols, rows
        self.other, self.ref_pos = other, ref_pos
        self.tag = tag  # `<scale>/<format>` of a time, `d:<scale>/<format>` of a time delta


class RLeaf:
    def __init__(self, name, kind, obj, unit, level):
        self.name, self.kind, self.obj, self.unit, self.level = name, kind, obj, unit, level


class RColl:
    def __init__(self, name, level, fields=None):
        self.name, self.level = name, level
        self.fields: Dict[str, Any] = fields if fields is not None else {}


class RDS:
    def __init__(self, n):
        self.n = n
        self.fields: Dict[str, Any] = {}


def empty_row(kind, cols):
    if kind == "bool":
        return ["b0"] * cols
    if kind == "text":
        return ["t."] * cols
    if kind == "float":
        return ["nan"] * cols
    if kind == "sigma":
        return ["nan"] * (2 * cols)
    if kind == "time":
        return ["nan"] * (2 + cols)      # jd1, jd2 and the value(s) of datetime.min in the format of the field
    if kind == "time_delta":
        return ["n0"] * (2 + cols)
    return ["nan"] * POSCOLS[kind]


def field_unit(kind, cols, u):
    if kind in ("float", "sigma"):
        return None if u is None else tuple([u] * cols)
    if kind in ("position", "position_delta"):
        return ("meter",) * 3
    if kind in ("posvel", "posvel_delta"):
        return ("meter",) * 3 + ("meter/second",) * 3
    return None


def scale_tok(tok, f):
    if tok.startswith("n") and tok != "nan":
        q = Fraction(tok[1:]) * f
        return "n" + (str(q.numerator) if q.denominator == 1 else f"{q.numerator}/{q.denominator}")
    return tok


def key_of(tok):
    """sort key of np.argsort on one homogeneous column: NaN last"""
    if tok == "nan":
        return (3, 0)
    if tok.startswith("n"):
        return (1, Fraction(tok[1:]))
    if tok.startswith("t"):
        s = "" if tok[1:] == "." else bytes.fromhex(tok[1:]).decode()
        return (2, s)
    return (0, tok == "b1")


class RefWorld:
    def __init__(self, conv=None):
        self.ds: Dict[int, RDS] = {}
        self.objs: List[RObj] = []
        self.diff_info: Optional[dict] = None
        self.conv = conv   # the epoch-by-epoch scale / format conversion of the Time classes, as a table
        self.converted = set()

    # ------------------------------------------------------------------ helpers
    def resolve(self, r):
        if r is None:
            return None
        if r[0] == "o":
            return self.objs[r[1]]
        f = self.find(self.ds[r[1]].fields, r[2].split("."))
        return f.obj

    @staticmethod
    def find(fields, path):
        cur = fields
        for i, p in enumerate(path):
            f = cur.get(p)
            if f is None:
                return None
            if i == len(path) - 1:
                return f
            if not isinstance(f, RColl):
                return None
            cur = f.fields
        return None

    @staticmethod
    def leaves(fields):
        for f in fields.values():
            if isinstance(f, RColl):
                yield from RefWorld.leaves(f.fields)
            else:
                yield f

    @staticmethod
    def columns(fields, prefix):
        for name, f in fields.items():
            if isinstance(f, RColl):
                yield from RefWorld.columns(f.fields, prefix + name + ".")
            else:
                yield prefix + name, f

    def map_objects(self, fields, rowfn):
        """new field tree in which every reachable object is transformed once by rowfn"""
        memo: Dict[int, RObj] = {}

        def tr(o):
            if o is None:
                return None
            if o.kind in IDENT_KINDS and id(o) in memo:
                return memo[id(o)]
            n = RObj(o.kind, o.ndim, o.cols, rowfn(o.rows), None, None, o.tag)
            memo[id(o)] = n
            n.other = tr(o.other)
            n.ref_pos = tr(o.ref_pos)
            return n

        def trf(fs):
            out = {}
            for name, f in fs.items():
                if isinstance(f, RColl):
                    out[name] = RColl(name, f.level, trf(f.fields))
                else:
                    out[name] = RLeaf(name, f.kind, tr(f.obj), f.unit, f.level)
            return out

        out = trf(fields)
        # (the arrays noted for the listed finding follow the transformation, e.g. the sort of a merge)
        self.served_from_memo = [(memo.get(id(n), n), memo.get(id(o), o)) for n, o in getattr(self, "served_from_memo", [])]
        return out

    # ------------------------------------------------------------------ operations
    def apply(self, op):
        self.empty_operand = False
        self.diff_info = None
        self.or_fields_used = False
        self.converted = set()
        self.pad_refused = False
        self.shared_one_sided = False
        self.served_from_memo = []   # (array the table demands, array the code's memo hands out instead)
        self.code_variant = None
        try:
            return "ok", self._apply(op)
        except Expected as e:
            return "err", e.enum
        except Skip as e:
            return "skip", str(e)

    def _apply(self, op):
        o = op["op"]
        if o == "new":
            self.ds[op["d"]] = RDS(op["n"])
            return "-"
        if o == "obj":
            self.objs.append(RObj(op["kind"], op["ndim"], op["cols"], [list(r) for r in op["rows"]],
                                  self.resolve(op.get("other")), self.resolve(op.get("ref_pos")), op.get("tag", "")))
            return "-"
        d = self.ds[op["d"]]
        if o == "add":
            return self.add(d, op)
        if o == "addcoll":
            path = op["path"].split(".")
            if len(path) != 1:
                raise Skip("nested empty collection")
            if path[0] in d.fields:
                raise Expected("fieldExists")
            d.fields[path[0]] = RColl(path[0], op["level"])
            return "-"
        if o == "del":
            path = op["path"].split(".")
            if len(path) > 2:
                raise Expected("attribute")
            cont = d.fields
            if len(path) == 2:
                c = d.fields.get(path[0])
                if not isinstance(c, RColl):
                    raise Expected("attribute")
                cont = c.fields
            if path[-1] not in cont:
                raise Expected("attribute")
            del cont[path[-1]]
            return "-"
        if o == "subset":
            self.subset(d, op)
            return "-"
        if o == "extend":
            e = self.ds[op["e"]]
            plain = all(f.kind in PLAIN for t in (d, e) for f in self.leaves(t.fields))
            la, lb = list(self.columns(d.fields, "")), list(self.columns(e.fields, ""))

            def one_sided(x, y):
                ny = {n for n, _ in y}
                return any(f.kind not in PLAIN and n not in ny and any(g.obj is f.obj and n2 in ny for n2, g in x) for n, f in x)

            split = one_sided(la, lb) or one_sided(lb, la)
            self.extend(d, e)
            if self.shared_one_sided:
                self.memo_variant(d, None)
            if plain:
                return "x" + "/".join(f"{n}={rows_token(f.obj.rows)}" for n, f in self.columns(d.fields, ""))
            return "s1" if split else "s0"
        if o == "merge":
            for i, e in enumerate(op["es"]):
                self.extend(d, self.ds[e])
                if self.shared_one_sided and i < len(op["es"]) - 1:
                    raise Skip("the listed finding in the middle of a merge of several datasets")
            if self.shared_one_sided:
                self.memo_variant(d, op.get("sort_by"))   # (before the sort: the variant sorts on its own key column)
            if op.get("sort_by"):
                self.sort(d, op["sort_by"])
            return "-"
        if o == "filter":
            mask = [True] * d.n
            for p, v in op["filters"]:
                try:
                    cols = [self.key_column(d, p)]
                except Expected:
                    # no such field: the fields `<name>_<suffix>` of the same collection stand in for it
                    # (a row passes when any of them has the value)
                    *init, last = p.split(".")
                    cont = d.fields
                    if init:
                        c = self.find(d.fields, init)
                        if not isinstance(c, RColl):
                            raise
                        cont = c.fields
                    alts = [".".join(init + [nm]) for nm in cont if nm.startswith(last + "_")]
                    if not alts:
                        raise
                    cols = [self.key_column(d, a) for a in alts]
                    self.or_fields_used = True
                hit = [any(c[i] == v and c[i] != "nan" for c in cols) for i in range(len(cols[0]))]
                mask = [a and x for a, x in zip(mask, hit)]
            self.subset(d, {"mask": mask})
            return "m" + "".join("1" if b else "0" for b in mask)
        if o == "unique":
            col = self.key_column(d, op["path"])
            vals = sorted(set(col), key=key_of)
            return "v" + ",".join(vals)
        if o == "diff":
            self.ds[op["r"]] = self.difference(d, self.ds[op["e"]], op.get("index_by"), bool(op.get("cs")),
                                               bool(op.get("co")))
            return "-"
        raise AssertionError(o)

    def memo_variant(self, d, sort_by):
        """the dataset as the listed finding `…:shared-array-one-name-missing` describes it: a private copy of the reference
        result in which every array the table demands for the second of two names of one array is replaced by the array
        made for the first name (and which is then sorted on its own key column)"""
        import copy

        d_alt, served = copy.deepcopy((d, self.served_from_memo))
        sub = {id(n): o for n, o in served}

        def fix(o, depth=0):
            if o is None or depth > 8:
                return o
            o = sub.get(id(o), o)
            o.other = fix(o.other, depth + 1)
            o.ref_pos = fix(o.ref_pos, depth + 1)
            return o

        def walk(fields):
            for f in fields.values():
                if isinstance(f, RColl):
                    walk(f.fields)
                else:
                    f.obj = fix(f.obj)

        walk(d_alt.fields)
        if sort_by:
            keep = self.served_from_memo
            try:
                self.sort(d_alt, sort_by)
            finally:
                self.served_from_memo = keep
        self.code_variant = d_alt

    def add(self, d, op):
        path = op["path"].split(".")
        if len(path) == 1 and path[0] in d.fields:
            raise Expected("fieldExists")
        if len(path) > 1 and self.find(d.fields, path) is not None:
            return "-"
        o = self.resolve(op["val"])
        if len(o.rows) != d.n:
            raise Expected("value")
        cur = d.fields
        for c in path[:-1]:
            f = cur.get(c)
            if f is None:
                f = RColl(c, 3)
                cur[c] = f
            elif not isinstance(f, RColl):
                raise Expected("attribute")
            cur = f.fields
        cur[path[-1]] = RLeaf(path[-1], op["kind"], o, field_unit(op["kind"], o.cols, op.get("unit")), op["level"])
        return "-"

    def subset(self, d, op):
        n = d.n
        if "mask" in op:
            m = op["mask"]
            if len(m) != n:
                raise Expected("index")
            sel = [i for i, b in enumerate(m) if b]
            count = len(sel)
        else:
            ints = op["ints"]
            if any(i < -n or i >= n for i in ints):
                raise Expected("index")
            sel = [i % n if n else 0 for i in ints]
            count = len(ints)
        # rows are picked against each object's own length == n (the invariant)
        d.fields = self.map_objects(d.fields, lambda rows: [rows[i] for i in sel])
        d.n = count

    def key_column(self, d, path):
        f = self.find(d.fields, path.split("."))
        if f is None:
            raise Expected("attribute")
        if isinstance(f, RColl) or f.obj.ndim != 1 or f.kind not in ("float", "text", "bool", "time", "time_delta"):
            raise Skip("sort/filter key outside the modelled fragment")
        if f.kind in ("time", "time_delta"):
            # the key is the VALUE of the field in its own format (what `np.asarray(field)` holds), third component
            out = []
            for r in f.obj.rows:
                if r[0] == "nan":
                    out.append("n0")  # datetime.min sorts before every real epoch
                elif len(r) >= 3:
                    out.append(r[2])
                else:
                    q = Fraction(r[0][1:]) + Fraction(r[1][1:])
                    out.append("n" + (str(q.numerator) if q.denominator == 1 else f"{q.numerator}/{q.denominator}"))
            return out
        return [r[0] for r in f.obj.rows]

    def sort(self, d, path):
        col = self.key_column(d, path)
        order = sorted(range(len(col)), key=lambda i: key_of(col[i]))  # Python's sort is stable
        d.fields = self.map_objects(d.fields, lambda rows: [rows[i] for i in order])

    def extend(self, d, e):
        n, m = d.n, e.n
        if n == 0 or m == 0:
            self.empty_operand = True
        pairs: Dict[tuple, RObj] = {}
        partner_a: Dict[int, Any] = {}
        partner_b: Dict[int, Any] = {}

        def pair(a, b, kind, ndim, cols, factors, top=False):
            """the object holding a's rows (or n empties) followed by b's rows (or m empties)"""
            if a is None and b is None:
                return None
            ident = kind in IDENT_KINDS
            key = (id(a) if a is not None else None, id(b) if b is not None else None)
            unshared_from = None
            if ident:
                if key in pairs:
                    return pairs[key]
                clash_a = a is not None and id(a) in partner_a and partner_a[id(a)] != key[1]
                clash_b = b is not None and id(b) in partner_b and partner_b[id(b)] != key[0]
                if clash_a or clash_b:
                    # one array under two field names, one of the names missing in the other dataset (this field or the
                    # earlier one is a padding): the table has two columns here - the column the other dataset lacks gets
                    # empty values, the other one the other dataset's values - so the two names cannot stay one array.
                    # (The code serves the second name from its memo: listed finding `…:shared-array-one-name-missing`.)
                    one_sided = (clash_a and (key[1] is None or partner_a[id(a)] is None)) or \
                                (not clash_a and clash_b and (key[0] is None or partner_b[id(b)] is None))
                    if not (top and one_sided):
                        raise Skip("the two datasets share objects differently")
                    # what the code hands out instead: the array made for the first of the two names (`a` is looked up first)
                    unshared_from = pairs.get((id(a), partner_a[id(a)])) if clash_a else pairs.get((partner_b[id(b)], id(b)))
                    if unshared_from is None:
                        raise Skip("the two datasets share objects differently")
                    self.shared_one_sided = True
                else:
                    if a is not None:
                        partner_a[id(a)] = key[1]
                    if b is not None:
                        partner_b[id(b)] = key[0]
            if a is not None and b is not None and (a.kind != b.kind):
                raise Expected("value")
            # (after the look-up of the pair: an array that was already extended under another name is not padded again)
            if kind == "time" and (a is None or b is None):
                x = a if a is not None else b
                if (n if a is None else m) > 0 and x.tag.split("/")[-1] in ("gps_ws", "gps_seconds"):
                    # the empty epoch has no value in the formats of the GPS scale: padding is refused
                    self.pad_refused = True
                    raise Expected("value")
            ra = a.rows if a is not None else [empty_row(kind, cols)] * n
            rb = b.rows if b is not None else [empty_row(kind, cols)] * m
            if factors:
                rb = [[scale_tok(t, factors[j % len(factors)]) for j, t in enumerate(r)] for r in rb]
            tag = a.tag if a is not None else b.tag
            if a is not None and b is not None and a.tag != b.tag:
                # every epoch of other is converted to the time scale of self and shown in the format of self
                if a.ndim != b.ndim:
                    raise Expected("value")
                rb2 = []
                for r in rb:
                    c = self.conv.lookup(b.tag, a.tag, r) if self.conv is not None else None
                    if c is None:
                        raise Skip("no conversion of this epoch (empty epoch, unknown conversion, format not available)")
                    rb2.append(list(c))
                rb = rb2
                self.converted.add(f"{b.tag}>{a.tag}")
            new = RObj(kind, ndim, cols, [list(r) for r in ra] + [list(r) for r in rb], tag=tag)
            if ident:
                pairs[key] = new
            if unshared_from is not None:
                self.served_from_memo.append((new, unshared_from))
            ao = a.other if a is not None else None
            bo = b.other if b is not None else None
            if ao is not None or bo is not None:
                x = ao if ao is not None else bo
                new.other = pair(ao, bo, x.kind, x.ndim, x.cols, None)
            ar = a.ref_pos if a is not None else None
            br = b.ref_pos if b is not None else None
            if ar is not None or br is not None:
                x = ar if ar is not None else br
                new.ref_pos = pair(ar, br, x.kind, x.ndim, x.cols, None)
            return new

        def ext_fields(sf, of, self_empty):
            out = dict(sf)
            for name, g in of.items():
                f = sf.get(name)
                if f is None or self_empty:
                    out[name] = pad(g, front=True)
                    continue
                if isinstance(f, RColl) != isinstance(g, RColl):
                    raise Expected("value")
                if isinstance(f, RColl):
                    out[name] = RColl(name, f.level, ext_fields(f.fields, g.fields, False))
                    continue
                if f.kind != g.kind:
                    raise Expected("value")
                a, b = f.obj, g.obj
                factors = None
                if f.kind not in ("position_delta", "posvel_delta", "position", "posvel"):
                    if a.ndim != b.ndim:
                        raise Expected("value")
                if f.kind in ("float", "sigma"):
                    if (f.unit is None) != (g.unit is None):
                        raise Expected("unit")
                    if f.unit is not None:
                        factors = []
                        for fr, to in zip(g.unit, f.unit):
                            q = unit_factor(fr, to)
                            if q is None:
                                raise Expected("unit")
                            factors.append(q)
                if f.kind in PLAIN or f.kind == "sigma":
                    if a.cols != b.cols:
                        raise Expected("value")
                if f.kind == "time_delta" and a.tag and b.tag and a.tag.split("/")[0] != b.tag.split("/")[0]:
                    # a time delta cannot be converted to another time scale: the Time classes refuse
                    raise Expected("other:UnknownConversionError")
                out[name] = RLeaf(name, f.kind, pair(a, b, f.kind, a.ndim, a.cols, factors, top=True), f.unit, f.level)
            for name, f in sf.items():
                if name not in of and not self_empty:
                    out[name] = pad(f, front=False)
                elif name not in of and self_empty:
                    out[name] = pad(f, front=False)
            return out

        def pad(f, front):
            if isinstance(f, RColl):
                return RColl(f.name, f.level, {k: pad(v, front) for k, v in f.fields.items()})
            o = f.obj
            new = pair(None, o, o.kind, o.ndim, o.cols, None, top=True) if front else \
                pair(o, None, o.kind, o.ndim, o.cols, None, top=True)
            return RLeaf(f.name, f.kind, new, f.unit, f.level)

        if n == 0 and m == 0:
            # nothing moves; fields only in other are taken over, common fields are replaced by other's
            pass
        d.fields = ext_fields(d.fields, e.fields, n == 0)
        d.n = n + m

    # ------------------------------------------------------------------ difference
    def difference(self, d, e, index_by, copy_self, copy_other):
        """The list-of-records statement of `self - other`:

        * the records of the two tables are paired by the tuple of their index fields (first record of each table that
          carries a key; keys in ascending order) or, without index fields, by position (same number of records);
        * for every pair the result has one record; a column that exists in both tables (at any nesting depth) holds
          `value in self - value in other * unit factor`, the index columns hold the value of self;
        * columns that cannot be subtracted (bool, text, sigma) are dropped, or kept as `<name>_self` / `<name>_other`;
        * a difference of epochs is a time delta, a difference of positions a position delta relative to the position
          in self, a difference of position deltas keeps the reference position of self.
        """
        if index_by is None:
            if d.n != e.n:
                raise Expected("value")
            pairs = [(i, i) for i in range(d.n)]
            names = []
        else:
            names = [x.strip() for x in index_by.split(",")]
            if any("." in x for x in names):
                raise Skip("index field in a collection")
            cols_a = [self.key_column(d, x) for x in names]
            cols_b = [self.key_column(e, x) for x in names]
            for x in names:
                fa, fb = d.fields.get(x), e.fields.get(x)
                if isinstance(fa, RLeaf) and isinstance(fb, RLeaf) and fa.obj.tag != fb.obj.tag:
                    raise Skip("index field: times of different scale / format (values not comparable)")
            for cols in (cols_a, cols_b):
                if any(tok == "nan" for c in cols for tok in c):
                    raise Skip("NaN in an index field")
            A = list(zip(*cols_a))
            B = list(zip(*cols_b))
            common = sorted(set(A) & set(B), key=lambda k: tuple(key_of(t) for t in k))
            pairs = [(A.index(k), B.index(k)) for k in common]
        info = self.diff_info = {"index_fields": len(names), "pairs": len(pairs)}
        if index_by is not None:
            info["duplicate_keys"] = len(set(A)) < len(A) or len(set(B)) < len(B)
            info["one_sided_keys"] = set(A) != set(B)
        info["other_order"] = any(i != j for i, j in pairs)
        if not pairs:
            raise Expected("value")
        ia = [p[0] for p in pairs]
        ib = [p[1] for p in pairs]
        info.update(nested=0, dropped=0, factor=0, copied=0, not_subtractable=0, kinds=set())

        def take(o, idx):
            """the records `idx` of an object and of everything attached to it (nothing is shared with the source)"""
            if o is None:
                return None
            return RObj(o.kind, o.ndim, o.cols, [list(o.rows[i]) for i in idx], take(o.other, idx), take(o.ref_pos, idx),
                        o.tag)

        def sub_tok(x, y):
            if x == "nan" or y == "nan":
                return "nan"
            q = Fraction(x[1:]) - Fraction(y[1:])
            return "n" + (str(q.numerator) if q.denominator == 1 else f"{q.numerator}/{q.denominator}")

        def diff_fields(sf, of, depth=0):
            out: Dict[str, Any] = {}
            info["dropped"] += len([x for x in of if x not in sf])
            for name, f in sf.items():
                g = of.get(name)
                if g is None:
                    info["dropped"] += 1
                    continue
                if isinstance(f, RColl) != isinstance(g, RColl):
                    raise Expected("attribute")
                if isinstance(f, RColl):
                    info["nested"] = max(info["nested"], depth + 1)
                    out[name] = RColl(name, f.level, diff_fields(f.fields, g.fields, depth + 1))
                    continue
                factors = None
                if f.unit is not None and g.unit is not None:
                    factors = []
                    for to, fr in zip(f.unit, g.unit):
                        q = unit_factor(fr, to)
                        if q is None:
                            raise Expected("value")
                        factors.append(q)
                if f.kind != g.kind:
                    raise Skip("difference of fields of different types")
                a, b = f.obj, g.obj
                info["kinds"].add(f.kind + ("@nested" if depth else ""))
                if factors and any(q != 1 for q in factors):
                    info["factor"] += 1
                if f.kind in ("bool", "text", "sigma"):
                    info["not_subtractable"] += 1
                    info["copied"] += int(copy_self) + int(copy_other)
                    if copy_self:
                        out[name + "_self"] = RLeaf(name + "_self", f.kind, take(a, ia), f.unit, f.level)
                    if copy_other:
                        out[name + "_other"] = RLeaf(name + "_other", g.kind, take(b, ib), g.unit, g.level)
                    continue
                if a.ndim != b.ndim or a.cols != b.cols or (factors and len(factors) != a.cols):
                    raise Skip("difference of arrays of different shapes")
                if f.kind == "time" and any(t == "nan" for o in (a, b) for r in o.rows for t in r):
                    raise Skip("difference of epochs one of which is the empty epoch")
                if f.kind in ("time", "time_delta") and (a.tag != b.tag or (
                        f.kind == "time" and a.tag.split("/")[-1] not in ("mjd", "jd", "datetime"))):
                    raise Skip("difference of times of different scales / formats, or in a format whose values do not subtract")
                rows = []
                for i, j in pairs:
                    rb = b.rows[j]
                    if factors:
                        rb = [scale_tok(t, factors[c % len(factors)]) for c, t in enumerate(rb)]
                    rows.append([sub_tok(x, y) for x, y in zip(a.rows[i], rb)])
                kind = {"float": "float", "time": "time_delta", "time_delta": "time_delta", "position": "position_delta",
                        "posvel": "posvel_delta", "position_delta": "position_delta", "posvel_delta": "posvel_delta"}[f.kind]
                new = RObj(kind, a.ndim, a.cols, rows)
                if f.kind == "time":
                    # `Time - Time`: a TimeDelta of the same scale, format `timedelta` for two datetimes, else `jd` (days)
                    sc, fm = a.tag.split("/")
                    new.tag = f"d:{sc}/" + ("timedelta" if fm == "datetime" else "jd")
                elif f.kind == "time_delta":
                    new.tag = a.tag
                if f.kind in ("position", "posvel"):
                    new.ref_pos = take(a, ia)
                elif f.kind in ("position_delta", "posvel_delta"):
                    new.ref_pos = take(a.ref_pos, ia)
                out[name] = RLeaf(name, kind, new, f.unit, f.level)
            return out

        res = RDS(len(pairs))
        res.fields = diff_fields(d.fields, e.fields)
        for x in names:
            f = d.fields[x]
            res.fields.pop(x, None)
            res.fields[x] = RLeaf(x, f.kind, take(f.obj, ia), f.unit, f.level)
        return res

    # ------------------------------------------------------------------ structure for the comparison
    def struct(self):
        # objects are numbered per dataset: only the sharing *within* a dataset is part of the statement
        return [{"d": k, "n": self.ds[k].n, "fields": fields_struct(self.ds[k].fields, [], ref=True, n=self.ds[k].n)}
                for k in sorted(self.ds)]


def obj_struct(o, seen, ref):
    if ref:
        kind, ndim, cols, rows = o.kind, o.ndim, o.cols, o.rows
        oth, rp = o.other, o.ref_pos
        tag = o.tag
    else:
        kind, ndim, cols, rows = describe(o, True)
        tag = tag_of(o)
        oth = getattr(o, "other", None) if kind in ("position", "posvel") else None
        rp = getattr(o, "ref_pos", None) if kind in ("position_delta", "posvel_delta") else None
    ident = kind in IDENT_KINDS
    if ident:
        for i, s in enumerate(seen):
            if s is o:
                return {"same_as": i}
        seen.append(o)
        k = len(seen) - 1
    else:
        k = None
    return {"id": k, "kind": kind, "ndim": ndim, "cols": cols, "tag": tag, "rows": [list(r) for r in rows],
            "other": obj_struct(oth, seen, ref) if oth is not None else None,
            "ref_pos": obj_struct(rp, seen, ref) if rp is not None else None}


def fields_struct(fields, seen, ref, n=None):
    out = []
    for name, f in fields.items():
        if ref:
            if isinstance(f, RColl):
                out.append({"name": name, "coll": True, "num_obs": n, "level": f.level,
                            "fields": fields_struct(f.fields, seen, True, n)})
            else:
                out.append({"name": name, "kind": f.kind, "num_obs": n, "unit": f.unit, "level": f.level,
                            "obj": obj_struct(f.obj, seen, True)})
        else:
            if f.fieldtype == "collection":
                sub = f.data._fields
                out.append({"name": name, "coll": True, "num_obs": f.num_obs, "level": int(f._write_level),
                            "fields": fields_struct(sub, seen, False)})
            else:
                out.append({"name": name, "kind": f.fieldtype, "num_obs": f.num_obs,
                            "unit": None if f._unit is None else tuple(f._unit), "level": int(f._write_level),
                            "obj": obj_struct(f.data, seen, False)})
    return out


def real_struct(rw):
    return [{"d": k, "n": rw.ds[k].num_obs, "fields": fields_struct(rw.ds[k]._fields, [], ref=False)}
            for k in sorted(rw.ds)]


# ---------------------------------------------------------------------------------------------
# comparison: the first difference, classified


def diff_obj(a, b, where):
    """a = real, b = reference"""
    if a is None or b is None:
        if a is None and b is None:
            return None
        return ("attachment", where, "present" if a is not None else "missing")
    if ("same_as" in a) != ("same_as" in b) or a.get("same_as") != b.get("same_as") or a.get("id") != b.get("id"):
        return ("sharing", where, f"real {a.get('same_as', a.get('id'))} reference {b.get('same_as', b.get('id'))}")
    if "same_as" in a:
        return None
    if a["kind"] != b["kind"] or a["ndim"] != b["ndim"] or a["cols"] != b["cols"] or a["tag"] != b["tag"]:
        return ("shape", where, f"{a['kind']}/{a['ndim']}/{a['cols']}/{a['tag']} vs {b['kind']}/{b['ndim']}/{b['cols']}/{b['tag']}")
    if len(a["rows"]) != len(b["rows"]):
        return ("rows", where, f"{b['kind']}: {len(a['rows'])} rows, expected {len(b['rows'])}")
    if a["rows"] != b["rows"]:
        i = next(i for i, (x, y) in enumerate(zip(a["rows"], b["rows"])) if x != y)
        return ("contents", where, f"{b['kind']} row {i}: {a['rows'][i]} expected {b['rows'][i]}")
    for att in ("other", "ref_pos"):
        r = diff_obj(a[att], b[att], att)
        if r:
            return r
    return None


def diff_fields(A, B, where):
    if [f["name"] for f in A] != [f["name"] for f in B]:
        return ("fields", where, f"{[f['name'] for f in A]} expected {[f['name'] for f in B]}")
    for a, b in zip(A, B):
        w = "field"
        if a.get("coll") != b.get("coll"):
            return ("fields", w, f"{a['name']}: collection vs leaf")
        if a.get("coll"):
            r = diff_fields(a["fields"], b["fields"], where + a["name"] + ".")
            if r:
                return r
            if a["num_obs"] != b["num_obs"]:
                return ("field-num_obs", "collection", f"{a['name']}: {a['num_obs']} expected {b['num_obs']}")
            if a["level"] != b["level"]:
                return ("level", "collection", a["name"])
            continue
        if a["kind"] != b["kind"]:
            return ("kind", w, f"{a['name']}: {a['kind']} expected {b['kind']}")
        r = diff_obj(a["obj"], b["obj"], w)
        if r:
            return (r[0], r[1], f"{where}{a['name']}: {r[2]}")
        if a["num_obs"] != b["num_obs"]:
            return ("field-num_obs", w, f"{where}{a['name']}: {a['num_obs']} expected {b['num_obs']}")
        if a["unit"] != b["unit"]:
            return ("unit", w, f"{where}{a['name']}: {a['unit']} expected {b['unit']}")
        if a["level"] != b["level"]:
            return ("level", w, f"{where}{a['name']}")
    return None


def diff_world(real, refw, target):
    """first difference; datasets other than the operation's target are compared too (aliasing)"""
    for a, b in zip(real, refw):
        tgt = "" if a["d"] == target else "other-dataset:"
        r = diff_fields(a["fields"], b["fields"], "")
        if r:
            return (tgt + r[0], r[1], f"dataset {a['d']}: {r[2]}")
        if a["n"] != b["n"]:
            return (tgt + "num_obs", "dataset", f"dataset {a['d']}: num_obs {a['n']} expected {b['n']}")
    return None


def call_site(exc) -> str:
    """deepest midgard frame of the traceback: a stable identity of where the code raised"""
    site = "?"
    for fr in traceback.extract_tb(exc.__traceback__):
        if "/midgard/" in fr.filename:
            site = fr.filename.rsplit("/", 1)[-1].replace(".py", "") + "." + fr.name
    return site


def op_label(op):
    o = op["op"]
    if o == "subset":
        return "subset-" + ("mask" if "mask" in op else "ints")
    if o == "merge":
        # merging without sorting is a sequence of extends
        return "merge-sort" if op.get("sort_by") else "extend"
    if o == "diff":
        return "difference" + ("[index_by]" if op.get("index_by") else "[positional]")
    return o


def _violate(ctx, key, what, case):
    """report a key at most three times per run (the framework keeps only the first 50 reports)"""
    seen = ctx.extra.setdefault("oracle_failures_by_key", {})
    seen[key] = seen.get(key, 0) + 1
    if seen[key] <= 3:
        ctx.violate(key, what, case)
    else:
        ctx.count("oracle_failures")


def judge(ctx, op, concrete, status, out, exp_status, exp_out, rw, rf):
    """the property, stated on the real code: after the operation the real world equals the reference"""
    case = {"ops": list(concrete)}
    lab = op_label(op)
    if getattr(rf, "empty_operand", False):
        lab += "[empty-operand]"  # extend / merge where one of the datasets has no rows
    if exp_status == "skip":
        ctx.count("oracle-skip")
        return
    if exp_status == "err":
        ctx.count("oracle-expected-error:" + exp_out)
        if op["op"] == "diff" and status == "ok":
            # unequal lengths without index fields / no common record: there is no table to return
            _violate(ctx, f"{lab}:no-error", f"{lab} returned a dataset where the table model has none ({exp_out} error "
                     f"expected: unequal numbers of records without index fields, or no common record)", case)
        return
    if status != "ok":
        site = call_site(rw.last_exc) if rw.last_exc is not None else "?"
        _violate(ctx, f"{lab}:raises:{out}@{site}",
                    f"{lab} raised {type(rw.last_exc).__name__}: {rw.last_exc} where the table model has a result", case)
        return
    d = diff_world(real_struct(rw), rf.struct(), op.get("r") if op["op"] == "diff" else op.get("d"))
    if d is not None and getattr(rf, "shared_one_sided", False) and rf.code_variant is not None:
        # the listed finding and nothing else?  Then the real world equals the reference in which the second name of the
        # shared array is served from the memo.  (The history ends here, the variant is not used again.)
        rf.ds[op["d"]] = rf.code_variant
        d2 = diff_world(real_struct(rw), rf.struct(), op.get("d"))
        if d2 is None:
            which = "merge" if op["op"] == "merge" else "extend"
            _violate(ctx, f"{which}:shared-array-one-name-missing",
                     f"after {lab}: {d[2]} (one array under two field names, one name missing in the other dataset: the "
                     f"field is served from the memo of the other name instead of being padded / extended on its own)", case)
            return
        d = d2
    if d is not None:
        _violate(ctx, f"{lab}:{d[0]}@{d[1]}", f"after {lab}: {d[2]}", case)
        return
    if out != exp_out:
        _violate(ctx, f"{lab}:result", f"{lab} returned {out}, expected {exp_out}", case)
