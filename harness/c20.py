"""C20 — numeric helpers satisfy their defining identities.

translate:   translator/extract_c20.py → lean/Midgard/Generated/C20Tables.lean (unit factors as exact
             q·π^k read from the definition *text*, rotation poles, interpolator registry)
prove:       lean/Midgard/Props/C20.lean (identities for all arguments over the model in Model/Numeric.lean)
correspond:  Unit.<a>2<b> for all pairs, deg/rad↔dms, lagrange (all branches incl. errors), linear,
             compute_dops, PlateMotion.get_velocity, LinearRegression — real code vs compiled Lean model on the
             same exact rationals; floating-point error measured against condition-scaled bounds
oracle:      the identities of the property stated directly on the real code (reciprocity/transitivity,
             dms round trip, node reproduction / permutation / linearity / n-dim / polynomial reproduction for
             every interpolator, DOP Pythagoras + rotation + permutation, perpendicularity)
"""
from __future__ import annotations

import json
import math
import warnings
from fractions import Fraction

import numpy as np

from . import c20_spatial as S
from . import c20_types as T
from . import common
from .common import Ctx, frac, rs

PI = Fraction(math.pi)
EPS = 2.0 ** -52
KINDS = ["lagrange", "linear", "cubic", "interpolated_univariate_spline", "barycentric_interpolator"]
ACCEPTS_UNSORTED = {"lagrange", "linear", "cubic", "barycentric_interpolator"}

# exact SI / IAU definitions typed independently of pint and of the translator (SI brochure 9th ed.,
# table 8; international yard and pound agreement 1959; IAU 2012 B2 is not needed here)
SI = {
    "meter": 1, "m": 1, "km": 1000, "kilometer": 1000, "millimeter": Fraction(1, 1000), "mm": Fraction(1, 1000),
    "centimeter": Fraction(1, 100), "decimeter": Fraction(1, 10), "micrometer": Fraction(1, 10**6),
    "Megameter": 10**6, "Mm": 10**6, "inch": Fraction(254, 10000), "foot": Fraction(3048, 10000),
    "mile": Fraction(1609344, 1000), "nautical_mile": 1852, "angstrom": Fraction(1, 10**10),
    "second": 1, "s": 1, "sec": 1, "millisecond": Fraction(1, 1000), "microsecond": Fraction(1, 10**6),
    "nanosecond": Fraction(1, 10**9), "picosecond": Fraction(1, 10**12), "minute": 60, "hour": 3600,
    "day": 86400, "week": 604800, "julian_year": 31557600, "year": 31557600, "century": 3155760000,
}
SI_ANGLE = {  # factor to radian as (q, power of π)
    "radian": (1, 0), "rad": (1, 0), "degree": (Fraction(1, 180), 1), "deg": (Fraction(1, 180), 1),
    "arcminute": (Fraction(1, 10800), 1), "arcsecond": (Fraction(1, 648000), 1), "arcsec": (Fraction(1, 648000), 1),
    "milliarcsecond": (Fraction(1, 648000000), 1), "mas": (Fraction(1, 648000000), 1),
    "milliarcsec": (Fraction(1, 648000000), 1), "turn": (2, 1),
}


def V(ctx: Ctx, key: str, what: str, replay):
    ctx.violate(key, what, replay)


class guard:
    """`with guard(ctx, part):` around the work on one case.  Whatever the real code does there that the
    harness cannot interpret - an exception, a None / NaN / wrong-length result that makes a comparison
    raise - becomes an oracle failure with the case as replay; it never ends the run (tool failures of
    the Lean side still propagate)."""

    def __init__(self, ctx: Ctx, part: str):
        self.ctx, self.part = ctx, part

    def __enter__(self):
        return self

    def __exit__(self, et, ev, tb):
        if et is None or not issubclass(et, Exception) or issubclass(et, common.ToolFailure):
            return False
        import traceback

        case = tb.tb_frame.f_locals.get("case") if tb is not None else None
        where = traceback.extract_tb(tb)[-1]
        V(self.ctx, f"{self.part}:uninterpretable:{et.__name__}",
          f"{self.part}: the real code raised, or returned a value that is not a valid result "
          f"({et.__name__}: {str(ev)[:160]}; at {where.name}:{where.lineno})",
          case if case is not None else {"part": self.part})
        return True


def rl(vals) -> str:
    vals = list(vals)
    return ",".join(rs(v) for v in vals) if vals else "[]"


def rrows(rows) -> str:
    rows = list(rows)
    return ";".join(rl(r) for r in rows) if rows else "[]"


def prl(s: str):
    return [] if s == "[]" else [Fraction(t) for t in s.split(",")]


def prows(s: str):
    return [] if s == "[]" else [prl(r) for r in s.split(";")]


def fl(v):
    """JSON-able exact description of a float"""
    return float(v).hex()


# =============================================================================================
# units


def units_part(ctx: Ctx, drv, info):
    from midgard.dev import exceptions
    from midgard.math.unit import Unit

    names = [u[0] for u in info["units"]]
    dims = {u[0]: u[1] for u in info["units"]}
    ctx.extra["units_table"] = {"count": len(names), "names": names}

    # pint's double for the root factor vs the exact reading of the definition text
    for tok, fac, mine in info["checks"]:
        if abs(fac - mine) > 4 * EPS * abs(mine):
            ctx.disagree("unit table (exact definition text) vs pint registry factor", {"unit": tok}, mine, fac)
    for p in info["problems"]:
        ctx.disagree("translator could not read a definition exactly", {"problem": p}, "-", "-")
    if len(names) < 35:
        ctx.disagree("unit table too small (source scan broken?)", {"n": len(names)}, ">=35", len(names))

    def impl_pair(a, b, via):
        try:
            v = getattr(Unit, f"{a}2{b}") if via == "attr" else Unit(a, b)
            return ("ok", float(v))
        except exceptions.UnitError:
            return ("dim", None)
        except Exception as e:  # noqa
            return (f"ERR:{type(e).__name__}", None)

    f = {}
    lines, keys = [], []
    for a in names:
        for b in names:
            via = "attr" if ("2" not in a and "2" not in b and ctx.rng.random() < 0.7) else "call"
            f[(a, b)] = impl_pair(a, b, via)
            lines.append(f"c20 unit {a} {b} {rs(PI)}")
            keys.append((a, b, via))
    ans = drv.ask(lines)
    for (a, b, via), m in zip(keys, ans):
        with guard(ctx, "unit"):
            case = {"part": "unit", "a": a, "b": b, "via": via}
            ctx.case(case, nontrivial=(a != b and dims[a] == dims[b]))
            ctx.count("unit-pair-same-dim" if dims[a] == dims[b] else "unit-pair-cross-dim")
            kind, val = f[(a, b)]
            if m.startswith("ok "):
                mv = Fraction(m[3:])
                if kind != "ok" or abs(frac(val) - mv) > Fraction(1, 10**14) * abs(mv):
                    ctx.disagree("Unit.<a>2<b> vs factor table", case, m, [kind, val])
            elif m != kind:
                ctx.disagree("Unit.<a>2<b> dimension guard", case, m, [kind, val])

    # both spellings give the same number (sampled)
    for _ in range(60):
        with guard(ctx, "unit"):
            a, b = ctx.rng.choice(names), ctx.rng.choice(names)
            if impl_pair(a, b, "attr") != impl_pair(a, b, "call"):
                V(ctx, "unit:attr-vs-call", f"Unit.{a}2{b} differs from Unit({a!r}, {b!r})", {"a": a, "b": b})

    # ---- oracle: reciprocity, transitivity, anchoring to base units, SI definitions
    TOL = 1e-13
    base = {}
    for a in names:
        with guard(ctx, "unit"):
            try:
                base[a] = float((1 * Unit(a)).to_base_units().magnitude)
            except Exception as e:  # noqa
                V(ctx, f"unit:base:{a}", f"Unit({a!r}) has no base-unit form: {e}", {"a": a})
    for a in names:
        with guard(ctx, "unit"):
            for b in names:
                kind, v = f[(a, b)]
                same = dims[a] == dims[b]
                if same and kind != "ok":
                    V(ctx, f"unit:refused:{a}2{b}", f"Unit.{a}2{b} raised {kind} for units of one dimension", {"a": a, "b": b})
                    continue
                if not same:
                    if kind == "ok":
                        V(ctx, f"unit:crossdim:{a}2{b}", f"Unit.{a}2{b} = {v} across dimensions", {"a": a, "b": b})
                    continue
                kind2, w = f[(b, a)]
                if kind2 == "ok" and abs(v * w - 1) > TOL:
                    V(ctx, f"unit:recip:{a}/{b}", f"{a}2{b} x {b}2{a} = {v * w!r} != 1", {"a": a, "b": b, "a2b": v, "b2a": w})
                if a in base and b in base and abs(v - base[a] / base[b]) > TOL * abs(v):
                    V(ctx, f"unit:anchor:{a}2{b}", f"{a}2{b} = {v!r} but one {a} is {base[a]!r} and one {b} is {base[b]!r} base units",
                                {"a": a, "b": b, "a2b": v})
    ntr = 0
    for a in names:
        with guard(ctx, "unit"):
            for b in names:
                if dims[a] != dims[b] or f[(a, b)][0] != "ok":
                    continue
                for c in names:
                    if dims[c] != dims[a] or f[(b, c)][0] != "ok" or f[(a, c)][0] != "ok":
                        continue
                    ntr += 1
                    lhs = f[(a, b)][1] * f[(b, c)][1]
                    if abs(lhs - f[(a, c)][1]) > TOL * abs(f[(a, c)][1]):
                        V(ctx, f"unit:trans:{a}/{b}/{c}", f"{a}2{b} x {b}2{c} = {lhs!r} != {a}2{c} = {f[(a, c)][1]!r}",
                                    {"a": a, "b": b, "c": c})
    ctx.count("unit-triples", ntr)
    ctx.evaluations += ntr
    for a in names:
        with guard(ctx, "unit"):
            if a in SI and a in base and abs(base[a] - float(SI[a])) > TOL * float(SI[a]):
                V(ctx, f"unit-si:{a}", f"one {a} is {base[a]!r} base units, SI says {SI[a]}", {"a": a})
            if a in SI_ANGLE and a in base:
                q, k = SI_ANGLE[a]
                if abs(base[a] - float(q) * math.pi ** k) > TOL * base[a]:
                    V(ctx, f"unit-si:{a}", f"one {a} is {base[a]!r} rad, definition says {q}*pi^{k}", {"a": a})


# =============================================================================================
# degrees / minutes / seconds


def gen_angle(rng):
    k = rng.random()
    if k < 0.06:
        return rng.choice([0.0, -0.0, 360.0, -360.0, 1.0, -1.0, 180.0, -180.0, 90.0, -90.0])
    if k < 0.22:   # negative below one degree (and positive)
        return rng.choice([-1, -1, 1]) * rng.random()
    if k < 0.30:
        return rng.choice([-1, 1]) * 10.0 ** rng.uniform(-15, -1)
    if k < 0.42:
        return float(rng.randint(-360, 360))
    if k < 0.56:   # exact minutes / seconds boundaries
        d, m, s = rng.randint(0, 359), rng.randint(0, 59), rng.choice([0, 0, rng.randint(0, 59), 59.999999])
        return rng.choice([-1, 1]) * (d + m / 60 + s / 3600)
    if k < 0.64:   # a few ulps around an integer
        v = float(rng.randint(-359, 359))
        for _ in range(rng.randint(1, 3)):
            v = math.nextafter(v, rng.choice([-1e9, 1e9]))
        return v
    return rng.uniform(-360, 360)


def sf(x: float):
    """float → protocol 'neg mag'"""
    return ("1" if math.copysign(1.0, x) < 0 else "0") + " " + rs(abs(frac(x)))


def dms_part(ctx: Ctx, drv):
    from midgard.math.unit import Unit

    n = ctx.budget(1500, 30000)
    TOL_C = Fraction(1, 10**12)   # degrees, correspondence
    TOL_O = Fraction(1, 10**11)   # degrees, property
    angles = [gen_angle(ctx.rng) for _ in range(n)]
    # correspondence deg_to_dms / rad_to_dms
    lines = [f"c20 deg2dms {rs(PI)} {sf(x)}" for x in angles]
    ans = drv.ask(lines)
    for x, a in zip(angles, ans):
        with guard(ctx, "dms"):
            case = {"part": "dms", "deg": fl(x)}
            ctx.case(case, nontrivial=(x != 0))
            ctx.count("dms:neg<1deg" if -1 < x < 0 else "dms:zero" if x == 0 else "dms:neg" if x < 0 else "dms:pos")
            try:
                d, m, s = Unit.deg_to_dms(x)
                d, m, s = float(d), float(m), float(s)
            except Exception as e:  # noqa
                V(ctx, f"dms:raises:{type(e).__name__}", f"deg_to_dms({x!r}) raised {e}", case)
                continue
            t = a.split()
            mneg, md, mm, ms = t[0] == "1", Fraction(t[1]), Fraction(t[2]), Fraction(t[3])
            ineg = math.copysign(1.0, d) < 0
            tot_i = abs(frac(d)) + frac(m) / 60 + frac(s) / 3600
            tot_m = md + mm / 60 + ms / 3600
            if abs(x) < 1e-290 and abs(tot_i - tot_m) <= TOL_C:
                ctx.count("dms:underflow")       # x * degrees2radians underflows to (signed) zero: sign of 0 not compared
            elif ineg != mneg or abs(tot_i - tot_m) > TOL_C:
                ctx.disagree("deg_to_dms", case, a, [d, m, s])
            elif (abs(frac(d)), frac(m)) != (md, mm):
                ctx.count("dms:floor-edge")   # float product landed on the other side of an integer
            elif abs(frac(s) - ms) > TOL_C * 3600:
                ctx.disagree("deg_to_dms seconds", case, a, [d, m, s])
            # ---- oracle: round trip and field ranges, on the real code only
            if not (d == math.floor(d) and m == math.floor(m) and 0 <= m < 60 and 0 <= s <= 60):
                V(ctx, "dms:fields", f"deg_to_dms({x!r}) = {(d, m, s)} has a field out of range", case)
            try:
                back = float(Unit.dms_to_deg(d, m, s))
            except Exception as e:  # noqa
                V(ctx, f"dms:raises:{type(e).__name__}", f"dms_to_deg{(d, m, s)} raised {e}", case)
                continue
            if abs(frac(back) - frac(x)) > TOL_O or math.isnan(back):
                key = "dms:roundtrip:neg<1deg" if -1 < x < 0 else "dms:roundtrip:zero" if x == 0 else "dms:roundtrip"
                V(ctx, key, f"dms_to_deg(*deg_to_dms({x!r})) = {back!r}", {**case, "dms": [d, m, s]})
    # rad_to_dms round trip through dms_to_rad + vectorised call equals scalar calls
    sub = angles[: max(50, n // 10)]
    rads = [x * math.pi / 180 for x in sub]
    lines = [f"c20 rad2dms {rs(PI)} {sf(r)}" for r in rads]
    ans = drv.ask(lines)
    try:
        vec = Unit.rad_to_dms(np.array(rads))
    except Exception as e:  # noqa
        V(ctx, f"dms:array:raises:{type(e).__name__}", f"rad_to_dms on an array raised {e}", {"part": "rad_dms", "rads": [fl(r) for r in rads[:20]]})
        vec = None
    for i, (r, a) in enumerate(zip(rads, ans)):
        with guard(ctx, "dms"):
            case = {"part": "rad_dms", "rad": fl(r)}
            ctx.case(case, nontrivial=(r != 0))
            d, m, s = (float(v) for v in Unit.rad_to_dms(r))
            t = a.split()
            tot_i = abs(frac(d)) + frac(m) / 60 + frac(s) / 3600
            tot_m = Fraction(t[1]) + Fraction(t[2]) / 60 + Fraction(t[3]) / 3600
            if (math.copysign(1.0, d) < 0) != (t[0] == "1") or abs(tot_i - tot_m) > TOL_C:
                ctx.disagree("rad_to_dms", case, a, [d, m, s])
            if vec is not None and ((float(vec[0][i]), float(vec[1][i]), float(vec[2][i])) != (d, m, s) or \
                    math.copysign(1, float(vec[0][i])) != math.copysign(1, d)):
                V(ctx, "dms:array-vs-scalar", f"rad_to_dms on an array differs from the scalar call at {r!r}", case)
            back = float(Unit.dms_to_rad(d, m, s))
            if abs(frac(back) - frac(r)) > TOL_O / 50:
                V(ctx, "dms:roundtrip:rad", f"dms_to_rad(*rad_to_dms({r!r})) = {back!r}", case)
    # dms_to_deg / dms_to_rad / hms_to_rad on constructed fields (incl. -0.0 degrees)
    m_cases = []
    for _ in range(max(100, n // 5)):
        d = float(ctx.rng.randint(0, 359)) * ctx.rng.choice([1.0, -1.0])   # -0.0 arises as 0 * -1.0
        mi = float(ctx.rng.randint(0, 59))
        s = ctx.rng.choice([0.0, ctx.rng.uniform(0, 60), float(ctx.rng.randint(0, 59))])
        m_cases.append((d, mi, s))
    m_cases += [(-0.0, 19.0, 59.97487), (0.0, 19.0, 59.97487), (-0.0, 0.0, 0.0), (-0.0, 0.0, 1e-9)]
    lines = []
    for d, mi, s in m_cases:
        lines.append(f"c20 dms2deg {rs(PI)} {sf(d)} {rs(frac(mi))} {rs(frac(s))}")
        lines.append(f"c20 dms2rad {rs(PI)} {sf(d)} {rs(frac(mi))} {rs(frac(s))}")
        lines.append(f"c20 hms2rad {rs(PI)} {sf(d)} {rs(frac(mi))} {rs(frac(s))}")
    ans = drv.ask(lines)
    for i, (d, mi, s) in enumerate(m_cases):
        with guard(ctx, "dms"):
            case = {"part": "dms_to", "d": fl(d), "m": mi, "s": fl(s)}
            ctx.case(case)
            ctx.count("dms_to:-0.0" if (d == 0 and math.copysign(1, d) < 0) else "dms_to")
            for j, (name, fn) in enumerate([("dms_to_deg", Unit.dms_to_deg), ("dms_to_rad", Unit.dms_to_rad), ("hms_to_rad", Unit.hms_to_rad)]):
                a = ans[3 * i + j]
                try:
                    v = float(fn(d, mi, s))
                    impl = ("ok", v)
                except ValueError:
                    impl = ("neg-hours", None)
                if a == "neg-hours" or impl[0] != "ok":
                    if a != impl[0]:
                        ctx.disagree(name + " guard", case, a, impl)
                    continue
                t = a.split()
                mv = Fraction(t[1]) * (-1 if t[0] == "1" else 1)
                if abs(frac(v) - mv) > TOL_C * 15 or ((math.copysign(1, v) < 0) != (t[0] == "1")):
                    ctx.disagree(name, case, a, impl)
            # oracle: the sign of the degree field alone decides the sign of the angle
            v = float(Unit.dms_to_deg(d, mi, s))
            want = (abs(frac(d)) + frac(mi) / 60 + frac(s) / 3600) * (-1 if math.copysign(1, d) < 0 else 1)
            if abs(frac(v) - want) > TOL_O:
                V(ctx, "dms:sign-of-degree-field", f"dms_to_deg({d!r}, {mi}, {s!r}) = {v!r}, expected {float(want)!r}", case)


# =============================================================================================
# interpolation


def gen_abscissae(rng, n):
    k = rng.random()
    if k < 0.2:       # dyadic grid: float arithmetic on it is exact, ties between nodes are real ties
        step = rng.choice([0.25, 0.5, 1.0, 2.0])
        x0 = float(rng.randint(-50, 50))
        xs, x = [], x0
        for _ in range(n):
            x += step * rng.randint(1, 4)
            xs.append(x)
        return np.array(xs), "dyadic"
    if k < 0.45:
        x0, h = rng.uniform(-100, 100), 10 ** rng.uniform(-2, 2)
        return x0 + h * np.arange(n), "uniform"
    if k < 0.6:       # epoch-like: large offset, small spacing
        x0, h = rng.uniform(50000, 60000), rng.choice([1 / 1440, 1 / 96, 1 / 24, 0.25])
        gaps = np.array([h * rng.uniform(0.5, 2.0) for _ in range(n)])
        return x0 + np.cumsum(gaps), "epoch"
    h = 10 ** rng.uniform(-3, 3)
    gaps = np.array([h * 10 ** rng.uniform(-0.7, 0.7) for _ in range(n)])
    return rng.uniform(-10, 10) * h + np.cumsum(gaps), "random"


def gen_xnew(rng, x, flavour, k):
    out = []
    n = len(x)
    for _ in range(k):
        c = rng.random()
        if c < 0.25:
            out.append(float(x[rng.randrange(n)]))                 # a node
        elif c < 0.4:
            i = rng.randrange(n - 1)
            out.append(float((x[i] + x[i + 1]) / 2))               # midpoint (tie on dyadic grids)
        elif c < 0.55:
            i = rng.choice([0, n - 2])
            out.append(float(x[i] + (x[i + 1] - x[i]) * rng.random()))   # end intervals
        elif c < 0.62:
            out.append(float(rng.choice([x[0], x[-1]])))
        else:
            out.append(float(rng.uniform(x[0], x[-1])))
    return np.array([min(max(v, float(x[0])), float(x[-1])) for v in out])


def gen_y(rng, x, shape_tail, w):
    """values with a moderate scale; sometimes an exact polynomial of degree < w in t = (x-x0)/range"""
    n = len(x)
    t = (x - x[0]) / (x[-1] - x[0])
    size = int(np.prod(shape_tail)) if shape_tail else 1
    cols, polys = [], []
    for _ in range(size):
        c = rng.random()
        if c < 0.45:
            deg = rng.randint(0, w - 1)
            co = [rng.uniform(-3, 3) for _ in range(deg + 1)]
            cols.append(sum(cj * t ** j for j, cj in enumerate(co)))
            polys.append(co)
        elif c < 0.7:
            cols.append(np.array([rng.uniform(-1, 1) for _ in range(n)]) * 10 ** rng.uniform(-3, 6))
            polys.append(None)
        else:
            cols.append(np.sin(3 * t + rng.random()) * 10 ** rng.uniform(0, 7))
            polys.append(None)
    y = np.stack(cols, axis=1).reshape((n,) + tuple(shape_tail)) if shape_tail else cols[0]
    return y, polys


CORR_DT = ["bool"] + T.INT_DT      # dtypes of the typed correspondence (x, y, x_new handed to the code; the model gets the values)


def gen_integer_samples(rng, n, w, tail, k):
    """integer-valued samples (as float64 arrays): integer nodes, integer ordinates (integer polynomials of degree
    < w in x - x[0], random integers, or 0/1), x_new integers / half-integers / anything — what a caller holding
    counts, ticks or integer nanoseconds hands in, in whatever integer dtype"""
    small = rng.random() < 0.3        # fits the 8-bit types
    x0 = rng.randint(0, 20) if small else rng.randint(-300, 300)
    steps = [rng.randint(1, 2 if small else 4) for _ in range(n)]
    x = np.cumsum([x0] + steps[:-1]).astype(float)
    rngx = float(x[-1] - x[0])
    d = x - x[0]
    size = int(np.prod(tail)) if tail else 1
    cols, polys = [], []
    for _ in range(size):
        c = rng.random()
        if c < 0.45 and not small:
            deg = rng.randint(0, min(w - 1, 3))
            co = [rng.randint(-4, 4) for _ in range(deg + 1)]
            cols.append(sum(cj * d ** j for j, cj in enumerate(co)))
            polys.append([cj * rngx ** j for j, cj in enumerate(co)])       # coefficients in t = (x - x0)/range
        elif c < 0.6:
            cols.append(np.array([float(rng.randint(0, 1)) for _ in range(n)]))
            polys.append(None)
        else:
            m = 100 if small else 10 ** rng.randint(2, 6)
            lo = 0 if rng.random() < 0.3 else -m
            cols.append(np.array([float(rng.randint(lo, m)) for _ in range(n)]))
            polys.append(None)
    y = np.stack(cols, axis=1).reshape((n,) + tuple(tail)) if tail else cols[0]
    c = rng.random()
    if c < 0.5:
        xn = np.array([float(rng.randint(int(x[0]), int(x[-1]))) for _ in range(k)])
    elif c < 0.75:
        xn = np.array([min(float(rng.randint(int(x[0]), int(x[-1]))) + 0.5, float(x[-1])) for _ in range(k)])
    else:
        xn = np.array([rng.uniform(float(x[0]), float(x[-1])) for _ in range(k)])
    return x, y, polys, xn


def call_interp(kind, x, y, xn, **kw):
    from midgard.math import interpolation as ip
    with warnings.catch_warnings():
        warnings.simplefilter("ignore")
        return ip.interpolate(x, y, xn, kind=kind, **kw)


def classify_error(e: Exception) -> str:
    s = str(e)
    if "equal in length" in s:
        return "shape"
    if "at least 3" in s:
        return "window"
    if "at least window" in s:
        return "short"
    if "sorted array with unique" in s:
        return "unsorted"
    if "below the interpolation range" in s:
        return "below"
    if "above the interpolation range" in s:
        return "above"
    return f"ERR:{type(e).__name__}:{s[:60]}"


def lagrange_part(ctx: Ctx, drv):
    rng = ctx.rng
    ncases = ctx.budget(160, 3500)
    for ci in range(ncases):
        with guard(ctx, "lagrange"):
            n = rng.choice([3, 4, 5, 8, 12, 13]) if rng.random() < 0.3 else rng.randint(3, 60)
            w = rng.randint(3, min(12, n))
            x, flavour = gen_abscissae(rng, n)
            tail = rng.choice([(), (), (1,), (2,), (3,), (2, 2), (3, 2), (2, 1, 2)])
            y, polys = gen_y(rng, x, tail, w)
            k = rng.randint(1, 8)
            xn = gen_xnew(rng, x, flavour, k)
            if rng.random() < 0.25:
                x, y, polys, xn = gen_integer_samples(rng, n, w, tail, k)
                flavour = "integer"
            be, srt = True, rng.random() < 0.3
            mode = "ok"
            c = rng.random()
            perm = np.arange(n)
            if not srt and rng.random() < 0.7:
                perm = np.array(rng.sample(range(n), n))
            xi, yi = x[perm], y[perm]
            if c < 0.04:
                w, mode = rng.choice([0, 1, 2]), "window"
            elif c < 0.08:
                w, mode = n + rng.randint(1, 3), "short"
            elif c < 0.12:
                xi = xi.copy(); xi[rng.randrange(n)] = xi[rng.randrange(n)]; mode = "dup?"
            elif c < 0.16 and n > 3:
                srt = True; xi = xi.copy(); i = rng.randrange(n - 1); xi[i], xi[i + 1] = xi[i + 1], xi[i]; mode = "unsorted"
            elif c < 0.24:
                be = rng.random() < 0.6
                span = float(x[-1] - x[0])
                xn = xn.copy(); xn[rng.randrange(k)] = rng.choice([x[0] - span * rng.uniform(1e-9, 0.3), x[-1] + span * rng.uniform(1e-9, 0.3)])
                mode = "outside" if be else "extrapolate"
            elif c < 0.27:
                yi = yi[:-1]; mode = "shape"
            # the arrays go to the code in a dtype that holds their values exactly (the model gets the values)
            dts = {"x": T.pick_dtype(rng, xi, CORR_DT), "y": T.pick_dtype(rng, yi, CORR_DT + ["float16", "float32"]),
                   "xn": T.pick_dtype(rng, xn, CORR_DT + ["float16", "float32"])}
            if dts["x"] == "bool":
                dts["x"] = "float64"
            case = {"part": "lagrange", "n": n, "w": w, "tail": list(tail), "k": k, "flavour": flavour, "sorted_flag": srt,
                    "bounds_error": be, "mode": mode, "dtypes": dts, "x": [fl(v) for v in xi], "xn": [fl(v) for v in xn],
                    "y": [fl(v) for v in np.asarray(yi).ravel()]}
            ctx.case(case, nontrivial=(mode in ("ok", "extrapolate")))
            ctx.count(f"lagrange:{mode}")
            for a_ in ("x", "y", "xn"):
                ctx.count(f"lagrange:dtype:{a_}={T.dtclass(dts[a_])}")
            ctx.count(f"lagrange:ydim={1 + len(tail)}")
            ctx.count(f"lagrange:x={flavour}")
            for v in xn:   # exact ties between the two nearest samples exercise the first-minimum rule of argmin
                dd = np.sort(np.abs(x - v))
                if len(dd) > 1 and dd[0] == dd[1]:
                    ctx.count("lagrange:xnew-equidistant-from-two-samples")
                elif dd[0] == 0:
                    ctx.count("lagrange:xnew-is-a-sample")
            # ---- implementation
            try:
                txi, tyi, txn = T.apply_dtypes(dts, xi, yi, xn)
                r = call_interp("lagrange", txi, tyi, txn, window=w, bounds_error=be, assume_sorted=srt)
                if np.asarray(r).dtype.kind != "f":
                    V(ctx, "lagrange:result-dtype", f"lagrange returns an array of dtype {np.asarray(r).dtype} for x/y/x_new of dtype "
                      f"{dts['x']}/{dts['y']}/{dts['xn']}", case)
                impl = ("ok", np.asarray(r, dtype=float))
            except ValueError as e:
                impl = ("err", classify_error(e))
            except Exception as e:  # noqa
                impl = ("err", f"ERR:{type(e).__name__}:{str(e)[:80]}")
            # ---- oracle: with assume_sorted=True, samples that are not strictly increasing are refused, whatever their dtype
            if srt and impl[0] == "ok" and len(yi) == len(xi) and 3 <= w <= len(xi) and not np.all(np.diff(np.asarray(xi, dtype=float)) > 0):
                V(ctx, "lagrange:unsorted-accepted", f"lagrange(assume_sorted=True) interpolates through x of dtype {dts['x']} that is not "
                  f"strictly increasing instead of raising ValueError", case)
            # ---- model
            dim = int(np.prod(tail)) if tail else 1
            rows = np.asarray(yi, dtype=float).reshape(len(yi), dim)
            s = float(np.std(xi)) if len(xi) else 1.0
            line = (f"c20 lagrange {w} {int(be)} {int(srt)} {rs(frac(s))} {dim} {rl(frac(v) for v in xi)} "
                    f"{rrows([frac(v) for v in row] for row in rows)} {rl(frac(v) for v in xn)}")
            m = drv.ask1(line)
            if m.startswith("err "):
                if impl != ("err", m[4:]):
                    if impl[0] == "err" and impl[1].startswith("ERR:"):
                        V(ctx, f"lagrange:raises:{impl[1].split(':')[1]}", f"lagrange raised {impl[1]} (model: {m})", case)
                    ctx.disagree("lagrange error branch", case, m, list(map(str, impl)))
                continue
            if impl[0] != "ok":
                if impl[1].startswith("ERR:") or len(tail) >= 2:
                    V(ctx, "lagrange:ndim>=3-raises" if len(tail) >= 2 else f"lagrange:raises:{impl[1][:40]}",
                                f"lagrange on y of shape {np.asarray(yi).shape} raised: {impl[1]}", case)
                else:
                    ctx.disagree("lagrange error branch", case, m[:80], list(impl))
                continue
            mv = prows(m[3:])
            r = impl[1]
            if r.shape != (len(xn),) + tuple(tail):
                V(ctx, "lagrange:shape", f"result shape {r.shape} for y tail {tail} and {len(xn)} abscissae", case)
                continue
            r2 = r.reshape(len(xn), dim)
            # condition-scaled float bound: the weights come from the code itself (y = identity)
            order = np.argsort(xi) if not srt else np.arange(len(xi))
            W = call_interp("lagrange", xi, np.eye(len(xi)), xn, window=w, bounds_error=be, assume_sorted=srt)
            cond = np.abs(W) @ np.abs(rows)          # (k, dim)
            xs_sorted = np.asarray(xi)[order]
            amp = 1.0 + float(np.max(np.abs(xs_sorted - xs_sorted.mean())) / np.min(np.diff(xs_sorted)))
            bad = None
            for a in range(len(xn)):
                for cdx in range(dim):
                    tol = 1e-14 * w * amp * float(cond[a, cdx]) + 1e-300
                    if abs(frac(r2[a, cdx]) - mv[a][cdx]) > frac(tol):
                        bad = (a, cdx, float(r2[a, cdx]), float(mv[a][cdx]), tol)
            if bad:
                ctx.disagree("lagrange value", {**case, "at": bad[:2]}, bad[3], bad[2])
            if mode in ("ok", "extrapolate"):
                interp_oracle(ctx, "lagrange", case, x, y, xn, polys, tail, w, {"window": w, "bounds_error": be})


def interp_oracle(ctx: Ctx, kind, case, x, y, xn, polys, tail, w, kw):
    """the interpolation clauses of the property, on the real code only (x sorted here)"""
    rng = ctx.rng
    n = len(x)
    dim = int(np.prod(tail)) if tail else 1

    def call(xx, yy, xq):
        return np.asarray(call_interp(kind, xx, yy, xq, **kw), dtype=float)

    try:
        W = call(x, np.eye(n), xn)                       # weights at xn, from the code itself
        lam = np.abs(W).sum(axis=1)                      # Lebesgue function at xn
        if kind == "barycentric_interpolator" and np.any(lam > 1e3):
            # SciPy's barycentric weights lose more than Lambda*eps on such node sets (and it permutes the
            # nodes randomly): only the well-conditioned abscissae are judged
            ctx.count("barycentric:ill-conditioned-abscissae-skipped", int(np.sum(lam > 1e3)))
            xn = xn[lam <= 1e3]
            if len(xn) == 0:
                return
            W = call(x, np.eye(n), xn)
            lam = np.abs(W).sum(axis=1)
        ymax = float(np.max(np.abs(y))) + 1e-300
        amp = 1.0 + float(np.max(np.abs(x - x.mean())) / np.min(np.diff(x)))
        unit = 1e-12 * max(w, 4) * amp
        # 1. nodes
        idx = sorted(set(rng.randrange(n) for _ in range(min(n, 6))) | {0, n - 1})
        rn = call(x, y, x[idx])
        err = np.max(np.abs(rn - y[idx]))
        if not err <= unit * ymax:
            V(ctx, f"interp:{kind}:nodes", f"{kind} does not reproduce the data at the nodes (error {err:.3e}, scale {ymax:.3e})", case)
        r0 = call(x, y, xn)
        scale = (lam * ymax).reshape((len(xn),) + (1,) * len(tail))
        # 2. permutation of the samples
        if kind in ACCEPTS_UNSORTED:
            p = np.array(rng.sample(range(n), n))
            rp = call(x[p], y[p], xn)
            if not np.all(np.abs(rp - r0) <= unit * scale):
                V(ctx, f"interp:{kind}:permutation", f"{kind} changes by {np.max(np.abs(rp - r0)):.3e} when the samples are reordered", {**case, "perm": p.tolist()})
        # 3. linearity in the data
        a, b = rng.uniform(-2, 2), rng.uniform(-2, 2)
        z = np.array([rng.uniform(-1, 1) for _ in range(y.size)]).reshape(y.shape) * ymax
        rz = call(x, z, xn)
        rl_ = call(x, a * y + b * z, xn)
        if not np.all(np.abs(rl_ - (a * r0 + b * rz)) <= 8 * unit * scale):
            V(ctx, f"interp:{kind}:linearity", f"{kind} is not linear in the data (defect {np.max(np.abs(rl_ - (a * r0 + b * rz))):.3e})", {**case, "a": a, "b": b})
        # 4. n-dimensional data alike: every component equals the 1-d call on that component
        if tail:
            yc = y.reshape(n, dim)
            rc = r0.reshape(len(xn), dim)
            for cdx in range(dim):
                r1 = call(x, np.ascontiguousarray(yc[:, cdx]), xn)
                if r1.shape != (len(xn),) or not np.all(np.abs(r1 - rc[:, cdx]) <= unit * lam * ymax):
                    V(ctx, f"interp:{kind}:ndim", f"{kind}: component {cdx} of {1 + len(tail)}-d data differs from the 1-d call", case)
                    break
        # 6. the interpolant is a function of the abscissa: the value at x_new[j] does not depend on the other new
        #    abscissae, their number or their order
        if len(xn) > 1:
            q = np.array(rng.sample(range(len(xn)), len(xn)))
            rq = call(x, y, xn[q])
            j = rng.randrange(len(xn))
            r1 = call(x, y, xn[j:j + 1])
            if rq.shape != r0.shape or not np.all(np.abs(rq - r0[q]) <= unit * scale[q]) or not np.all(np.abs(r1[0] - r0[j]) <= unit * scale[j]):
                V(ctx, f"interp:{kind}:pointwise", f"{kind}: the value at a new abscissa depends on the other new abscissae or their order "
                  f"(reordered x_new: {float(np.max(np.abs(rq - r0[q]))) if rq.shape == r0.shape else 'shape'!s}, "
                  f"x_new[{j}] alone: {float(np.max(np.abs(r1[0] - r0[j]))):.3e}; scale {ymax:.3e})", {**case, "xn_order": q.tolist()})
        # 7. a cubic spline interpolator without end conditions of its own (not-a-knot) reproduces cubic polynomials
        if kind in ("cubic", "interpolated_univariate_spline") and n >= 4:
            co3 = [rng.uniform(-3, 3) for _ in range(4)]
            tx, tn = (x - x[0]) / (x[-1] - x[0]), (xn - x[0]) / (x[-1] - x[0])
            got3 = call(x, sum(cj * tx ** j for j, cj in enumerate(co3)), xn)
            want3 = sum(cj * tn ** j for j, cj in enumerate(co3))
            ratio = float(np.max(np.diff(x)) / np.min(np.diff(x)))
            if not np.all(np.abs(got3 - want3) <= unit * ratio ** 2 * lam * sum(abs(cj) for cj in co3) * 4):
                V(ctx, f"interp:{kind}:cubic-polynomial", f"{kind} does not reproduce a cubic polynomial (error {float(np.max(np.abs(got3 - want3))):.3e})",
                  {**case, "coeffs": co3})
        # 5. polynomial reproduction below the window degree (lagrange only)
        if kind == "lagrange" and polys:
            t = (xn - x[0]) / (x[-1] - x[0])
            rc = r0.reshape(len(xn), dim)
            for cdx, co in enumerate(polys):
                if co is None:
                    continue
                want = sum(cj * t ** j for j, cj in enumerate(co))
                cs = sum(abs(cj) for cj in co) * max(1.0, float(np.max(np.abs(t)))) ** len(co)
                if not np.all(np.abs(rc[:, cdx] - want) <= unit * lam * (cs + 1e-300) * 4):
                    V(ctx, "interp:lagrange:polynomial", f"window {w} does not reproduce a polynomial of degree {len(co) - 1} (error {np.max(np.abs(rc[:, cdx] - want)):.3e})", {**case, "coeffs": co})
                    break
    except Exception as e:  # noqa
        V(ctx, f"interp:{kind}:raises:{type(e).__name__}", f"{kind} raised {type(e).__name__}: {str(e)[:120]} on valid input (y tail {tail})", case)


def derivative_model_part(ctx: Ctx, drv):
    """interpolate_with_derivative(kind="lagrange") vs the Lean model `lagrangeDeriv` (values, derivative, and the
    error raised when x_new, x_new + dx or x_new - dx leaves the sample range); oracle: the derivative of data on a
    parabola is exact (theorem derivative_exact_quadratic, stated here on the real code)"""
    from midgard.math import interpolation as ip

    rng = ctx.rng
    for ci in range(ctx.budget(60, 1200)):
        with guard(ctx, "derivative"):
            n = rng.randint(4, 24)
            w = rng.randint(3, min(9, n))
            x, flavour = gen_abscissae(rng, n)
            tail = rng.choice([(), (), (2,), (2, 2)])
            dim = int(np.prod(tail)) if tail else 1
            quad = rng.random() < 0.4
            span = float(x[-1] - x[0])
            if quad:      # a + b t + c t^2 in t = (x - x0) / span, per component
                co = [[rng.uniform(-3, 3) for _ in range(3)] for _ in range(dim)]
                t = (x - x[0]) / span
                y = np.stack([c0 + c1 * t + c2 * t * t for c0, c1, c2 in co], axis=1).reshape((n,) + tuple(tail))
            else:
                y, _ = gen_y(rng, x, tail, w)
            gap = float(np.min(np.diff(x)))
            dx = gap * rng.choice([0.5, 0.25, 1.0, 2.0]) * rng.choice([1, 1, 1, -1])
            k = rng.randint(1, 5)
            xn = np.array([rng.uniform(x[0] + abs(dx), x[-1] - abs(dx)) for _ in range(k)])
            mode = "ok"
            be = True
            c = rng.random()
            if c < 0.12:       # x_new + dx or x_new - dx leaves the range (x_new itself stays inside)
                xn = xn.copy(); xn[rng.randrange(k)] = rng.choice([x[0] + abs(dx) * rng.random() * 0.9, x[-1] - abs(dx) * rng.random() * 0.9])
                be = rng.random() < 0.7
                mode = "shifted-outside" if be else "shifted-extrapolates"
            elif c < 0.18:
                xn = xn.copy(); xn[rng.randrange(k)] = rng.choice([x[0] - span * 0.1, x[-1] + span * 0.1]); mode = "outside"
            srt = rng.random() < 0.4
            perm = np.arange(n) if srt else np.array(rng.sample(range(n), n))
            xi, yi = x[perm], y[perm]
            case = {"part": "derivative-lagrange", "kind": "lagrange", "n": n, "w": w, "tail": list(tail), "dx": fl(dx), "mode": mode,
                    "bounds_error": be, "sorted_flag": srt, "x": [fl(v) for v in xi], "xn": [fl(v) for v in xn],
                    "y": [fl(v) for v in np.asarray(yi).ravel()]}
            ctx.case(case)
            ctx.count(f"derivative-model:{mode}")
            ctx.count("derivative-model:parabola" if quad else "derivative-model:other-data")
            try:
                with warnings.catch_warnings():
                    warnings.simplefilter("ignore")
                    yn, yd = ip.interpolate_with_derivative(xi, yi, xn, kind="lagrange", dx=dx, window=w, bounds_error=be, assume_sorted=srt)
                impl = ("ok", np.asarray(yn, dtype=float).reshape(k, dim), np.asarray(yd, dtype=float).reshape(k, dim))
            except ValueError as e:
                impl = ("err", classify_error(e))
            # ---- oracle: bounds_error=True refuses extrapolation, also for the abscissae x_new +- dx of the difference quotient
            lo_, hi_ = float(np.min(xn)) - abs(dx), float(np.max(xn)) + abs(dx)
            if be and impl[0] == "ok" and (lo_ < float(x[0]) - 1e-9 * span or hi_ > float(x[-1]) + 1e-9 * span):
                V(ctx, "interp:derivative:extrapolates-despite-bounds_error", f"interpolate_with_derivative(lagrange, bounds_error=True) evaluates the "
                  f"interpolant on [{lo_!r}, {hi_!r}] outside the sample range [{float(x[0])!r}, {float(x[-1])!r}] without raising", case)
            rows = np.asarray(yi, dtype=float).reshape(n, dim)
            s_ = float(np.std(xi))
            m = drv.ask1(f"c20 lagderiv {w} {int(be)} {int(srt)} {rs(frac(s_))} {dim} {rl(frac(v) for v in xi)} "
                         f"{rrows([frac(v) for v in row] for row in rows)} {rl(frac(v) for v in xn)} {rs(frac(dx))}")
            if m.startswith("err ") or impl[0] == "err":
                if (m[4:] if m.startswith("err ") else "ok") != (impl[1] if impl[0] == "err" else "ok"):
                    ctx.disagree("interpolate_with_derivative(lagrange) error branch", case, m[:60], list(map(str, impl[:2])))
                continue
            mv, md = (prows(t_) for t_ in m[3:].split(" "))
            W = np.asarray(call_interp("lagrange", xi, np.eye(n), np.concatenate([xn, xn + dx, xn - dx]), window=w, bounds_error=False, assume_sorted=srt), dtype=float)
            amp = 1.0 + float(np.max(np.abs(x - x.mean())) / gap)
            cond0 = np.abs(W[:k]) @ np.abs(rows)
            xulp = float(np.spacing(np.max(np.abs(x))))
            cond1 = (np.abs(W[k:2 * k]) + np.abs(W[2 * k:])) @ np.abs(rows)
            for a in range(k):
                for cdx in range(dim):
                    if abs(frac(impl[1][a, cdx]) - mv[a][cdx]) > frac(1e-14 * w * amp * float(cond0[a, cdx]) + 1e-300):
                        ctx.disagree("interpolate_with_derivative(lagrange) value", {**case, "at": [a, cdx]}, float(mv[a][cdx]), float(impl[1][a, cdx]))
                    # x_new +- dx is rounded to a double before the interpolant sees it: |f'| * ulp(x) / |dx| on top
                    if abs(frac(impl[2][a, cdx]) - md[a][cdx]) > frac((1e-14 * w * amp * float(cond1[a, cdx]) + 1e-300) / abs(2 * dx)
                                                                      + 2 * xulp * abs(float(md[a][cdx])) / abs(dx)):
                        ctx.disagree("interpolate_with_derivative(lagrange) derivative", {**case, "at": [a, cdx]}, float(md[a][cdx]), float(impl[2][a, cdx]))
            if quad:
                tn = (xn - x[0]) / span
                for cdx, (c0, c1, c2) in enumerate(co):
                    want = (c1 + 2 * c2 * tn) / span
                    tol = 1e-12 * w * amp * (np.abs(W[k:2 * k]).sum(axis=1) + np.abs(W[2 * k:]).sum(axis=1)) * (abs(c0) + abs(c1) + abs(c2)) / abs(2 * dx) \
                        + 2 * xulp * np.abs(want) / abs(dx)
                    if not np.all(np.abs(impl[2][:, cdx] - want) <= tol):
                        V(ctx, "interp:derivative:parabola:lagrange", f"the derivative of data on a parabola (window {w}, dx = {dx!r}) is off by "
                          f"{float(np.max(np.abs(impl[2][:, cdx] - want))):.3e}", {**case, "coeffs": [c0, c1, c2]})
                        break


def derivative_kinds_part(ctx: Ctx, drv):
    """interpolate_with_derivative for the SciPy-backed kinds vs the model `interpDeriv f` (f = nakSpline / barycentric /
    linear); oracle for the spline kinds: on a cubic c0 + c1 t + c2 t^2 + c3 t^3 the derivative returned is the derivative
    of the cubic plus c3 dx^2 (theorem spline_derivative_of_cubic, stated here on the real code)"""
    from midgard.math import interpolation as ip

    MODEL = {"cubic": "spline", "interpolated_univariate_spline": "spline", "barycentric_interpolator": "barycentric", "linear": "linear"}
    rng = ctx.rng
    for ci in range(ctx.budget(15, 300)):
        for kind, mk in MODEL.items():
            with guard(ctx, "derivative"):
                n = rng.randint(5, 14) if kind != "barycentric_interpolator" else rng.randint(4, 8)
                x, flavour = gen_abscissae(rng, n)
                if kind == "barycentric_interpolator":
                    x, flavour = rng.uniform(-50, 50) + 10 ** rng.uniform(-1, 1) * np.arange(n), "uniform"
                span, gap = float(x[-1] - x[0]), float(np.min(np.diff(x)))
                cub = rng.random() < 0.5
                co = [rng.uniform(-3, 3) for _ in range(4)]
                t = (x - x[0]) / span
                y = sum(cj * t ** j for j, cj in enumerate(co)) if cub else gen_y(rng, x, (), 3)[0]
                dx = gap * rng.choice([0.5, 0.25, 1.0]) * rng.choice([1, 1, -1])
                k = rng.randint(1, 4)
                xn = np.array([rng.uniform(x[0] + abs(dx), x[-1] - abs(dx)) for _ in range(k)])
                mode = "ok"
                if rng.random() < 0.15 and kind not in ("interpolated_univariate_spline", "barycentric_interpolator"):
                    xn = xn.copy(); xn[rng.randrange(k)] = rng.choice([x[0] + abs(dx) * 0.5, x[-1] - abs(dx) * 0.5]); mode = "shifted-outside"
                case = {"part": "derivative", "kind": kind, "n": n, "tail": [], "dx": fl(dx), "mode": mode, "x": [fl(v) for v in x],
                        "xn": [fl(v) for v in xn], "y": [fl(v) for v in y]}
                if cub:
                    case["coeffs"] = co
                ctx.case(case)
                ctx.count(f"derivative-kinds:{kind}:{mode}")
                try:
                    with warnings.catch_warnings():
                        warnings.simplefilter("ignore")
                        yn, yd = ip.interpolate_with_derivative(x, y, xn, kind=kind, dx=dx)
                    impl = ("ok", np.asarray(yn, dtype=float).ravel(), np.asarray(yd, dtype=float).ravel())
                except ValueError as e:
                    impl = ("err", str(e)[:60])
                m = drv.ask1(f"c20 deriv {mk} 1 {rl(frac(v) for v in x)} {rrows([frac(v)] for v in y)} {rl(frac(v) for v in xn)} {rs(frac(dx))}")
                if m.startswith("err ") or impl[0] == "err":
                    if m.startswith("err ") != (impl[0] == "err"):
                        ctx.disagree(f"interpolate_with_derivative({kind}) error branch", case, m[:40], list(map(str, impl[:2])))
                    continue
                mv, md = (prows(t_) for t_ in m[3:].split(" "))
                W = np.asarray(call_interp(kind, x, np.eye(n), np.concatenate([xn, xn + dx, xn - dx])), dtype=float)
                lam0, lam1 = np.abs(W[:k]).sum(axis=1), np.abs(W[k:2 * k]).sum(axis=1) + np.abs(W[2 * k:]).sum(axis=1)
                if kind == "barycentric_interpolator" and (np.any(lam0 > 1e3) or np.any(lam1 > 2e3)):
                    continue
                ymax = float(np.max(np.abs(y))) + 1e-300
                amp = 1.0 + float(np.max(np.abs(x - x.mean())) / gap)
                ratio = float(np.max(np.diff(x)) / gap)
                unit = 1e-13 * n * amp * (ratio ** 2 if mk == "spline" else 1.0) * ymax
                xulp = float(np.spacing(np.max(np.abs(x))))
                for a in range(k):
                    if abs(frac(impl[1][a]) - mv[a][0]) > frac(unit * lam0[a] + 1e-300):
                        ctx.disagree(f"interpolate_with_derivative({kind}) value", {**case, "at": a}, float(mv[a][0]), float(impl[1][a]))
                    if abs(frac(impl[2][a]) - md[a][0]) > frac(unit * lam1[a] / abs(2 * dx) + 2 * xulp * abs(float(md[a][0])) / abs(dx) + 1e-300):
                        ctx.disagree(f"interpolate_with_derivative({kind}) derivative", {**case, "at": a}, float(md[a][0]), float(impl[2][a]))
                if cub and mk == "spline":
                    tn = (xn - x[0]) / span
                    want = (co[1] + 2 * co[2] * tn + 3 * co[3] * tn * tn + co[3] * (dx / span) ** 2) / span
                    tol = 10 * unit / ymax * sum(abs(c_) for c_ in co) * lam1 / abs(2 * dx) + 2 * xulp * np.abs(want) / abs(dx)
                    if not np.all(np.abs(impl[2] - want) <= tol):
                        V(ctx, f"interp:derivative:cubic:{kind}", f"the derivative of data on a cubic (dx = {dx!r}) is off by "
                          f"{float(np.max(np.abs(impl[2] - want))):.3e} from p'(x) + c3 dx^2", case)


def refill_part(ctx: Ctx):
    """call -> refill y (and x) in place -> call again with the same array objects: the second answer is that of the new data
    (compared with a call on fresh copies), for interpolate and interpolate_with_derivative, every interpolator"""
    from midgard.math import interpolation as ip

    rng = ctx.rng
    for ci in range(ctx.budget(12, 240)):
        for kind in KINDS:
            with guard(ctx, "refill"):
                n = rng.randint(6, 14) if kind != "barycentric_interpolator" else rng.randint(5, 8)
                x = rng.uniform(-50, 50) + 10 ** rng.uniform(-1, 1) * np.cumsum([rng.uniform(0.8, 1.2) for _ in range(n)])
                tail = rng.choice([(), (), (2,)])
                y1 = np.array([rng.uniform(-1, 1) for _ in range(n * (2 if tail else 1))]).reshape((n,) + tuple(tail)) * 10 ** rng.uniform(0, 3)
                y2 = np.array([rng.uniform(-1, 1) for _ in range(y1.size)]).reshape(y1.shape) * 10 ** rng.uniform(0, 3)
                move_x = rng.random() < 0.4
                x2 = x + (x[1] - x[0]) * rng.uniform(0.1, 0.4) * (np.arange(n) % 2) if move_x else x.copy()
                dx = float(np.min(np.diff(x2))) * 0.25
                xn = np.array([rng.uniform(max(x[0], x2[0]) + dx, min(x[-1], x2[-1]) - dx) for _ in range(rng.randint(1, 4))])
                kw = {"window": rng.randint(3, 5)} if kind == "lagrange" else {}
                which = rng.choice(["interpolate", "interpolate_with_derivative"])
                case = {"part": "refill", "kind": kind, "which": which, "w": kw.get("window", 0), "tail": list(tail), "x": [fl(v) for v in x],
                        "x2": [fl(v) for v in x2], "y": [fl(v) for v in y1.ravel()], "y2": [fl(v) for v in y2.ravel()], "xn": [fl(v) for v in xn], "dx": fl(dx)}
                ctx.case(case)
                ctx.count(f"refill:{kind}:{which}" + (":x-too" if move_x else ""))
                check_refill(ctx, case)


def check_refill(ctx: Ctx, case):
    from midgard.math import interpolation as ip

    kind, tail = case["kind"], tuple(case["tail"])
    x = np.array([_hx(v) for v in case["x"]]); x2 = np.array([_hx(v) for v in case["x2"]])
    n = len(x)
    y1 = np.array([_hx(v) for v in case["y"]]).reshape((n,) + tail); y2 = np.array([_hx(v) for v in case["y2"]]).reshape((n,) + tail)
    xn, dx = np.array([_hx(v) for v in case["xn"]]), _hx(case["dx"])
    kw = {"window": case["w"]} if kind == "lagrange" else {}

    def call(xx, yy):
        with warnings.catch_warnings():
            warnings.simplefilter("ignore")
            if case["which"] == "interpolate":
                return [np.asarray(ip.interpolate(xx, yy, xn, kind=kind, **kw), dtype=float)]
            return [np.asarray(u, dtype=float) for u in ip.interpolate_with_derivative(xx, yy, xn, kind=kind, dx=dx, **kw)]
    try:
        xa, ya = x.copy(), y1.copy()
        call(xa, ya)
        ya[...] = y2            # refill in place: the same array objects are handed in again
        xa[...] = x2
        second = call(xa, ya)
        fresh = call(x2.copy(), y2.copy())
    except Exception as e:  # noqa
        V(ctx, f"refill:{kind}:raises:{type(e).__name__}", f"{case['which']}({kind}) raised {type(e).__name__}: {str(e)[:100]}", case)
        return
    scale = float(np.max(np.abs(y2))) + 1e-300
    tol = 1e-9 * scale * (1 if kind != "barycentric_interpolator" else 1e3)     # barycentric permutes its nodes randomly
    if any(a.shape != b.shape or not np.all(np.abs(a - b) <= tol / (1 if i == 0 else dx)) for i, (a, b) in enumerate(zip(second, fresh))):
        V(ctx, f"refill:{kind}", f"{case['which']}(kind={kind!r}) called again with the same x / y array objects after they were refilled in place "
          f"returns {second[0].ravel()[:3].tolist()}; fresh copies of the new data give {fresh[0].ravel()[:3].tolist()}", case)


def derivative_part(ctx: Ctx):
    """interpolate_with_derivative: same values as interpolate, derivative = central difference of the interpolant
    over x_new +- dx (the documented definition), hence exact slope for data on a line; every interpolator"""
    from midgard.math import interpolation as ip

    rng = ctx.rng
    for ci in range(ctx.budget(10, 200)):
        for kind in KINDS:
            with guard(ctx, "derivative"):
                n = rng.randint(6, 30)
                x, flavour = gen_abscissae(rng, n)
                if kind == "barycentric_interpolator":   # full-degree polynomial: keep the node set well conditioned
                    n = rng.randint(6, 9)
                    x, flavour = rng.uniform(-50, 50) + 10 ** rng.uniform(-1, 1) * np.arange(n), "uniform"
                tail = rng.choice([(), (2,)])
                y, _ = gen_y(rng, x, tail, 3)
                dx = float(np.min(np.diff(x))) * rng.choice([0.5, 0.25, 1.0])
                xn = np.array([rng.uniform(x[0] + dx, x[-1] - dx) for _ in range(rng.randint(1, 5))])
                kw = {"window": rng.randint(3, min(8, n))} if kind == "lagrange" else {}
                case = {"part": "derivative", "kind": kind, "n": n, "tail": list(tail), "dx": fl(dx), "x": [fl(v) for v in x],
                        "xn": [fl(v) for v in xn], "y": [fl(v) for v in np.asarray(y).ravel()]}
                ctx.case(case)
                ctx.count("derivative:" + kind)
                try:
                    with warnings.catch_warnings():
                        warnings.simplefilter("ignore")
                        yn, yd = ip.interpolate_with_derivative(x, y, xn, kind=kind, dx=dx, **kw)
                        ref = ip.interpolate(x, y, xn, kind=kind, **kw)
                        hi = ip.interpolate(x, y, xn + dx, kind=kind, **kw)
                        lo = ip.interpolate(x, y, xn - dx, kind=kind, **kw)
                        a, b = rng.uniform(-3, 3), rng.uniform(-3, 3)
                        line = (a + b * (x - x[0])).reshape((n,) + (1,) * len(tail)) * np.ones((n,) + tuple(tail))
                        _, ld = ip.interpolate_with_derivative(x, line, xn, kind=kind, dx=dx, **kw)
                except Exception as e:  # noqa
                    V(ctx, f"interp:derivative:raises:{type(e).__name__}", f"interpolate_with_derivative(kind={kind!r}) raised {type(e).__name__}: {str(e)[:100]}", case)
                    continue
                scale = float(np.max(np.abs(y))) + 1e-300
                amp = 1.0 + float(np.max(np.abs(x)) / np.min(np.diff(x)))
                if not np.all(np.abs(np.asarray(yn) - ref) <= 1e-12 * scale):
                    V(ctx, f"interp:derivative:values:{kind}", "interpolate_with_derivative returns other values than interpolate", case)
                if not np.all(np.abs(np.asarray(yd) - (hi - lo) / (2 * dx)) <= 1e-9 * amp * scale / dx):
                    V(ctx, f"interp:derivative:definition:{kind}", "derivative is not the central difference of the interpolant over x_new +- dx", case)
                if not np.all(np.abs(np.asarray(ld) - b) <= 1e-9 * amp * (abs(a) + abs(b) * float(x[-1] - x[0]) + 1) / dx):
                    V(ctx, f"interp:derivative:line:{kind}", f"derivative of data on a line with slope {b!r} is {np.asarray(ld).ravel()[:3]}", case)


def scipy_part(ctx: Ctx, drv):
    """linear: correspondence with the Lean model; all four: oracle; barycentric vs Lean lagrange with w = n"""
    rng = ctx.rng
    ncases = ctx.budget(60, 900)
    for ci in range(ncases):
        for kind in KINDS[1:]:
            with guard(ctx, "scipy"):
                n = rng.randint(4, 60) if kind != "barycentric_interpolator" else rng.randint(3, 14)
                x, flavour = gen_abscissae(rng, n)
                tail = rng.choice([(), (), (2,), (3,), (2, 2)])
                y, _ = gen_y(rng, x, tail, 3)
                k = rng.randint(1, 6)
                xn = gen_xnew(rng, x, flavour, k)
                if kind == "linear" and rng.random() < 0.3:
                    x, y, _, xn = gen_integer_samples(rng, n, 3, tail, k)
                    flavour = "integer"
                case = {"part": kind, "n": n, "tail": list(tail), "k": k, "flavour": flavour,
                        "x": [fl(v) for v in x], "xn": [fl(v) for v in xn], "y": [fl(v) for v in np.asarray(y).ravel()]}
                if kind == "linear":
                    case["dtypes"] = {"x": T.pick_dtype(rng, x, T.INT_DT), "y": T.pick_dtype(rng, y, CORR_DT), "xn": T.pick_dtype(rng, xn, T.INT_DT)}
                    for a_ in ("x", "y", "xn"):
                        ctx.count(f"linear:dtype:{a_}={T.dtclass(case['dtypes'][a_])}")
                ctx.case(case)
                ctx.count(f"{kind}:ydim={1 + len(tail)}")
                interp_oracle(ctx, kind, case, x, y, xn, None, tail, 4, {})
                dim = int(np.prod(tail)) if tail else 1
                rows = np.asarray(y, dtype=float).reshape(n, dim)
                if kind == "linear":
                    perm = np.array(rng.sample(range(n), n))
                    line = (f"c20 linear {dim} {rl(frac(v) for v in x[perm])} "
                            f"{rrows([frac(v) for v in row] for row in rows[perm])} {rl(frac(v) for v in xn)}")
                    m = drv.ask1(line)
                    try:
                        r = np.asarray(call_interp(kind, *T.apply_dtypes(case["dtypes"], x[perm], y[perm], xn)))
                        if r.dtype.kind != "f":
                            V(ctx, "linear:result-dtype", f"linear returns an array of dtype {r.dtype} for dtypes {case['dtypes']}", case)
                        r = np.asarray(r, dtype=float).reshape(len(xn), dim)
                    except Exception as e:  # noqa
                        ctx.disagree("linear raised", case, m[:60], str(e)[:80])
                        continue
                    if not m.startswith("ok "):
                        ctx.disagree("linear error branch", case, m, "value")
                        continue
                    mv = prows(m[3:])
                    ymax = float(np.max(np.abs(y))) + 1e-300
                    amp = 1.0 + float(np.max(np.abs(x)) / np.min(np.diff(x)))
                    for a in range(len(xn)):
                        for cdx in range(dim):
                            if abs(frac(r[a, cdx]) - mv[a][cdx]) > frac(1e-14 * amp * ymax):
                                ctx.disagree("linear value", {**case, "at": [a, cdx]}, float(mv[a][cdx]), float(r[a, cdx]))
                if kind in ("cubic", "interpolated_univariate_spline") and n > 32:
                    ctx.count("spline-vs-model:skipped(n>32: exact elimination is slow)")
                elif kind in ("cubic", "interpolated_univariate_spline"):
                    # the specification `nakSpline` (not-a-knot cubic spline; samples in any order for `cubic`)
                    perm = np.array(rng.sample(range(n), n)) if kind == "cubic" else np.arange(n)
                    m = drv.ask1(f"c20 nakspline {dim} {rl(frac(v) for v in x[perm])} "
                                 f"{rrows([frac(v) for v in row] for row in rows[perm])} {rl(frac(v) for v in xn)}")
                    if not m.startswith("ok "):
                        ctx.disagree(f"{kind} error branch", case, m, "value")
                    else:
                        mv = prows(m[3:])
                        r = np.asarray(call_interp(kind, x[perm], y[perm], xn), dtype=float).reshape(len(xn), dim)
                        W = np.asarray(call_interp(kind, x[perm], np.eye(n), xn), dtype=float)
                        cond = np.abs(W) @ np.abs(rows[perm])
                        amp = 1.0 + float(np.max(np.abs(x - x.mean())) / np.min(np.diff(x)))
                        ratio = float(np.max(np.diff(x)) / np.min(np.diff(x)))
                        for a in range(len(xn)):
                            for cdx in range(dim):
                                if abs(frac(r[a, cdx]) - mv[a][cdx]) > frac(1e-13 * amp * ratio ** 2 * float(cond[a, cdx]) + 1e-300):
                                    ctx.disagree(f"{kind} vs the not-a-knot cubic spline (model)", {**case, "at": [a, cdx]},
                                                 float(mv[a][cdx]), float(r[a, cdx]))
                        ctx.count(f"spline-vs-model:{kind}")
                if kind == "barycentric_interpolator":
                    # the specification `barycentric` (the interpolating polynomial through all samples, in any order)
                    perm = np.array(rng.sample(range(n), n))
                    line = (f"c20 barycentric {dim} {rl(frac(v) for v in x[perm])} "
                            f"{rrows([frac(v) for v in row] for row in rows[perm])} {rl(frac(v) for v in xn)}")
                    m = drv.ask1(line)
                    if not m.startswith("ok "):
                        ctx.disagree("barycentric_interpolator error branch", case, m, "value")
                    else:
                        mv = prows(m[3:])
                        r = np.asarray(call_interp(kind, x[perm], y[perm], xn), dtype=float).reshape(len(xn), dim)
                        W = np.asarray(call_interp(kind, x[perm], np.eye(n), xn), dtype=float)
                        lam = np.abs(W).sum(axis=1)
                        cond = np.abs(W) @ np.abs(rows[perm])
                        amp = 1.0 + float(np.max(np.abs(x - x.mean())) / np.min(np.diff(x)))
                        for a in range(len(xn)):
                            if lam[a] > 1e3:      # as in the oracle: SciPy's weights lose more than Lambda*eps there
                                ctx.count("barycentric-vs-model:ill-conditioned-abscissa-skipped")
                                continue
                            for cdx in range(dim):
                                if abs(frac(r[a, cdx]) - mv[a][cdx]) > frac(1e-13 * n * amp * float(cond[a, cdx]) + 1e-300):
                                    ctx.disagree("barycentric_interpolator vs the interpolating polynomial (model)", {**case, "at": [a, cdx]},
                                                 float(mv[a][cdx]), float(r[a, cdx]))
                        ctx.count("barycentric-vs-model")
                        ctx.count(f"barycentric-vs-model:n={'3-6' if n <= 6 else '7-10' if n <= 10 else '11-14'}")


# =============================================================================================
# nputil: norm, unit_vector, take, col, row


def nputil_part(ctx: Ctx, drv):
    """norm / unit_vector / take / col / row for 1- and 2-dimensional input of every numeric dtype (take/col/row also
    lists): correspondence with normSq / unitVector / takeLast, oracle |u| = 1, |v| u = v, 1-d = row of 2-d, shapes"""
    from midgard.math import nputil

    rng = ctx.rng
    for ci in range(ctx.budget(150, 3000)):
        with guard(ctx, "nputil"):
            d = rng.choice([1, 2, 3, 3, 3, 4, 6])
            nrow = rng.randint(1, 6)
            c = rng.random()
            if c < 0.4:
                rows = np.array([[float(rng.randint(-1000, 1000)) for _ in range(d)] for _ in range(nrow)])
            elif c < 0.7:
                rows = np.array([[rng.uniform(-1, 1) * 10 ** rng.uniform(-6, 8) for _ in range(d)] for _ in range(nrow)])
            else:     # one dominant component, or a component that is exactly zero
                rows = np.array([[rng.uniform(-1, 1) * 10 ** rng.choice([-8, 0, 7]) for _ in range(d)] for _ in range(nrow)])
                rows[rng.randrange(nrow), rng.randrange(d)] = 0.0
            for r_ in rows:
                if not np.any(r_):
                    r_[0] = 1.0
            dt = T.pick_dtype(rng, rows, T.INT_DT + ["float32", "float64"], keep64=0.3)
            one_d = rng.random() < 0.4
            data = rows[0] if one_d else rows
            typed = T.cast(data, dt)
            case = {"part": "nputil", "dtype": dt, "one_d": one_d, "d": d, "rows": [[fl(v) for v in r_] for r_ in np.atleast_2d(data)]}
            ctx.case(case)
            ctx.count(f"nputil:{'1-d' if one_d else '2-d'}:{T.dtclass(dt)}")
            low = T.eps_of(dt)
            tol = 8 * max(low, EPS) * math.sqrt(d)
            try:
                nv = np.asarray(nputil.norm(typed))
                uv = np.asarray(nputil.unit_vector(typed))
                i = rng.randrange(d)
                as_list = rng.random() < 0.3
                tk = np.asarray(nputil.take(typed.tolist() if as_list else typed, i))
                tkneg = np.asarray(nputil.take(typed, i - d))
                co, ro = np.asarray(nputil.col(typed.tolist() if as_list else typed)), np.asarray(nputil.row(typed))
            except Exception as e:  # noqa
                V(ctx, f"nputil:raises:{type(e).__name__}", f"nputil on a {data.shape} {dt} array raised {type(e).__name__}: {str(e)[:100]}", case)
                continue
            R = np.atleast_2d(data)
            nv2, uv2 = np.atleast_1d(nv).astype(float), np.atleast_2d(uv).astype(float)
            # ---- oracle (exact arithmetic on the values handed in)
            bad = None
            if nv.shape != data.shape[:-1] or uv.shape != data.shape or nv.dtype.kind != "f" or uv.dtype.kind != "f":
                bad = f"shapes/dtypes: norm {nv.shape} {nv.dtype}, unit_vector {uv.shape} {uv.dtype} for input {data.shape}"
            else:
                for k_, r_ in enumerate(R):
                    n2 = sum(frac(v) ** 2 for v in r_)
                    if abs(frac(nv2[k_]) ** 2 - n2) > frac(2 * tol) * n2:
                        bad = f"norm(row {k_})^2 = {nv2[k_] ** 2!r} but the squares sum to {float(n2)!r}"
                    u2 = sum(frac(v) ** 2 for v in uv2[k_])
                    if abs(u2 - 1) > frac(2 * tol):
                        bad = f"|unit_vector(row {k_})|^2 = {float(u2)!r}"
                    if not np.all(np.abs(uv2[k_] * nv2[k_] - r_) <= tol * nv2[k_]):
                        bad = f"norm * unit_vector differs from row {k_} by {float(np.max(np.abs(uv2[k_] * nv2[k_] - r_))):.3e}"
            if bad:
                V(ctx, f"nputil:norm/unit_vector:{'1-d' if one_d else '2-d'}", f"{bad} (dtype {dt})", case)
            want_take = data[..., i]
            if tk.shape != want_take.shape or not np.array_equal(tk.astype(float), want_take) or not np.array_equal(tkneg.astype(float), want_take) \
                    or (not as_list and tk.dtype != typed.dtype):
                V(ctx, "nputil:take", f"take(v, {i}) / take(v, {i - d}) of a {data.shape} {dt} {'list' if as_list else 'array'} = {tk.tolist()} / {tkneg.tolist()}, "
                  f"component {i} along the last axis is {want_take.tolist()}", {**case, "i": i})
            if co.shape != data.shape + (1,) or ro.shape != data.shape[:-1] + (1, d) or not np.array_equal(co[..., 0].astype(float), data) \
                    or not np.array_equal(ro[..., 0, :].astype(float), data):
                V(ctx, "nputil:col/row", f"col/row of a {data.shape} array have shapes {co.shape}/{ro.shape} or other content", case)
            # ---- correspondence
            rr = rrows([frac(v) for v in r_] for r_ in R)
            m1 = prl(drv.ask1(f"c20 normsq {rr}"))
            m2 = prows(drv.ask1(f"c20 unitvec {rl(frac(v) for v in nv2)} {rr}"))
            m3 = prl(drv.ask1(f"c20 take {i} {rr}"))
            for k_ in range(len(R)):
                if abs(frac(nv2[k_]) ** 2 - m1[k_]) > frac(2 * tol) * m1[k_]:
                    ctx.disagree("nputil.norm", case, float(m1[k_]), float(nv2[k_]) ** 2)
                for j_ in range(d):
                    if abs(frac(uv2[k_][j_]) - m2[k_][j_]) > frac(tol):
                        ctx.disagree("nputil.unit_vector", {**case, "at": [k_, j_]}, float(m2[k_][j_]), float(uv2[k_][j_]))
            if [frac(v) for v in np.atleast_1d(tk).astype(float)] != m3:
                ctx.disagree("nputil.take", {**case, "i": i}, [float(v) for v in m3], tk.tolist())


# =============================================================================================
# DOP


def gen_weak_geometry(rng):
    """regular but weak designs of graded conditioning: satellites inside a patch of sky of 1..60 degrees width at every
    elevation, clusters around the zenith, satellites near one elevation (on a cone -sin(el) = const the design is singular)"""
    n = rng.choice([4, 4, 5, 6, 8, 12])
    width = math.radians(10 ** rng.uniform(0, math.log10(60)))
    c = rng.random()
    if c < 0.5:
        e0 = math.radians(rng.uniform(5, 85))
        a0 = rng.uniform(0, 2 * math.pi)
        el = [min(max(e0 + width * rng.uniform(-0.5, 0.5), math.radians(1)), math.pi / 2) for _ in range(n)]
        az = [a0 + width * rng.uniform(-0.5, 0.5) / max(math.cos(e0), 0.05) for _ in range(n)]
        fl_ = "patch"
    elif c < 0.75:
        el = [math.pi / 2 - width * math.sqrt(rng.random()) / 2 for _ in range(n)]
        az = [rng.uniform(0, 2 * math.pi) for _ in range(n)]
        fl_ = "zenith-cluster"
    else:
        e0 = math.radians(rng.uniform(5, 80))
        dev = math.radians(10 ** rng.uniform(-1.5, 1))
        el = [min(max(e0 + dev * rng.uniform(-1, 1), math.radians(1)), math.pi / 2) for _ in range(n)]
        az = [rng.uniform(0, 2 * math.pi) for _ in range(n)]
        fl_ = "near-one-elevation"
    return np.array(az), np.array(el), "weak:" + fl_


def gen_geometry(rng):
    if rng.random() < 0.3:
        return gen_weak_geometry(rng)
    n = rng.randint(4, 40) if rng.random() < 0.7 else rng.randint(4, 7)
    c = rng.random()
    if c < 0.6:
        az = [rng.uniform(0, 2 * math.pi) for _ in range(n)]
        el = [math.radians(rng.uniform(5, 90)) for _ in range(n)]
        fl_ = "random"
    elif c < 0.8:     # low satellites in one half of the sky: poor geometry
        az = [rng.uniform(0, math.pi) for _ in range(n)]
        el = [math.radians(rng.uniform(5, 35)) for _ in range(n)]
        fl_ = "poor"
    else:             # symmetric ring plus zenith
        az = [2 * math.pi * i / (n - 1) for i in range(n - 1)] + [0.0]
        el = [math.radians(rng.choice([15.0, 30.0, 45.0]))] * (n - 1) + [math.pi / 2]
        fl_ = "ring"
    az = np.array(az)
    # an azimuth is an angle: both usual conventions, and unwrapped values, are legitimate inputs
    conv = rng.choice(["[0,2pi)", "[0,2pi)", "[-pi,pi)", "unwrapped"])
    if conv == "[-pi,pi)":
        az = (az + math.pi) % (2 * math.pi) - math.pi
    elif conv == "unwrapped":
        az = az + 2 * math.pi * np.array([rng.choice([-1, 0, 0, 1, 2]) for _ in range(n)])
    return az, np.array(el), fl_ + "/" + conv


DOP_NAMES = ["gdop", "pdop", "tdop", "hdop", "vdop"]


def run_dops(az, el):
    """compute_dops as a total function of its outcome:
    ("ok", [5 finite positive floats]) | ("none", None) | ("raises", text) | ("invalid", text)"""
    from midgard.gnss.compute_dops import compute_dops

    try:
        with warnings.catch_warnings():
            warnings.simplefilter("ignore")
            d = compute_dops(az, el)
    except Exception as e:  # noqa
        return "raises", f"{type(e).__name__}: {str(e)[:120]}"
    try:
        d = tuple(d)
    except Exception:  # noqa
        return "invalid", f"returned {d!r:.120}"
    if len(d) != 5:
        return "invalid", f"returned {len(d)} values: {d!r:.120}"
    if all(u is None for u in d):
        return "none", None
    try:
        vals = [float(np.asarray(u, dtype=float).reshape(())) for u in d]
    except Exception:  # noqa
        return "invalid", f"returned {d!r:.160}"
    if not all(math.isfinite(u) and u > 0 for u in vals):
        return "invalid", f"returned {vals}"
    return "ok", vals


def azimuth_rotations(rng, az):
    """the same sky turned by one angle, written in every way a caller may write it"""
    th = rng.uniform(0.05, 2 * math.pi - 0.05)
    two_pi = 2 * math.pi
    return th, [
        ("az+theta (not re-wrapped)", az + th),
        ("az-theta (not re-wrapped)", az - th),
        ("az+theta wrapped to [-pi,pi)", (az + th + math.pi) % two_pi - math.pi),
        ("az-theta wrapped to [-pi,pi)", (az - th + math.pi) % two_pi - math.pi),
        ("az+theta wrapped to [0,2pi)", (az + th) % two_pi),
        ("az-theta wrapped to [0,2pi)", (az - th) % two_pi),
        ("az+2pi (whole turn)", az + two_pi),
        ("az-2pi (whole turn)", az - two_pi),
    ]


def exact_det_normal(az, el):
    """det(HtH) of the design built from the doubles cos/sin the code obtains, in exact rational arithmetic (rank 4 iff != 0)"""
    H = [[-frac(np.cos(e)) * frac(np.cos(a)), -frac(np.cos(e)) * frac(np.sin(a)), -frac(np.sin(e)), Fraction(1)] for a, e in zip(az, el)]
    Q = [[sum(r[i] * r[j] for r in H) for j in range(4)] for i in range(4)]

    def det(m):
        if len(m) == 1:
            return m[0][0]
        return sum((-1) ** j * m[0][j] * det([row[:j] + row[j + 1:] for row in m[1:]]) for j in range(len(m)) if m[0][j] != 0)
    return det(Q)


def dops_part(ctx: Ctx, drv, info):
    rng = ctx.rng
    ncases = ctx.budget(400, 10000)
    names = DOP_NAMES
    # the guard of compute_dops as the source writes it (translator) is the one the driver was built with
    gtext, glimit = info["dop_guard"]
    want = gtext.replace(" ", "_") + " " + ("none" if glimit is None else rs(glimit))
    got = drv.ask1("c20 dopguard")
    if got != want:
        ctx.disagree("driver was not built from the regenerated singularity guard of compute_dops", {"guard": gtext}, got, want)
    ctx.extra["dop_guard"] = {"source": gtext, "cond_limit": None if glimit is None else float(glimit)}
    # below this condition number of HtH a returned None is judged (the limit of the source when it has one)
    cond_judged = 1e12 if glimit is None else min(1e12, float(glimit))
    for ci in range(ncases):
        with guard(ctx, "dops"):
            az, el, flv = gen_geometry(rng)
            n = len(az)
            case = {"part": "dops", "n": n, "flavour": flv, "az": [fl(v) for v in az], "el": [fl(v) for v in el]}
            ctx.case(case)
            ctx.count(f"dops:{flv}")
            ctx.count("dops:n<=6" if n <= 6 else "dops:n<=20" if n <= 20 else "dops:n<=40")
            H = np.stack((-np.cos(el) * np.cos(az), -np.cos(el) * np.sin(az), -np.sin(el), np.ones(n)), axis=1)
            cond = float(np.linalg.cond(H.T @ H))
            ctx.count("dops:cond(HtH)<1e%d" % next((k for k in (2, 4, 6, 8, 10, 12) if cond < 10 ** k), 99))
            sats = [[frac(np.cos(e)), frac(np.sin(e)), frac(np.cos(a)), frac(np.sin(a))] for a, e in zip(az, el)]
            m = drv.ask1(f"c20 dops {rs(frac(cond) if math.isfinite(cond) else Fraction(10) ** 40)} " + rrows(sats))
            st, d = run_dops(az, el)
            # ---- oracle: a design of rank 4 whose condition number is below the limit of the code is not refused
            if st == "none" and cond < cond_judged and exact_det_normal(az, el) != 0:
                V(ctx, "dops:none-for-regular-geometry", f"compute_dops returned None x 5 for {n} satellites ({flv}) although the design has "
                  f"rank 4: cond(HtH) = {cond:.3g}, cond(H) = {math.sqrt(cond):.3g}, det(HtH) = {float(exact_det_normal(az, el)):.3g}", case)
            well = cond < 1e10 and m != "singular"
            if st in ("raises", "invalid"):
                if well:
                    V(ctx, f"dops:{st}", f"compute_dops {d} for {n} satellites with cond(HtH) = {cond:.3g}", case)
                    ctx.disagree("compute_dops value", case, m[:80], [st, d])
                else:
                    ctx.count("dops:ill-conditioned(" + st + ")")
                continue
            if st == "none" or m == "singular":
                ctx.count("dops:singular")
                if cond < cond_judged and (st == "none") != (m == "singular"):
                    ctx.disagree("compute_dops singularity", case, m[:80], [st, d])
                continue
            if not well:
                ctx.count("dops:ill-conditioned(skipped)")
                continue
            mv = [Fraction(t) for t in m.split()[1:]]
            rel = 64 * EPS * cond + 1e-13
            for nm, dv, q in zip(names, d, mv):
                if abs(frac(dv) ** 2 - q) > frac(rel) * q:
                    ctx.disagree(f"compute_dops {nm}", case, float(q), dv ** 2)
            # ---- oracle
            g, p, t, h, v = d
            if abs(g * g - (p * p + t * t)) > 1e-12 * g * g:
                V(ctx, "dops:gdop2=pdop2+tdop2", f"GDOP^2 - PDOP^2 - TDOP^2 = {g * g - p * p - t * t:.3e}", case)
            if abs(p * p - (h * h + v * v)) > 1e-12 * p * p:
                V(ctx, "dops:pdop2=hdop2+vdop2", f"PDOP^2 - HDOP^2 - VDOP^2 = {p * p - h * h - v * v:.3e}", case)
            tol = 256 * EPS * cond + 1e-12
            th, variants = azimuth_rotations(rng, az)
            for vname, az2 in variants:
                st2, d2 = run_dops(az2, el)
                ctx.count("dops:rotation-variants")
                if st2 != "ok":
                    V(ctx, f"dops:azimuth-rotation:{vname}", f"after {vname}, theta = {th!r}: compute_dops {st2} {d2 if d2 else ''} "
                      f"(before: {d})", {**case, "theta": fl(th), "variant": vname})
                    continue
                worst = max(abs(u1 - u0) / u0 for u0, u1 in zip(d, d2))
                if worst > tol:
                    V(ctx, f"dops:azimuth-rotation:{vname}", f"DOPs change from {d} to {d2} after {vname}, theta = {th!r}",
                      {**case, "theta": fl(th), "variant": vname})
            perm = np.array(rng.sample(range(n), n))
            st3, d3 = run_dops(az[perm], el[perm])
            if st3 != "ok" or max(abs(u1 - u0) / u0 for u0, u1 in zip(d, d3)) > tol:
                V(ctx, "dops:permutation", f"DOPs change from {d} to {st3} {d3} when the satellites are reordered", {**case, "perm": perm.tolist()})


# =============================================================================================
# plate motion


def check_plate_array(ctx: Ctx, case):
    from midgard.math.plate_motion import PlateMotion

    pm = PlateMotion(plate=case["plate"], model=case["model"])
    P = np.array([[_hx(u) for u in r_] for r_ in case["pos"]])
    try:
        va = np.asarray(pm.get_velocity(P.copy()), dtype=float)
        vs = np.array([np.asarray(pm.get_velocity(r_.copy()), dtype=float) for r_ in P])
    except Exception as e:  # noqa
        V(ctx, f"plate:array:raises:{type(e).__name__}", f"get_velocity on an array of {len(P)} positions raised {e}", case)
        return
    scale = float(np.max(np.abs(vs))) + 1e-300
    if va.shape != P.shape or not np.all(np.abs(va - vs) <= 1e-12 * scale):
        V(ctx, "plate:array-vs-single", f"get_velocity on an array of {len(P)} positions (one per row) returns shape {va.shape}; row 0 = "
          f"{va.reshape(-1)[:3].tolist()}, the position alone gives {vs[0].tolist()}", case)
        return
    dots = np.abs(np.sum(va * P, axis=1))
    if not np.all(dots <= 1e-12 * np.linalg.norm(va, axis=1) * np.linalg.norm(P, axis=1) + 1e-300):
        V(ctx, "plate:array:v.r=0", f"a velocity of an array of {len(P)} positions is not perpendicular to its position (v.r = {dots.tolist()})", case)


def plate_part(ctx: Ctx, drv, info):
    from midgard.collections import plate_motion_models as pmm
    from midgard.math.plate_motion import PlateMotion

    rng = ctx.rng
    reps = ctx.budget(6, 100)
    R = 6371e3
    for (mname, plate, w, c, k) in info["poles"]:
        with guard(ctx, "plate"):
            try:
                pm = PlateMotion(plate=plate, model=mname)
            except Exception as e:  # noqa
                V(ctx, f"plate:init:{mname}/{plate}", f"PlateMotion({plate!r}, {mname!r}) raised {e}", {"model": mname, "plate": plate})
                continue
            pole = np.array([pm.pole.wx, pm.pole.wy, pm.pole.wz], dtype=float)
            for r in range(reps):
                with guard(ctx, "plate"):
                    cch = rng.random()
                    if cch < 0.6:
                        lat, lon = math.asin(rng.uniform(-1, 1)), rng.uniform(-math.pi, math.pi)
                        rad = R + rng.uniform(-500, 9000)
                        pos = [rad * math.cos(lat) * math.cos(lon), rad * math.cos(lat) * math.sin(lon), rad * math.sin(lat)]
                    elif cch < 0.8:
                        pos = [rng.uniform(-1, 1) * 10 ** rng.uniform(0, 8) for _ in range(3)]
                    elif cch < 0.9:
                        pos = [0.0, 0.0, rng.choice([-R, R])]
                    else:
                        pos = [float(rng.randint(-7000000, 7000000)) for _ in range(3)]
                    as_list = rng.random() < 0.3
                    case = {"part": "plate", "model": mname, "plate": plate, "pos": [fl(v) for v in pos], "list": as_list}
                    ctx.case(case)
                    ctx.count(f"plate:{mname}")
                    try:
                        v = np.asarray(pm.get_velocity(pos if as_list else np.array(pos)), dtype=float)
                    except Exception as e:  # noqa
                        V(ctx, f"plate:raises:{type(e).__name__}", f"get_velocity raised {e}", case)
                        continue
                    m = drv.ask1(f"c20 plate {mname} {plate} {rs(PI)} {rl(frac(u) for u in pos).replace(',', ' ')}")
                    if not m.startswith("ok "):
                        ctx.disagree("plate table lookup", case, m, v.tolist())
                        continue
                    mv = [Fraction(t) for t in m.split()[1:]]
                    nr = math.sqrt(sum(u * u for u in pos))
                    nw = float(np.linalg.norm(pole))
                    for i in range(3):
                        if abs(frac(v[i]) - mv[i]) > frac(1e-14 * nr * nw + 1e-300):
                            ctx.disagree("get_velocity", {**case, "i": i}, float(mv[i]), float(v[i]))
                    # ---- oracle: perpendicular to the position and to the pole
                    nv = float(np.linalg.norm(v))
                    if abs(float(np.dot(v, pos))) > 1e-12 * nv * nr + 1e-300:
                        V(ctx, "plate:v.r=0", f"v.r = {float(np.dot(v, pos))!r} for |v||r| = {nv * nr!r}", case)
                    # ... and it is the right-handed rotation velocity: |v|^2 = |w|^2|r|^2 - (w.r)^2, (w x r).v = |v|^2
                    lag = nw * nw * nr * nr - float(np.dot(pole, pos)) ** 2
                    if abs(nv * nv - lag) > 1e-9 * (nw * nr) ** 2 + 1e-300:
                        V(ctx, "plate:speed", f"|v|^2 = {nv * nv!r} but |w|^2|r|^2 - (w.r)^2 = {lag!r}", case)
                    if float(np.dot(np.cross(pole, np.array(pos, dtype=float)), v)) < -1e-12 * (nw * nr) ** 2:
                        V(ctx, "plate:orientation", "v points against w x r (left-handed rotation about the pole)", case)
                    if abs(float(np.dot(v, pole))) > 1e-12 * nv * nw + 1e-300:
                        V(ctx, "plate:v.w=0", f"v.w = {float(np.dot(v, pole))!r} for |v||w| = {nv * nw!r}", case)
            # arrays of 1..7 positions (one per row): every row is the velocity of that position alone, perpendicular to it
            with guard(ctx, "plate"):
                npos = rng.choice([1, 2, 3, 3, 3, 4, 5, 7])
                P = np.array([[rng.uniform(-7e6, 7e6) for _ in range(3)] for _ in range(npos)])
                case = {"part": "plate-array", "model": mname, "plate": plate, "n": npos, "pos": [[fl(u) for u in r_] for r_ in P]}
                ctx.case(case)
                ctx.count(f"plate:array-of-{npos}-positions")
                check_plate_array(ctx, case)
            # spherical <-> cartesian forms of the pole agree with each other (arctan2/cos: measured only)
            try:
                sph = pm.as_spherical()
                car = pm.as_cartesian()
                back = pm.to_cartesian(sph)
                if not np.all(np.abs(back - car) <= 1e-9 * np.linalg.norm(car)):
                    V(ctx, f"plate:spherical-roundtrip:{mname}/{plate}", f"to_cartesian(as_spherical()) = {back} vs {car}", {"model": mname, "plate": plate})
                stored = np.array([float(u) for u in w])
                if not np.all(np.abs(car - stored) <= 1e-12 * np.linalg.norm(stored)):
                    V(ctx, f"plate:as_cartesian:{mname}/{plate}", f"as_cartesian() = {car} but the model stores {stored}", {"model": mname, "plate": plate})
            except Exception as e:  # noqa
                V(ctx, f"plate:spherical:raises:{type(e).__name__}", f"as_spherical/to_cartesian raised {e}", {"model": mname, "plate": plate})

    # the documentation table above nnr_morvel56 (lat, lon, rate): to_cartesian of a documented pole is the stored pole
    doc = info["doc"]
    if doc and "nnr_morvel56" in pmm._PLATE_MOTION_MODELS:
        model = pmm._PLATE_MOTION_MODELS["nnr_morvel56"]
        try:
            anyp = PlateMotion(plate=next(iter(model.poles)), model="nnr_morvel56")
        except Exception as e:  # noqa
            V(ctx, "plate-doc:init", f"PlateMotion for nnr_morvel56 raised {e}", {"model": "nnr_morvel56"})
            doc = []
        stored = {pl: np.array([p.wx, p.wy, p.wz], dtype=float) for pl, p in model.poles.items()}
        for full, ab, lat, lon, rate in doc:
            with guard(ctx, "plate-doc"):
                want = np.asarray(anyp.to_cartesian(np.array([float(lat), float(lon), float(rate)])), dtype=float)
                # the plate whose key starts like the documented name
                cands = [pl for pl, p in model.poles.items() if p.description.lower().startswith(full.lower()[:4])]
                if len(cands) != 1:
                    ctx.count("plate-doc:unmatched")
                    continue
                pl = cands[0]
                ctx.case({"part": "plate-doc", "plate": pl})
                ctx.count("plate-doc")
                if np.linalg.norm(stored[pl] - want) > 0.01 * np.linalg.norm(want):
                    V(ctx, f"plate-doc:nnr_morvel56/{pl}", f"{pl} ({full}): stored pole {stored[pl].tolist()} mas/yr, documented "
                                f"lat/lon/rate {float(lat)}/{float(lon)}/{float(rate)} give {np.round(want, 5).tolist()}",
                                {"model": "nnr_morvel56", "plate": pl, "doc": [str(lat), str(lon), str(rate)]})


def pole_forms_part(ctx: Ctx, drv, info):
    """PlateMotion.to_cartesian / to_spherical on generated poles: to_cartesian vs the model toCartesianQ (cos/sin of the
    angles as the code obtains them), the rate recovered by to_spherical vs omegaSq; oracle: both round trips on the
    ranges of theorems spherical_roundtrip_real / cartesian_roundtrip_real"""
    from midgard.math.plate_motion import PlateMotion
    from midgard.math.unit import Unit

    rng = ctx.rng
    mname, plate = info["poles"][0][:2]
    pm = PlateMotion(plate=plate, model=mname)
    d2r = float(Unit.degree2radian)
    for ci in range(ctx.budget(150, 3000)):
        with guard(ctx, "pole-forms"):
            c = rng.random()
            lat = rng.uniform(-89.9, 89.9) if c < 0.8 else float(rng.randint(-89, 89))
            lon = rng.uniform(-180, 180) if c < 0.8 else float(rng.choice([180, 0, 90, -90, rng.randint(-179, 180)]))
            w = 10 ** rng.uniform(-3, 1) if c < 0.9 else float(rng.randint(1, 3))
            case = {"part": "pole-forms", "lat": fl(lat), "lon": fl(lon), "rate": fl(w)}
            ctx.case(case)
            ctx.count("pole-forms:" + ("random" if c < 0.8 else "whole degrees"))
            sph = np.array([lat, lon, w])
            car = np.asarray(pm.to_cartesian(sph), dtype=float)
            back = np.asarray(pm.to_spherical(car), dtype=float)
            cl, sl, co, so = (frac(float(f(a * d2r))) for a, f in ((lat, np.cos), (lat, np.sin), (lon, np.cos), (lon, np.sin)))
            m = [Fraction(t) for t in drv.ask1(f"c20 tocart {rs(cl)} {rs(sl)} {rs(co)} {rs(so)} {rs(frac(w))}").split()]
            scale = 3.6 * w
            for i in range(3):
                if abs(frac(car[i]) - m[i]) > frac(1e-13 * scale):
                    ctx.disagree("PlateMotion.to_cartesian", {**case, "i": i}, float(m[i]), float(car[i]))
            if abs(frac(back[2]) ** 2 - m[3]) > frac(1e-12) * m[3]:
                ctx.disagree("PlateMotion.to_spherical rate", case, float(m[3]), float(back[2]) ** 2)
            # ---- oracle: spherical -> cartesian -> spherical (|lat| < 90, -180 < lon <= 180, rate > 0)
            dlon = abs(back[1] - lon)
            dlon = min(dlon, abs(dlon - 360))
            if abs(back[0] - lat) > 1e-9 or dlon > 1e-9 / max(math.cos(math.radians(lat)), 1e-3) or abs(back[2] - w) > 1e-12 * w:
                V(ctx, "plate:spherical-roundtrip", f"to_spherical(to_cartesian({[lat, lon, w]})) = {back.tolist()}", case)
            if not (-180 - 1e-9 <= back[1] <= 180 + 1e-9 and -90 <= back[0] <= 90):
                V(ctx, "plate:spherical-ranges", f"to_spherical returns latitude/longitude {back[0]!r}/{back[1]!r}", case)
            # ---- oracle: cartesian -> spherical -> cartesian, every vector (also on the axis)
            v = np.array([rng.uniform(-1, 1), rng.uniform(-1, 1), rng.uniform(-1, 1)]) * 10 ** rng.uniform(-2, 1)
            if rng.random() < 0.15:
                v[0] = v[1] = 0.0
            elif rng.random() < 0.15:
                v[rng.randrange(3)] = 0.0
            v2 = np.asarray(pm.to_cartesian(pm.to_spherical(v)), dtype=float)
            if not np.all(np.abs(v2 - v) <= 1e-12 * np.linalg.norm(v)):
                V(ctx, "plate:cartesian-roundtrip", f"to_cartesian(to_spherical({v.tolist()})) = {v2.tolist()}", {**case, "v": [fl(u) for u in v]})


# =============================================================================================
# linear regression


def linreg_part(ctx: Ctx, drv):
    from midgard.math.linear_regression import LinearRegression

    rng = ctx.rng
    ncases = ctx.budget(120, 2000)
    for ci in range(ncases):
        with guard(ctx, "linreg"):
            n = rng.randint(3, 30)
            x0, h = rng.uniform(-100, 100), 10 ** rng.uniform(-1, 2)
            x = np.array(sorted({x0 + h * rng.uniform(0, n) for _ in range(n)}))
            if len(x) < 3:
                continue
            n = len(x)
            a, b = rng.uniform(-50, 50), rng.uniform(-5, 5)
            noise = 10 ** rng.uniform(-3, 1)
            y = a + b * x + np.array([rng.gauss(0, noise) for _ in range(n)])
            nout = rng.choice([0, 0, 1, 2]) if n > 6 else 0
            for i in rng.sample(range(n), nout):
                y[i] += rng.choice([-1, 1]) * noise * rng.uniform(8, 40)
            reject = rng.random() < 0.5
            factor = rng.choice([1.0, 1.5, 2.0, 3.0])
            it = rng.randint(1, 3)
            as_list = rng.random() < 0.3
            exact = rng.random() < 0.15 and not reject
            if exact:
                x = np.array([float(int(v)) for v in x]); x = np.unique(x)
                if len(x) < 3:
                    continue
                a, b = float(rng.randint(-20, 20)), float(rng.randint(-9, 9)) / 4
                y = a + b * x
            case = {"part": "linreg", "n": len(x), "reject": reject, "factor": factor, "iter": it, "list": as_list, "exact": exact,
                    "x": [fl(v) for v in x], "y": [fl(v) for v in y]}
            ctx.case(case)
            ctx.count("linreg:reject" if reject else "linreg:plain")
            kw = dict(reject_outlier=reject, outlier_limit_factor=factor, outlier_iteration=it) if reject else {}
            m = drv.ask1(f"c20 linreg {int(reject)} {rs(frac(factor))} {it} {rl(frac(v) for v in x)} {rl(frac(v) for v in y)}")
            try:
                lr = LinearRegression(x.tolist() if as_list else x.copy(), y.tolist() if as_list else y.copy(), **kw)
                ic, sl = float(lr.interception), float(lr.slope)
                kept = np.asarray(lr.x, dtype=float)
                res = np.asarray(lr.residuals, dtype=float)
            except Exception as e:  # noqa
                if reject and (m == "degenerate" or borderline(x, y, factor, it)):
                    ctx.count("linreg:rejection-left-fewer-than-2-samples")   # nothing to fit: outside the property
                else:
                    V(ctx, f"linreg:raises:{type(e).__name__}", f"LinearRegression raised {e}", case)
                continue
            ys = float(np.max(np.abs(y))) + 1.0
            xs_ = float(np.max(np.abs(x))) + 1.0
            spread = float(np.ptp(x))
            # ---- oracle (plain fit): list input is the same data; the normal equations; an exact line is recovered
            if not reject:
                lr2 = LinearRegression(x.copy(), y.copy())
                if abs(float(lr2.slope) - sl) > 1e-9 * (ys / spread) or abs(float(lr2.interception) - ic) > 1e-9 * ys * xs_ / spread:
                    V(ctx, "linreg:list-input", f"LinearRegression(list, list) gives slope {sl!r}, arrays give {float(lr2.slope)!r}", case)
                    continue
                if abs(res.sum()) > 1e-9 * ys * len(x) or abs((res * x).sum()) > 1e-9 * ys * xs_ * len(x):
                    V(ctx, "linreg:normal-equations", f"residuals not orthogonal to [1, x]: {res.sum():.3e}, {(res * x).sum():.3e}", case)
                if exact and (abs(sl - b) > 1e-9 * (abs(b) + 1) or abs(ic - a) > 1e-9 * (abs(a) + 1) * xs_):
                    V(ctx, "linreg:exact-line", f"data on the line {a}+{b}x fitted as {ic!r}+{sl!r}x", case)
            # ---- oracle: rms, r_square, slope_sigma, interception_sigma are the textbook quantities of the fit returned,
            #      on the samples kept (exact rational arithmetic on the doubles the object reports)
            try:
                kx, ky = [frac(v) for v in np.asarray(lr.x, dtype=float)], [frac(v) for v in np.asarray(lr.y, dtype=float)]
                nk = len(kx)
                if nk >= 3 and len(set(kx)) >= 2:
                    fi, fs = frac(ic), frac(sl)
                    rr = [yv - fi - fs * xv for xv, yv in zip(kx, ky)]
                    ssr = sum(r_ * r_ for r_ in rr)
                    xb, yb = sum(kx) / nk, sum(ky) / nk
                    sxx, sst = sum((v - xb) ** 2 for v in kx), sum((v - yb) ** 2 for v in ky)
                    want = {"rms": ssr / nk, "slope_sigma": ssr / (nk - 2) / sxx,
                            "interception_sigma": ssr / (nk - 2) * sum(v * v for v in kx) / (nk * sxx)}
                    floor_ = frac((1e-9 * ys) ** 2)      # squares of quantities that are zero up to the rounding of the fit
                    for nm_, w2 in want.items():
                        g = float(getattr(lr, nm_))
                        slack = floor_ * {"rms": 1, "slope_sigma": 1 / sxx, "interception_sigma": 1 + xb * xb / sxx}[nm_]
                        if not (math.isfinite(g) and g >= 0) or abs(frac(g) ** 2 - w2) > Fraction(1, 10**8) * w2 + slack:
                            V(ctx, f"linreg:{nm_}", f"LinearRegression.{nm_} = {g!r}, the fit returned gives {math.sqrt(float(w2))!r}", case)
                    if sst > floor_ * nk:
                        g = float(lr.r_square)
                        if abs(frac(g) - (1 - ssr / sst)) > Fraction(1, 10**8) + floor_ * nk / sst or not -1e-9 <= g <= 1 + 1e-9:
                            V(ctx, "linreg:r_square", f"LinearRegression.r_square = {g!r}, 1 - SSR/SST = {float(1 - ssr / sst)!r}", case)
                    ym = np.asarray(lr.y_modeled, dtype=float)
                    if ym.shape != (nk,) or not np.all(np.abs(ym - (ic + sl * np.asarray(lr.x, dtype=float))) <= 1e-9 * ys * xs_):
                        V(ctx, "linreg:y_modeled", "LinearRegression.y_modeled is not interception + slope * x on the samples kept", case)
                    ctx.count("linreg:statistics-checked")
            except Exception as e:  # noqa
                V(ctx, f"linreg:statistics:raises:{type(e).__name__}", f"a statistic of LinearRegression raised {type(e).__name__}: {str(e)[:100]}", case)
            if m == "degenerate":
                ctx.count("linreg:degenerate")
                continue
            t = m.split()
            mi, ms, mk = Fraction(t[1]), Fraction(t[2]), prl(t[3])
            if reject and [frac(v) for v in kept] != mk:
                ctx.count("linreg:kept-set-differs(borderline?)")
                # a sample whose residual is within rounding of the limit may fall on either side: decide by margin
                if not borderline(x, y, factor, it):
                    ctx.disagree("LinearRegression outlier rejection (kept samples)", case, [float(v) for v in mk], kept.tolist())
                continue
            cnd = (xs_ / max(spread, 1e-300)) ** 2
            if abs(frac(sl) - ms) > frac(1e-11 * cnd * ys / max(spread, 1e-300)) or abs(frac(ic) - mi) > frac(1e-11 * cnd * ys * xs_ / max(spread, 1e-300)):
                ctx.disagree("LinearRegression fit", case, [float(mi), float(ms)], [ic, sl])
            # statistics of the fit vs fitStats (squares where the code takes a square root)
            if len(t) >= 8 and len(kept) >= 3:
                mstat = dict(zip(("rms", "r_square", "slope_sigma", "interception_sigma"), (Fraction(u) for u in t[4:8])))
                kxs = np.asarray(lr.x, dtype=float)
                sxx_ = float(np.sum((kxs - kxs.mean()) ** 2))
                fl2 = (1e-8 * ys) ** 2
                for nm_, q in mstat.items():
                    g = float(getattr(lr, nm_))
                    if nm_ == "r_square":
                        sst_ = float(np.sum((np.asarray(lr.y, dtype=float) - np.mean(lr.y)) ** 2))
                        if sst_ > 1e-6 * ys * ys and abs(frac(g) - q) > frac(1e-7 + fl2 * len(kept) / sst_ * cnd):
                            ctx.disagree("LinearRegression.r_square", case, float(q), g)
                        continue
                    slack = fl2 * cnd * {"rms": 1.0, "slope_sigma": 1.0 / max(sxx_, 1e-300), "interception_sigma": 1.0 + float(kxs.mean()) ** 2 / max(sxx_, 1e-300)}[nm_]
                    if abs(frac(g) ** 2 - q) > Fraction(1, 10**7) * q + frac(slack):
                        ctx.disagree(f"LinearRegression.{nm_}", case, math.sqrt(float(q)), g)
                ctx.count("linreg:statistics-vs-model")
            # ---- oracle: r_square does not change under an affine rescaling of y (theorem linreg_r_square_affine_invariant)
            if not reject and not exact and len(x) >= 4:
                al, be = rng.uniform(-100, 100), rng.choice([-1, 1]) * 10 ** rng.uniform(-2, 2)
                try:
                    r0, r1 = float(lr.r_square), float(LinearRegression(x.copy(), al + be * y).r_square)
                    if 1 - r0 > 1e-6 and abs(r1 - r0) > 1e-7:
                        V(ctx, "linreg:r_square-affine", f"r_square changes from {r0!r} to {r1!r} when y is replaced by {al!r} + {be!r} * y", {**case, "alpha": al, "beta": be})
                except Exception as e:  # noqa
                    V(ctx, f"linreg:r_square-affine:raises:{type(e).__name__}", f"LinearRegression on rescaled y raised {e}", case)


def borderline(x, y, factor, it) -> bool:
    """True when some residual is within 1e-9 relative of the rejection limit in some pass (float fit)"""
    x, y = np.array(x, dtype=float), np.array(y, dtype=float)
    for _ in range(it):
        if len(x) < 2:
            return True
        A = np.stack([np.ones_like(x), x], axis=1)
        co, *_ = np.linalg.lstsq(A, y, rcond=None)
        r = y - A @ co
        lim = factor * math.sqrt(float(np.mean(r * r)))
        if np.any(np.abs(np.abs(r) - lim) <= 1e-9 * (lim + 1e-300)):
            return True
        keep = np.abs(r) < lim
        x, y = x[keep], y[keep]
    return False


# =============================================================================================


def run(ctx: Ctx):
    from translator import extract_c20

    changed, info = extract_c20.generate()
    ctx.extra["tables_regenerated"] = bool(changed)
    ctx.proof = common.prove("C20")
    if ctx.thorough and ctx.proof.ok:
        mods = ["Midgard.Props.C20", "Midgard.Proofs.C20Lagrange", "Midgard.Proofs.C20Dop", "Midgard.Proofs.C20Algebra",
                "Midgard.Proofs.C20Deriv", "Midgard.Proofs.C20Bary", "Midgard.Proofs.C20Nputil", "Midgard.Proofs.C20Spherical", "Midgard.Proofs.C20Spline", "Midgard.Proofs.C20Stats", "Midgard.Proofs.C20Grid", "Midgard.Proofs.C20DerivAll", "Midgard.Proofs.C20Tensor",
                "Midgard.Model.Numeric", "Midgard.Spec.UnitsSI", "Midgard.Generated.C20Tables"]
        import subprocess
        with common.lake_lock():
            try:
                p = subprocess.run(["lake", "env", "leanchecker", *mods], cwd=common.LEAN, capture_output=True, text=True, timeout=900)
                ctx.extra["leanchecker"] = {"modules": mods, "exit": p.returncode}
                if p.returncode != 0:
                    ctx.proof.ok = False
                    ctx.proof.failed.append("leanchecker rejected the modules: " + (p.stdout + p.stderr)[-300:])
            except subprocess.TimeoutExpired:
                raise common.ToolFailure("leanchecker timed out")
    drv = ctx.driver
    nu = drv.ask1("c20 nunits").split()
    if [int(v) for v in nu] != [len(info["units"]), len(info["poles"])]:
        ctx.disagree("driver was not built from the regenerated tables", {"driver": nu}, nu, [len(info["units"]), len(info["poles"])])
    want = sorted(KINDS)
    if sorted(info["interpolators"]) != want:
        ctx.disagree("interpolator registry", {"registered": info["interpolators"]}, want, info["interpolators"])
    ctx.rule = ("units: all ordered pairs and same-dimension triples of the regenerated table; angles: [-360,360] deg incl. +-0, "
                "negatives below one degree, integer/minute/second boundaries, ulp neighbours; interpolation: 3..60 strictly increasing "
                "abscissae (dyadic/uniform/epoch-like/random spacing), windows 3..12, y of 1..4 dimensions, shuffled input, nodes/"
                "midpoints/ends/ties, every error branch; DOP: 4..40 satellites (random, poor, symmetric); every plate of every model x "
                "positions; regression with/without outlier rejection. Non-trivial: value-producing cases (a != b for units, x != 0 for angles)")
    ctx.trusted += ["floating-point error is measured on the sampled inputs against condition-scaled bounds, not proved",
                    "pint's registry arithmetic (float factors, name resolution) — measured against the exact table",
                    "translator's reading of the pint definition text (exact decimals, symbolic pi)",
                    "SciPy interp1d(cubic)/InterpolatedUnivariateSpline/BarycentricInterpolator: oracle only (no model); "
                    "interp1d(linear) modelled", "np.linalg.inv/cond, statsmodels OLS: modelled by the adjugate inverse / normal equations",
                    "libm sin/cos/sqrt/arctan2 enter the model as parameters (pi, x.std(), cos/sin of az/el)"]
    ctx.assumptions += ["model inputs are the exact rationals of the doubles handed to the implementation",
                        "pi is represented by the double math.pi in correspondence runs; theorems hold for every positive value"]
    corpus_part(ctx)
    units_part(ctx, drv, info)
    dms_part(ctx, drv)
    lagrange_part(ctx, drv)
    scipy_part(ctx, drv)
    derivative_part(ctx)
    derivative_model_part(ctx, drv)
    derivative_kinds_part(ctx, drv)
    refill_part(ctx)
    import sys
    T.types_part(ctx, sys.modules[__name__], info)
    nputil_part(ctx, drv)
    S.spatial_part(ctx, sys.modules[__name__], drv)
    S.sun_part(ctx, sys.modules[__name__], drv, info)
    dops_part(ctx, drv, info)
    plate_part(ctx, drv, info)
    pole_forms_part(ctx, drv, info)
    linreg_part(ctx, drv)
    ctx.traces = ctx.evaluations - ctx.hist.get("unit-triples", 0)


def corpus_part(ctx: Ctx):
    """past failures (corpus/C20/*.json, replay format), run first"""
    import contextlib
    import io

    for f in sorted((common.VERIF / "corpus" / "C20").glob("*.json")):
        payload = json.loads(f.read_text())
        buf = io.StringIO()
        with contextlib.redirect_stdout(buf):
            rc = replay(payload)
        ctx.case({"part": "corpus", "file": f.name})
        ctx.count("corpus")
        if rc != 0:
            tail = " | ".join(buf.getvalue().strip().splitlines()[-3:])
            V(ctx, payload.get("key", "corpus:" + f.stem), f"corpus case {f.name} fails again: {tail[:300]}", payload.get("replay"))


def _hx(v):
    return float.fromhex(v) if isinstance(v, str) else float(v)


def replay(payload):
    """re-run the property oracle on the stored input against the real code; exit 1 if it still fails"""
    from midgard.math.unit import Unit

    c = payload.get("replay", payload)
    key = payload.get("key", "")
    part = c.get("part", "")
    ctx = Ctx("C20", "quick", int(payload.get("seed", 0) or 0))
    print("key:", key)
    print("what:", payload.get("what"))
    print("input:", json.dumps({k: v for k, v in c.items() if k not in ("x", "y", "xn", "az", "el")}, default=str)[:600])
    try:
        if "no_longer_checks" in c or "no_longer_checks" in payload:
            print("no failing input was found for this report; it names what no longer checks:",
                  payload.get("no_longer_checks"))
            return 0
        if part in T.CHECKS:
            import sys
            bad = T.replay_case(ctx, sys.modules[__name__], c)
        elif part == "refill":
            check_refill(ctx, c)
            bad = bool(ctx.violations)
            for v in ctx.violations:
                print("  oracle:", v.key, "|", v.what)
        elif part == "plate-array":
            check_plate_array(ctx, c)
            bad = bool(ctx.violations)
            for v in ctx.violations:
                print("  oracle:", v.key, "|", v.what)
        elif part in ("spatial", "sun"):
            import sys
            bad = S.replay_case(ctx, sys.modules[__name__], c)
        elif part == "dms":
            x = _hx(c["deg"])
            d, m, sec = (float(v) for v in Unit.deg_to_dms(x))
            back = float(Unit.dms_to_deg(d, m, sec))
            print(f"deg_to_dms({x!r}) = {(d, m, sec)}; dms_to_deg(...) = {back!r}")
            bad = not (abs(frac(back) - frac(x)) <= Fraction(1, 10**11))
        elif part == "rad_dms":
            r = _hx(c["rad"])
            d, m, sec = (float(v) for v in Unit.rad_to_dms(r))
            back = float(Unit.dms_to_rad(d, m, sec))
            print(f"rad_to_dms({r!r}) = {(d, m, sec)}; dms_to_rad(...) = {back!r}")
            bad = not (abs(frac(back) - frac(r)) <= Fraction(1, 5 * 10**12))
        elif part == "dms_to":
            d, m, sec = _hx(c["d"]), float(c["m"]), _hx(c["s"])
            v = float(Unit.dms_to_deg(d, m, sec))
            want = (abs(frac(d)) + frac(m) / 60 + frac(sec) / 3600) * (-1 if math.copysign(1, d) < 0 else 1)
            print(f"dms_to_deg({d!r}, {m}, {sec!r}) = {v!r}; expected {float(want)!r}")
            bad = abs(frac(v) - want) > Fraction(1, 10**11)
        elif part == "unit" or key.startswith("unit"):
            a, b = c.get("a"), c.get("b", c.get("a"))
            v, w = float(Unit(a, b)), float(Unit(b, a))
            ba = float((1 * Unit(a)).to_base_units().magnitude)
            bb = float((1 * Unit(b)).to_base_units().magnitude)
            print(f"{a}2{b} = {v!r}, {b}2{a} = {w!r}, product {v * w!r}; base units {ba!r}, {bb!r}")
            bad = abs(v * w - 1) > 1e-13 or abs(v - ba / bb) > 1e-13 * abs(v)
            if a in SI:
                bad = bad or abs(ba - float(SI[a])) > 1e-13 * float(SI[a])
            if "c" in c:
                cc = c["c"]
                bad = bad or abs(v * float(Unit(b, cc)) - float(Unit(a, cc))) > 1e-13 * abs(float(Unit(a, cc)))
            if hasattr(Unit, "__getattr__") or True:
                try:
                    bad = bad or float(getattr(Unit, f"{a}2{b}")) != v
                except Exception:  # noqa
                    pass
        elif part == "pole-forms":
            from midgard.math.plate_motion import PlateMotion
            from midgard.collections import plate_motion_models as pmm
            mname = pmm.models()[0]
            pm = PlateMotion(plate=pmm.get(mname).plates[0], model=mname)
            sph = np.array([_hx(c["lat"]), _hx(c["lon"]), _hx(c["rate"])])
            car = np.asarray(pm.to_cartesian(sph), dtype=float); back = np.asarray(pm.to_spherical(car), dtype=float)
            print("to_cartesian", car.tolist(), "-> to_spherical", back.tolist())
            dlon = min(abs(back[1] - sph[1]), abs(abs(back[1] - sph[1]) - 360))
            bad = abs(back[0] - sph[0]) > 1e-9 or dlon > 1e-9 / max(math.cos(math.radians(sph[0])), 1e-3) or abs(back[2] - sph[2]) > 1e-12 * sph[2]
            if "v" in c:
                v = np.array([_hx(u) for u in c["v"]]); v2 = np.asarray(pm.to_cartesian(pm.to_spherical(v)), dtype=float)
                print("cartesian", v.tolist(), "->", v2.tolist())
                bad = bad or not np.all(np.abs(v2 - v) <= 1e-12 * np.linalg.norm(v))
        elif part == "nputil":
            from midgard.math import nputil
            R = np.array([[_hx(v) for v in r_] for r_ in c["rows"]])
            data = T.cast(R[0] if c["one_d"] else R, c["dtype"])
            nv, uv = np.atleast_1d(np.asarray(nputil.norm(data), dtype=float)), np.atleast_2d(np.asarray(nputil.unit_vector(data), dtype=float))
            print("norm", nv, "unit_vector", uv.tolist())
            tol = 16 * max(T.eps_of(c["dtype"]), EPS) * math.sqrt(R.shape[1])
            bad = nv.shape != (len(np.atleast_2d(data)),) or uv.shape != np.atleast_2d(data).shape
            for k_, r_ in enumerate(np.atleast_2d(R[0] if c["one_d"] else R)):
                bad = bad or abs(float(np.sum(uv[k_] ** 2)) - 1) > tol or not np.all(np.abs(uv[k_] * nv[k_] - r_) <= tol * nv[k_]) \
                    or abs(frac(nv[k_]) ** 2 - sum(frac(v) ** 2 for v in r_)) > frac(tol) * sum(frac(v) ** 2 for v in r_)
            if "i" in c:
                tk = np.asarray(nputil.take(data, c["i"]), dtype=float)
                print("take", tk.tolist())
                bad = bad or not np.array_equal(tk, (R[0] if c["one_d"] else R)[..., c["i"]])
        elif part == "derivative-lagrange":
            from midgard.math import interpolation as ip
            x = np.array([_hx(v) for v in c["x"]]); xn = np.array([_hx(v) for v in c["xn"]]); tail = tuple(c.get("tail", []))
            y = np.array([_hx(v) for v in c["y"]]).reshape((len(x),) + tail)
            dx, w = _hx(c["dx"]), c["w"]
            yn, yd = ip.interpolate_with_derivative(x, y, xn, kind="lagrange", dx=dx, window=w, bounds_error=c["bounds_error"], assume_sorted=c["sorted_flag"])
            print("values", np.asarray(yn).ravel()[:4], "derivative", np.asarray(yd).ravel()[:4])
            bad = False
            if "coeffs" in c:      # data on a parabola in t = (x - min x) / span: the derivative is exact
                c0, c1, c2 = c["coeffs"]
                span = float(x.max() - x.min())
                want = (c1 + 2 * c2 * (xn - x.min()) / span) / span
                got = np.asarray(yd, dtype=float).reshape(len(xn), -1)
                err = np.min(np.max(np.abs(got - want[:, None]), axis=0))     # the component the coefficients belong to
                print("expected derivative", want[:4], "error", err)
                gap = float(np.min(np.diff(np.sort(x))))
                bad = not err <= 1e-9 * w * (1 + span / gap) ** 2 * (abs(c0) + abs(c1) + abs(c2)) / abs(dx) / span + 4 * np.spacing(np.abs(x).max()) * np.max(np.abs(want)) / abs(dx)
        elif part in KINDS or part == "derivative":
            kind = c.get("kind", part)
            x = np.array([_hx(v) for v in c["x"]])
            xn = np.array([_hx(v) for v in c["xn"]])
            tail = tuple(c.get("tail", []))
            yflat = np.array([_hx(v) for v in c["y"]])
            if part == "derivative":
                from midgard.math import interpolation as ip
                y = yflat.reshape((len(x),) + tail)
                yn, yd = ip.interpolate_with_derivative(x, y, xn, kind=kind, dx=_hx(c["dx"]),
                                                        **({"window": 3} if kind == "lagrange" else {}))
                print("values", np.asarray(yn).ravel()[:4], "derivative", np.asarray(yd).ravel()[:4])
                bad = False
            else:
                y = yflat.reshape((len(yflat) // max(1, int(np.prod(tail)) if tail else 1),) + tail)
                kw = {"window": c["w"], "bounds_error": c.get("bounds_error", True)} if kind == "lagrange" else {}
                if len(y) != len(x) or c.get("mode", "ok") not in ("ok", "extrapolate"):
                    tx, ty, txn = T.apply_dtypes(c.get("dtypes"), x, y, xn)
                    try:
                        r = call_interp(kind, tx, ty, txn, **kw, **({"assume_sorted": c.get("sorted_flag", False)} if kind == "lagrange" else {}))
                        print("result", np.asarray(r).ravel()[:6])
                        # with assume_sorted=True, samples that are not strictly increasing must be refused
                        bad = bool(c.get("sorted_flag")) and len(y) == len(x) and 3 <= c.get("w", 3) <= len(x) and not np.all(np.diff(x) > 0)
                    except ValueError as e:
                        print("raises ValueError:", e)
                        bad = False
                else:
                    o = np.argsort(x)
                    interp_oracle(ctx, kind, c, x[o], y[o], xn, None, tail, c.get("w", 4), kw)
                    if c.get("dtypes") and kind in ("lagrange", "linear"):
                        import sys
                        inv = np.argsort(o)      # the samples in the order of the case
                        T.check_interp(ctx, sys.modules[__name__], {"kind": kind, "tail": list(tail), "dtypes": c["dtypes"], "w": c.get("w", 4),
                                                                    "perm": inv.tolist(), "x": list(x[o]), "xn": list(xn), "y": list(np.asarray(y[o]).ravel())})
                    bad = bool(ctx.violations)
                    for v in ctx.violations:
                        print("  oracle:", v.key, "|", v.what)
        elif part == "dops":
            az = np.array([_hx(v) for v in c["az"]]); el = np.array([_hx(v) for v in c["el"]])
            st, d0 = run_dops(az, el)
            print("compute_dops:", st, d0)
            H = np.stack((-np.cos(el) * np.cos(az), -np.cos(el) * np.sin(az), -np.sin(el), np.ones(len(az))), axis=1)
            cond = float(np.linalg.cond(H.T @ H))
            tol = 256 * EPS * cond + 1e-12
            bad = (st != "ok" and cond < 1e10) or (st == "none" and cond < 1e12 and exact_det_normal(az, el) != 0)
            if st == "ok":
                g, pd, t, h, v = d0
                bad = abs(g * g - pd * pd - t * t) > 1e-12 * g * g or abs(pd * pd - h * h - v * v) > 1e-12 * pd * pd
                import random as _r
                th = _hx(c["theta"]) if "theta" in c else 1.0

                class _fixed:
                    def uniform(self, a, b):
                        return th
                for vname, az2 in azimuth_rotations(_fixed(), az)[1]:
                    st2, d2 = run_dops(az2, el)
                    ok2 = st2 == "ok" and max(abs(u1 - u0) / u0 for u0, u1 in zip(d0, d2)) <= tol
                    print(f"  {vname}: {st2} {d2}" + ("" if ok2 else "   <-- differs"))
                    bad = bad or not ok2
                perm = np.array(c["perm"]) if "perm" in c else np.arange(len(az))[::-1]
                st3, d3 = run_dops(az[perm], el[perm])
                ok3 = st3 == "ok" and max(abs(u1 - u0) / u0 for u0, u1 in zip(d0, d3)) <= tol
                print(f"  reordered: {st3} {d3}" + ("" if ok3 else "   <-- differs"))
                bad = bad or not ok3
        elif part == "plate":
            from midgard.math.plate_motion import PlateMotion
            pm = PlateMotion(plate=c["plate"], model=c["model"])
            pos = np.array([_hx(v) for v in c["pos"]])
            pole = np.array([pm.pole.wx, pm.pole.wy, pm.pole.wz], dtype=float)
            v = np.asarray(pm.get_velocity(pos), dtype=float)
            nv, nr, nw = (float(np.linalg.norm(u)) for u in (v, pos, pole))
            print("v =", v, " v.r =", float(v @ pos), " v.w =", float(v @ pole), " (w x r).v =", float(np.cross(pole, pos) @ v))
            bad = (abs(float(v @ pos)) > 1e-12 * nv * nr + 1e-300 or abs(float(v @ pole)) > 1e-12 * nv * nw + 1e-300
                   or float(np.cross(pole, pos) @ v) < -1e-12 * (nw * nr) ** 2)
        elif "doc" in c and "plate" in c:
            from midgard.collections import plate_motion_models as pmm
            from midgard.math.plate_motion import PlateMotion
            pm = PlateMotion(plate=c["plate"], model=c["model"])
            pole = pmm._PLATE_MOTION_MODELS[c["model"]].poles[c["plate"]]
            stored = np.array([pole.wx, pole.wy, pole.wz], dtype=float)
            want = np.asarray(pm.to_cartesian(np.array([float(Fraction(v)) for v in c["doc"]])), dtype=float)
            print("stored", stored, "documented lat/lon/rate give", np.round(want, 5))
            bad = float(np.linalg.norm(stored - want)) > 0.01 * float(np.linalg.norm(want))
        elif part == "linreg":
            from midgard.math.linear_regression import LinearRegression
            x = np.array([_hx(v) for v in c["x"]]); y = np.array([_hx(v) for v in c["y"]])
            l1 = LinearRegression(x.tolist(), y.tolist()); l2 = LinearRegression(x.copy(), y.copy())
            print("lists:", float(l1.interception), float(l1.slope), " arrays:", float(l2.interception), float(l2.slope))
            res = np.asarray(l2.residuals)
            bad = abs(float(l1.slope) - float(l2.slope)) > 1e-9 * (abs(float(l2.slope)) + 1) or \
                abs(res.sum()) > 1e-9 * (np.abs(y).max() + 1) * len(x)
        else:
            print("no direct replay for this kind of input; re-run `VERIF_SEED=%s ./check C20 --tier %s`"
                  % (payload.get("seed", 0), payload.get("tier", "quick")))
            return 0
    except Exception as e:  # noqa
        print(f"the real code raised {type(e).__name__}: {e}")
        bad = True
    print("VIOLATION reproduced" if bad else "holds on the current tree")
    return 1 if bad else 0
