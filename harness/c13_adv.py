"""C13 — adversarial SP3 files for the line grouping of the real ChainParser (growth goals 3 and 4).

Two families, both started from the well-formed generator of harness/c13.py:

* MODEL-LEVEL variants stay inside `File.wf` (Spec/Sp3File.lean) and go through `c13.one_file` with the full oracle
  (generating orbit model vs as_dict / meta / as_dataset), the compiled instance of `file_roundtrip` and the
  byte-for-byte writer comparison: clock-only records, epochs without records, SP3-d with many comment lines,
  more than 85 satellites, every constellation letter, comments that look like data / epoch / EOF lines.

* TEXT-LEVEL mutations of a rendered file: the mutated bytes are parsed by the real parser (incl. as_dataset) and by the
  compiled model (`c13 text`: universal newlines, then `parseFile`), canonical outputs compared (ctx.disagree), and the
  real parser's result is compared with what `EXPECT[kind]` says:
     ("equal",  True )  the property defines the result: it must equal the result of the unmutated file (a metamorphic
                        oracle on the real code alone; the unmutated file itself is judged by the generating-model oracle)
                        -> ctx.violate("adv:<kind>")
     ("equal",  False)  not a well-formed file, the property does not define the result; the *documented* behaviour of the
     ("raises:X", False) real parser (dropped / raises) is stated here and checked -> ctx.disagree when it changes
     ("free",   False)  only model vs code is compared; the observed outcome is counted
"""
from __future__ import annotations

import json
import math

import numpy as np

from . import common
from .common import hexs

# kind -> (expected behaviour of the real parser, does the property define it?)
EXPECT = {
    # 1. line ends / end of file
    "crlf-all": ("equal", True),
    "crlf-some": ("equal", True),
    "cr-only": ("equal", False),                 # lone CR line ends: text mode reads them as line ends
    "no-final-newline": ("equal", True),
    "trailing-blanks": ("equal", True),
    "eof-missing": ("equal", False),             # the EOF line is not interpreted at all
    "eof-missing-no-final-newline": ("equal", False),
    "eof-middle": ("equal", False),              # an EOF line between records / epochs is skipped, what follows is parsed
    "eof-then-records": ("equal", False),        # whole epoch blocks after EOF are parsed as if EOF were absent
    "eof-then-garbage": ("equal", False),        # lines after EOF that are no P / * lines are dropped
    # 2. blank and whitespace-only lines
    # (empty / whitespace-only lines are ordinary - editors and transfer tools add one at the end: same result as without them)
    "blank-in-header": ("equal", True),          # label '' is in no table: skipped
    "blank-before-first-epoch": ("equal", True),
    "blank-in-epoch": ("equal", True),           # data label is line[:1] of the rstripped line: '' is in no table
    "blank-at-end": ("equal", True),
    # 3. header text in the data section, data text in the header
    "header-label-in-data": ("equal", False),    # /* %c %f %i + ++ #c #d ## lines between records / epochs are dropped
    "data-like-in-header": ("equal", False),     # raw P / V / EP / EOF lines in the header are dropped
    "epoch-line-in-header": ("free", False),     # ends the header early: KeyError when %f is not read yet, else an empty epoch
    # 4. records the parser does not deliver
    "extras-misplaced": ("equal", True),         # V / EP / EV lines anywhere in the data section, also right after '*'
    "epoch-line-spacing": ("equal", False),      # the * line is split on whitespace, not read by columns
    "duplicate-epoch": ("free", False),          # repeated epoch: first record of the repeated block is dropped (if it is line 2)
    "p-like-garbage": ("raises:ValueError", False),
    "star-garbage": ("free", False),
    "truncated-record": ("free", False),
    "degenerate": ("free", False),               # empty file, header only, data section only, EOF only
}

RULE = ("ADVERSARIAL files (harness/c13_adv.py), per round: seven abstract files inside File.wf that the plain generator reaches rarely or never (clock-only "
        "records, epochs without records, SP3-d with 0..150 comment lines, 86..171 satellites, every constellation letter incl. unlisted ones and P/V, comments "
        "that look like record / epoch / EOF lines, blank lines after records) through the full oracle, and one small rendered file mutated as TEXT in every kind of `adversarial_kinds` "
        "(line ends, EOF placement, blank lines, header labels in the data section and data lines in the header, misplaced V/EP/EV lines, duplicate epochs, "
        "garbage and truncated records, degenerate files), each parsed by the real parser (half of them through parsers.parse_file('sp3', path)) incl. as_dataset "
        "and by the compiled model on the same bytes (`c13 text`), canonical outputs compared; the real parser's result is compared with the unmutated file's")

ASSUMPTIONS = [
    "adversarial kinds whose result the property defines (CRLF on all / some lines, no final newline, trailing blanks, empty / whitespace-only lines "
    "anywhere - in the header, before the first epoch, inside an epoch block, at the end -, V / EP / EV lines anywhere in the data section): oracle = the real parser returns exactly what it returns for the unmutated file (as_dict, meta, Dataset), key adv:<kind>",
    "adversarial kinds outside 'well-formed' (lone-CR line ends, EOF missing / in the middle / followed by records or other lines, header-label "
    "lines in the data section, raw data lines in the header, re-spaced epoch lines, p-like garbage): the property does not define the result; what the real "
    "parser does (dropped = result equal to the unmutated file, or raises IndexError / ValueError) is stated in adversarial_kinds and a change of it is reported "
    "as a broken correspondence, not as a violation",
    "adversarial kinds marked 'free' (epoch line inside the header, duplicate epochs, a * line that is no epoch, truncated records, degenerate files): only "
    "model vs code is compared, the outcomes are counted",
    "V, EP and EV records are not delivered by the parser (_parse_velocity returns at once, E has no table entry); the EOF line is not interpreted; "
    "empty and whitespace-only lines are skipped wherever they stand",
]

# abstract files inside File.wf (full oracle against the generating orbit model): what the parser delivers
MODEL_KINDS = {
    "clock-only-record": "supported: an entry with NaN position and the clock value",
    "zero-record-epoch": "supported: contributes no entry, the neighbouring epochs are not disturbed",
    "many-comments": "supported: any number of /* lines is skipped",
    "over-85-satellites": "supported: any number of + / ++ lines is skipped (the satellite list of the header is not read at all)",
    "all-constellation-letters": "supported: any letter, system = first character of the id (also ids starting with P or V)",
    "comment-looks-like-data": "supported: a /* line is skipped whatever its text (P record, * line, EOF, %f)",
    "blank-lines-after-records": "supported: lines of 0..5 blanks after position records (several in a row, between V / EP lines, before EOF) are skipped",
}

HEADER_TAGS = ("/*", "%c", "%f", "%i", "+ ", "++", "#c", "#d", "##")


def bits(x):
    """a float as a comparable value (NaN == NaN, -0.0 != 0.0)"""
    x = float(x)
    return "nan" if math.isnan(x) else x.hex()


def canon_result(c13, p, dres):
    """canonical value of everything the property observes: as_dict(), meta, the Dataset"""
    d = p.as_dict()
    out = {"meta": {k: (bits(v) if isinstance(v, float) else v) for k, v in sorted(p.meta.items()) if not k.startswith("__")}}
    for k in sorted(d):
        col = d[k]
        out[k] = [[bits(x) for x in np.atleast_1d(v)] if not isinstance(v, str) else v for v in col]
    if dres is None:
        out["dataset"] = None
    elif dres[0] == "raises":
        out["dataset"] = "raises:" + dres[1].split(":")[0]
    else:
        ds = dres[1]
        out["dataset"] = {"scale": str(ds.time.scale), "sec": [str(s) for s in c13.dataset_seconds(ds)],
                          "pos": [[bits(x) for x in row] for row in np.asarray(ds.sat_pos).reshape(-1, 3)],
                          "clk": [bits(x) for x in np.atleast_1d(np.asarray(ds.sat_clock_bias))],
                          "sat": [str(s) for s in np.atleast_1d(ds.satellite)], "sys": [str(s) for s in np.atleast_1d(ds.system)]}
    return out


def first_diff(a, b, path=""):
    if type(a) is not type(b):
        return f"{path}: {a!r} vs {b!r}"
    if isinstance(a, dict):
        for k in sorted(set(a) | set(b)):
            if k not in a or k not in b:
                return f"{path}/{k}: only on one side"
            r = first_diff(a[k], b[k], f"{path}/{k}")
            if r:
                return r
        return None
    if isinstance(a, list):
        if len(a) != len(b):
            return f"{path}: {len(a)} vs {len(b)} items"
        for i, (x, y) in enumerate(zip(a, b)):
            r = first_diff(x, y, f"{path}[{i}]")
            if r:
                return r
        return None
    return None if a == b else f"{path}: {a!r} vs {b!r}"


# ------------------------------------------------------------------------------------------
# text-level mutations.  `L` = lines of the well-formed text (no line ends), h = index of the first '*' line,
# the last line is EOF.  Each returns the raw text of the mutated file.


def join(L):
    return "".join(l + "\n" for l in L)


def data_slots(L, h):
    """indices i with h < i <= len(L)-1: a line inserted before L[i] stands in the data section (after some '*' line)"""
    return list(range(h + 1, len(L)))


def v_line(rng, sat):
    return "V" + sat + "".join(f"{rng.uniform(-30000, 30000):14.6f}" for _ in range(4))


def e_line(rng, tag, sat):
    return f"{tag}{sat}  {rng.randint(0, 9999):4d} {rng.randint(0, 9999):4d} {rng.randint(0, 9999):4d} {rng.randint(0, 9999999):7d}"


def insert_many(rng, L, slots, new_lines):
    """insert every line of new_lines before a randomly chosen slot (several may share a slot)"""
    at = sorted(((rng.choice(slots), k) for k in range(len(new_lines))), reverse=True)
    out = list(L)
    for i, k in at:
        out.insert(i, new_lines[k])
    return out


def mutate(rng, kind, L, h, other_header):
    """-> raw text (str, written byte for byte); other_header: header lines of a different file"""
    n = len(L)
    stars = [i for i in range(h, n) if L[i].startswith("*")]
    prec = [i for i in range(h, n) if L[i].startswith("P")]
    sats = sorted({L[i][1:4] for i in prec}) or ["G01"]
    blank = lambda: rng.choice(["", "", " ", "      ", "\t", " \t ", "\x0c"])
    if kind == "crlf-all":
        return "".join(l + "\r\n" for l in L)
    if kind == "crlf-some":
        ends = [rng.choice(["\n", "\r\n"]) for _ in L]
        ends[rng.randrange(n)] = "\r\n"
        ends[(rng.randrange(n - 1) + 1 + ends.index("\r\n")) % n] = "\n" if n > 1 else ends[0]
        return "".join(l + e for l, e in zip(L, ends))
    if kind == "cr-only":
        if rng.random() < 0.5:
            return "".join(l + "\r" for l in L)
        ends = [rng.choice(["\n", "\r\n", "\r"]) for _ in L]
        ends[rng.randrange(n)] = "\r"
        return "".join(l + e for l, e in zip(L, ends))
    if kind == "no-final-newline":
        return join(L)[:-1]
    if kind == "trailing-blanks":
        pick = set(rng.sample(range(n), rng.randint(1, n))) | {rng.choice(stars), n - 1}
        return join([l + rng.choice([" ", "   ", "\t", " \t  ", " " * 40]) if i in pick else l for i, l in enumerate(L)])
    if kind == "eof-missing":
        return join(L[:-1])
    if kind == "eof-missing-no-final-newline":
        return join(L[:-1])[:-1]
    if kind == "eof-middle":
        slots = data_slots(L, h)[:-1] or data_slots(L, h)
        k = rng.choice([1, 1, 2])
        pos = [rng.choice(slots) for _ in range(k)] + ([stars[-1] + 1] if rng.random() < 0.3 else [])
        out = list(L)
        for i in sorted(pos, reverse=True):
            out.insert(i, rng.choice(["EOF", "EOF", "EOF   ", "EOF\t"]))
        return join(out)
    if kind == "eof-then-records":
        i = rng.choice(stars[1:] or [stars[0] + 1])   # before a later epoch block (one epoch only: right after its * line)
        out = L[:i] + ["EOF"] + L[i:-1] + (["EOF"] if rng.random() < 0.5 else [])
        return join(out)
    if kind == "eof-then-garbage":
        tail = [rng.choice(["/* trailing comment", "%c trailing", "trailer", "   indented text", "V" + sats[0], "EP" + sats[0],
                            "EOF", "+   ", "## trailing", "#c", "  *  2020  1  1  0  0  0.00000000", "  PG01  10138.887745"])
                for _ in range(rng.randint(1, 4))]
        return join(L + tail)
    if kind == "blank-in-header":
        return join(insert_many(rng, L, list(range(0, h)), [blank() for _ in range(rng.randint(1, 3))]))
    if kind == "blank-before-first-epoch":
        return join(L[:h] + [blank() for _ in range(rng.randint(1, 2))] + L[h:])
    if kind == "blank-in-epoch":
        i = rng.choice(data_slots(L, h) + [stars[0] + 1])
        return join(L[:i] + [blank()] + L[i:])
    if kind == "blank-at-end":
        k = rng.randrange(4)
        base = L if rng.random() < 0.7 else L[:-1]
        if k == 0:
            return join(base) + "\n"                       # an empty last line
        if k == 1:
            return join(base) + rng.choice([" ", "   ", "\t"])   # whitespace without a line end
        if k == 2:
            return join(base) + "  \n"
        return join(base) + "\n\n\n"
    if kind == "header-label-in-data":
        cand = [l for l in other_header if l[:2] in HEADER_TAGS] + ["/* comment between records", "/* PG01  10138.887745 -20456.557725",
                                                                    "/* EOF", "%c", "%f", "##", "#d", "+ ", "++", "/*",
                                                                    " PG01  10138.887745 -20456.557725 -13455.830128     13.095853", "pg01  10138.887745",
                                                                    " *  2021  1  1  0  0  0.00000000"]
        new = [rng.choice(cand) for _ in range(rng.randint(1, 5))]
        slots = data_slots(L, h)
        out = insert_many(rng, L, slots, new)
        if rng.random() < 0.5:    # make sure "between epochs" and "directly after the * line" are hit often
            i = rng.choice(stars)
            out = insert_many(rng, out, [out.index(L[i]) + 1], [rng.choice(cand)])
        return join(out)
    if kind == "data-like-in-header":
        cand = [L[i] for i in prec[:5]] + ["PG01  10138.887745 -20456.557725 -13455.830128     13.095853  7  6  4 137", "PLEASE NOTE",
                                           v_line(rng, sats[0]), e_line(rng, "EP", sats[0]), "EOF", " *  2021  1  1  0  0  0.00000000", "P"]
        return join(insert_many(rng, L, list(range(1, h + 1)), [rng.choice(cand) for _ in range(rng.randint(1, 3))]))
    if kind == "epoch-line-in-header":
        i = rng.randint(1, h)
        star = rng.choice([L[stars[0]], "*  1999 12 31 23 59 59.99999990", L[stars[-1]]])
        return join(L[:i] + [star] + L[i:])
    if kind == "extras-misplaced":
        new = []
        for _ in range(rng.randint(1, 6)):
            s = rng.choice(sats + ["G99", "X00"])
            new.append(rng.choice([v_line(rng, s), e_line(rng, "EP", s), e_line(rng, "EV", s), "V" + s, "EP", "EV" + s, "V", "E"]))
        out = insert_many(rng, L, data_slots(L, h), new)
        i = rng.choice(stars)                                  # always one directly after a '*' line
        j = out.index(L[i]) + 1
        return join(out[:j] + [rng.choice([v_line(rng, sats[0]), e_line(rng, "EP", sats[0]), e_line(rng, "EV", sats[0])])] + out[j:])
    if kind == "epoch-line-spacing":
        out = list(L)
        for i in stars:
            if rng.random() < 0.7 or i == stars[0]:
                t = L[i].split()
                sep = lambda: rng.choice([" ", "  ", "   ", "\t", " \t"])
                out[i] = "*" + "".join(sep() + x for x in t[1:])
        return join(out)
    if kind == "duplicate-epoch":
        i = rng.randrange(len(stars))
        blk = L[stars[i]:(stars[i + 1] if i + 1 < len(stars) else n - 1)]
        k = rng.random()
        if k < 0.35:
            blk = [blk[0], e_line(rng, "EP", sats[0])] + blk[1:]      # the record that would be dropped is line 3 now
        elif k < 0.5:
            blk = [blk[0]] + blk[2:] + blk[1:2] if len(blk) > 2 else blk
        j = rng.choice(stars[i + 1:] + [n - 1])
        return join(L[:j] + blk + L[j:])
    if kind == "p-like-garbage":
        i = rng.choice(data_slots(L, h))
        return join(L[:i] + [rng.choice(["PLEASE NOTE", "P", "PG01", "Predicted orbit", "PG01  not a number"])] + L[i:])
    if kind == "star-garbage":
        i = rng.choice(data_slots(L, h))
        return join(L[:i] + [rng.choice(["*", "* end of data", "*  2021  1  1", "** comment", "*  2021  1  1  0  0  x.0", "*  2021 1.0  1  0  0  0.0",
                                         "*2021  1  1  0  0  0.00000000  7"])] + L[i:])
    if kind == "truncated-record":
        i = rng.choice(prec) if prec else n - 1
        cut = rng.choice([rng.randint(1, 60), rng.randint(46, 60), rng.randint(60, 80), 4, 18, 32, 46])
        return join(L[:i] + [L[i][:cut]] + L[i + 1:])
    if kind == "degenerate":
        k = rng.randrange(8)
        return ["", "\n", "EOF\n", join(L[:h] + ["EOF"]), join(L[:h]), join(L[h:]), join(L[:2] + L[h:]), join([L[stars[0]]] + L)][k]
    raise KeyError(kind)


# ------------------------------------------------------------------------------------------


def parse_real(c13, impl, text, via_plugin=False):
    st, p = impl.parse(text, via_plugin)
    if st == "raises":
        return ("raises:" + p.split(":")[0], None, None, p)
    dres = impl.dataset(p)
    return ("ok", p, dres, None)


def judge(c13, impl, text, ref_text, via_plugin=False):
    """('equal' | 'raises:X' | 'differs: …', parser, dataset result) of the real parser on `text` relative to `ref_text`"""
    st, p, dres, msg = parse_real(c13, impl, text, via_plugin)
    if st != "ok":
        return st, None, None, msg
    st0, p0, dres0, msg0 = parse_real(c13, impl, ref_text)
    if st0 != "ok":
        return f"differs: reference file {st0}", p, dres, None
    d = first_diff(canon_result(c13, p0, dres0), canon_result(c13, p, dres))
    return ("equal" if d is None else "differs: " + d), p, dres, None


def text_case(ctx, c13, impl, drv, kind, text, ref_text, corpus=False, via_plugin=False):
    """one text-level file: correspondence model vs code + the stated behaviour of the real parser"""
    expect, in_property = EXPECT[kind]
    case = {"adv": kind, "file": text, "ref": ref_text}
    ctx.case({"t": common.digest(text)}, nontrivial=True)
    ctx.count(f"adv: {kind}" if not corpus else "corpus")
    if via_plugin:
        ctx.count("adv-route: parsers.parse_file('sp3', path)")
        case["via_plugin"] = True
    got, p, dres, msg = judge(c13, impl, text, ref_text, via_plugin)
    a = drv.ask1(f"c13 text {hexs(text)}")
    if a == "bad-op":
        ctx.disagree("sp3 adversarial text not accepted by the driver", case, a, "")
        return
    if a == "RAISES":
        if p is not None:
            ctx.disagree(f"sp3 adversarial file grouping (model raises, code returns) [{kind}]", case, "RAISES", "value")
    elif p is None:
        ctx.disagree(f"sp3 adversarial file grouping (model returns, code raises) [{kind}]", case, "value", msg)
    else:
        dd = c13.compare_model(ctx, case, p, dres, json.loads(a))
        if dd:
            ctx.disagree(f"sp3 adversarial file grouping: entries / meta / dataset epoch [{kind}]", case, dd, "")
    outcome = got if not got.startswith("differs") else "differs from the unmutated file"
    ctx.count(f"adv-behaviour: {kind}: {outcome}")
    if expect == "free" or got == expect:
        return
    what = f"{kind}: the real parser's result is '{got}', expected '{expect}' (relative to the unmutated file)"
    if in_property:
        ctx.violate(f"adv:{kind}", what, case)
    else:
        ctx.disagree(f"sp3 adversarial: stated behaviour of the real parser for {kind} ({expect})", case, expect, got)


TEXT_KINDS = list(EXPECT)


def model_variants(rng, c13):
    """(kind, file) — abstract files inside File.wf that the plain generator reaches rarely or never"""
    out = []
    # clock-only records: all three coordinates 0.000000, a valid clock
    F = c13.gen_model(rng, True, nsat=rng.randint(1, 6), nep=rng.randint(1, 3))
    hit = False
    for e in F["epochs"]:
        for r in e["recs"]:
            if rng.random() < 0.5 or not hit:
                r["x"] = r["y"] = r["z"] = 0
                r["clk"] = rng.choice([0, 1, -1, rng.randint(-999_999_000_000, 999_999_000_000), 999_999_999_998])
                hit = True
    out.append(("clock-only-record", F))
    # epochs without records (first, last, in the middle; at least one record stays in the file)
    F = c13.gen_model(rng, True, nsat=rng.randint(1, 4), nep=rng.randint(2, 6))
    keep = rng.randrange(len(F["epochs"]))
    hit = False
    for k, e in enumerate(F["epochs"]):
        if k != keep and (rng.random() < 0.6 or not hit):
            e["recs"] = []
            hit = True
    out.append(("zero-record-epoch", F))
    # SP3-d: any number of comment lines
    F = c13.gen_model(rng, True, version="d", nsat=rng.randint(1, 4), nep=rng.randint(1, 2), ncomments=rng.choice([0, 1, 9, 40, 150]))
    out.append(("many-comments", F))
    # more than 85 satellites: several + continuation lines, ++ lines accordingly
    F = c13.gen_model(rng, True, nsat=rng.choice([86, 102, 103, 120, 171]), nep=1)
    out.append(("over-85-satellites", F))
    # every constellation letter of SP3-d (G R E C J I S and L for LEO), and letters the standard does not list
    letters = list("GRECJISL") + rng.sample("ABDFHKMNOQTUWXYZ", 3) + ["P", "V"]     # 'P01', 'V01': PP01…, PV01… lines
    sats = [f"{c}{rng.randint(1, 99):02d}" for c in letters]
    F = c13.gen_model(rng, True, sats=sats, nep=rng.randint(1, 2))
    out.append(("all-constellation-letters", F))
    # comments that look like records, epoch lines, EOF
    F = c13.gen_model(rng, True, nsat=rng.randint(1, 4), nep=rng.randint(1, 3))
    looks = [" PG01  10138.887745 -20456.557725 -13455.830128     13.095853  7  6  4 137", " *  2021  1  1  0  0  0.00000000", " EOF", "EOF",
             "*  2021  1  1  0  0  0.00000000", "PG01  10138.887745", " %f  9.9999999  9.999999999", " #cP2016", "", " /* nested", "* "]
    extra = [("c", rng.choice(looks)) for _ in range(rng.randint(1, 5))]
    for x in extra:
        F["tail"].insert(rng.randint(0, len(F["tail"])), x)
    out.append(("comment-looks-like-data", F))
    # blank lines (extra kind "B" of the abstract file): after every other record, several in a row, among V / EP / EV lines, before EOF
    F = c13.gen_model(rng, True, nsat=rng.randint(1, 4), nep=rng.randint(1, 3))
    for e in F["epochs"]:
        for r in e["recs"]:
            for _ in range(rng.choice([0, 1, 1, 2, 4])):
                r["extras"].insert(rng.randint(0, len(r["extras"])), ("B", " " * rng.choice([0, 0, 1, 3, 5, 80])))
    F["epochs"][-1]["recs"][-1]["extras"].append(("B", " " * rng.choice([0, 2])))
    out.append(("blank-lines-after-records", F))
    return out


def run_adv(ctx, c13, impl, drv, rounds):
    rng = ctx.rng
    for _ in range(rounds):
        for kind, F in model_variants(rng, c13):
            ctx.count(f"adv: {kind}")
            c13.one_file(ctx, impl, drv, c13.file_of_model(F))
        # one base file per round, every text-level kind applied to it
        f = c13.gen_file(rng, True, nsat=rng.randint(1, 5), nep=rng.randint(1, 4))
        other = c13.gen_file(rng, True, nsat=2, nep=1)["text"].split("\n")
        other_header = other[:next(i for i, l in enumerate(other) if l.startswith("*"))]
        c13.one_file(ctx, impl, drv, f)                       # the unmutated file is judged by the generating-model oracle
        L = f["text"].split("\n")[:-1]
        h = next(i for i, l in enumerate(L) if l.startswith("*"))
        for kind in TEXT_KINDS:
            # every other file goes through the public entry parsers.parse_file("sp3", …), the others through the class
            text_case(ctx, c13, impl, drv, kind, mutate(rng, kind, L, h, other_header), f["text"], via_plugin=rng.random() < 0.5)


def replay_adv(c13, payload):
    c = payload.get("replay", payload)
    ctx = common.Ctx("C13", "quick", 0)
    impl = c13.Impl()
    try:
        kind = c["adv"]
        expect, in_property = EXPECT.get(kind, ("free", False))
        got, p, dres, msg = judge(c13, impl, c["file"], c["ref"], bool(c.get("via_plugin")))
        print("key:", payload.get("key"), "|", payload.get("what"))
        print(f"kind {kind}: real parser: {got}{' (' + msg + ')' if msg else ''}; stated: {expect}; property defines the result: {in_property}")
        a = ctx.driver.ask1(f"c13 text {hexs(c['file'])}")
        if a in ("RAISES", "bad-op") or p is None:
            print("model vs code:", "agree" if (a == "RAISES") == (p is None) else f"model {a[:20]}, code {'raises' if p is None else 'returns'}")
        else:
            print("model vs code:", c13.compare_model(ctx, c, p, dres, json.loads(a)) or "agree")
        if expect != "free" and got != expect:
            print("VIOLATION (replayed)" if in_property else "stated behaviour changed (replayed)")
            return 1
    finally:
        impl.cleanup()
        if ctx._driver:
            ctx._driver.close()
    return 0
