"""Fresh-interpreter side of the C16 check:  python c16_worker.py <repo> <mode>   (job as JSON on stdin)

mode parse: {"parser", "path", "kwargs"}      -> per-key digests of one parse in an interpreter that did nothing else
mode history: {"events": [...]}                -> the observations of c16_canon.exec_events in an interpreter that did nothing else
mode reg:   {"package", "names": [...]}        -> questions in order (`g:name` get, `l:name` load, `e:name` exists; a bare
                                                   name is a get): found flags + registered keys
mode forkserver: (no stdin job) imports the third-party packages midgard uses and the package midgard.parsers itself (no
                                                   plug-in module, nothing constructed or parsed), then serves jobs,
                                                   one JSON per line on stdin: {"id", "kind": "parse"|"history", …}.  Every job
                                                   runs in a forked child that imports midgard itself and exits; the answer is
                                                   one `@@RESULT@@{…}` line.  kind parse: {"parser","path","kwargs"} -> digests;
                                                   kind history: {"events": […]} -> the observations of c16_canon.exec_events
mode plughist: {"questions": {package: [names]}} -> list + resolve every name of the three plug-in packages, ask
                                                   exists()/get()/load() about names that are not plug-ins, list + resolve again
"""
import json
import sys

repo, mode = sys.argv[1], sys.argv[2]
sys.path.insert(0, str(__import__("pathlib").Path(__file__).resolve().parent.parent))
sys.path.insert(0, repo)
if mode == "forkserver":
    import os
    import signal

    for m in ("numpy", "pandas", "scipy", "scipy.interpolate", "pint", "dateutil", "dateutil.parser", "pytz", "pycurl",
              "colorama"):
        try:
            __import__(m)
        except Exception:
            pass
    # the front door of the library is imported once (what every interpreter does before its first parse): the package
    # midgard.parsers with the abstract parser classes; no plug-in module is loaded, no parser was ever constructed.
    # (job["cold"]: the child is forked from a process that has not imported midgard at all - used for the cross-check)
    if len(sys.argv) > 3 and sys.argv[3] == "cold":
        assert not any(k == "midgard" or k.startswith("midgard.") for k in sys.modules)
    else:
        import warnings

        warnings.simplefilter("ignore")
        from midgard import parsers as _front_door  # noqa
        from midgard.dev import plugins as _pl

        assert not _pl._PLUGINS.get("midgard.parsers"), "a parser plug-in was loaded by importing the package"
    sys.stdout.write("@@READY@@\n")
    sys.stdout.flush()
    for line in sys.stdin:
        line = line.strip()
        if not line:
            continue
        job = json.loads(line)
        r, w = os.pipe()
        pid = os.fork()
        if pid == 0:  # the fresh process: midgard has never been imported here
            try:
                os.close(r)
                dn = os.open(os.devnull, os.O_WRONLY)
                os.dup2(dn, 1)
                os.dup2(dn, 2)
                signal.alarm(int(job.get("timeout", 240)))
                from harness import c16_canon

                if job["kind"] == "parse":
                    res = c16_canon.run_parse(job["parser"], job["path"], job.get("kwargs"))[1]
                else:
                    res = [[i, list(k), d, what] for i, k, d, what in c16_canon.exec_events(job["events"])]
                out = json.dumps({"id": job.get("id"), "result": res})
            except BaseException as e:  # noqa
                out = json.dumps({"id": job.get("id"), "failure": f"{type(e).__name__}: {e}"})
            try:
                with os.fdopen(w, "w") as f:
                    f.write(out)
            finally:
                os._exit(0)
        os.close(w)
        with os.fdopen(r) as f:
            out = f.read()
        os.waitpid(pid, 0)
        if not out:
            out = json.dumps({"id": job.get("id"), "failure": "child died without an answer"})
        sys.stdout.write("@@RESULT@@" + out + "\n")
        sys.stdout.flush()
    sys.exit(0)
job = json.loads(sys.stdin.read())
if mode == "parse":
    from harness import c16_canon

    _, dig = c16_canon.run_parse(job["parser"], job["path"], job.get("kwargs"))
    sys.stdout.write("\n@@RESULT@@" + json.dumps(dig) + "\n")
elif mode == "history":
    from harness import c16_canon

    res = [[i, list(k), d, what] for i, k, d, what in c16_canon.exec_events(job["events"])]
    sys.stdout.write("\n@@RESULT@@" + json.dumps(res) + "\n")
elif mode == "reg":
    import contextlib
    import io
    import warnings

    warnings.simplefilter("ignore")
    from midgard.dev import plugins

    found = []
    with contextlib.redirect_stdout(io.StringIO()):
        for q in job["names"]:
            kind, n = (q[0], q[2:]) if q[:2] in ("g:", "l:", "e:") else ("g", q)
            try:
                if kind == "e":
                    found.append(bool(plugins.exists(job["package"], n)))
                elif kind == "l":
                    plugins.load(job["package"], n)
                    found.append(True)
                else:
                    plugins.get(job["package"], n)
                    found.append(True)
            except Exception:
                found.append(False)
    keys = sorted(k for k in plugins._PLUGINS.get(job["package"], {}).keys())
    sys.stdout.write("\n@@RESULT@@" + json.dumps({"found": found, "keys": keys}) + "\n")
elif mode == "prefixhist":
    # {"package", "steps": [[route, short, prefix], ...], "file": path}: list the package, resolve the short names through the
    # public routes with the given prefixes in order (l load, g get, c call, n names(plugins=[short], prefix), e exists(short)),
    # list again.  Every answer is the module the request ended in (or "error:<class>" / a bool for e).
    import contextlib
    import io
    import warnings

    warnings.simplefilter("ignore")
    from midgard.dev import plugins

    pkg = job["package"]
    out = []
    with contextlib.redirect_stdout(io.StringIO()):
        before = list(plugins.names(pkg))
        for route, short, prefix in job["steps"]:
            try:
                if route == "l":
                    ans = plugins.load(pkg, short, prefix=prefix)
                elif route == "g":
                    ans = plugins.get(pkg, short, prefix=prefix).function.__module__.rsplit(".", 1)[-1]
                elif route == "n":
                    ans = ",".join(plugins.names(pkg, plugins=[short], prefix=prefix))
                elif route == "e":
                    ans = bool(plugins.exists(pkg, short))
                else:
                    obj = plugins.call(pkg, short, prefix=prefix, file_path=job["file"], encoding=None)
                    ans = "class:" + type(obj).__module__.rsplit(".", 1)[-1] + "." + type(obj).__name__
            except BaseException as e:  # noqa
                ans = "error:" + type(e).__name__
            out.append(ans)
        after = list(plugins.names(pkg))
        # what a request by full name constructs (asked last, so that it cannot help the requests above)
        full = {}
        for route, short, prefix in job["steps"]:
            if route == "c":
                try:
                    obj = plugins.call(pkg, f"{prefix}_{short}", file_path=job["file"], encoding=None)
                    full[f"{prefix}_{short}"] = "class:" + type(obj).__module__.rsplit(".", 1)[-1] + "." + type(obj).__name__
                except BaseException as e:  # noqa
                    full[f"{prefix}_{short}"] = "error:" + type(e).__name__
    sys.stdout.write("\n@@RESULT@@" + json.dumps({"before": before, "after": after, "answers": out, "by_full_name": full}) + "\n")
elif mode == "plughist":
    import contextlib
    import inspect
    import io
    import warnings

    warnings.simplefilter("ignore")
    import numpy as np

    from midgard import parsers, writers
    from midgard.data import fieldtypes
    from midgard.data.fieldtypes._fieldtype import FieldType
    from midgard.dev import plugins

    LISTERS = {"midgard.parsers": parsers.names, "midgard.writers": writers.names, "midgard.data.fieldtypes": fieldtypes.names}

    def survey():
        listing, unresolved = {}, []
        for pkg, lister in LISTERS.items():
            try:
                listing[pkg] = list(lister())
            except Exception as e:
                listing[pkg] = []
                unresolved.append([pkg, "names()", f"{type(e).__name__}: {e}"])
            for n in listing[pkg]:
                try:
                    fn = plugins.get(pkg, n).function
                    if pkg == "midgard.parsers":
                        ok = (inspect.isclass(fn) and issubclass(fn, parsers.Parser)) or inspect.isfunction(fn)
                    elif pkg == "midgard.writers":
                        ok = inspect.isfunction(fn)
                    else:
                        ok = inspect.isclass(fn) and issubclass(fn, FieldType) and fieldtypes.function(n) is fn
                    if not ok:
                        unresolved.append([pkg, n, f"resolves to {fn!r}"])
                except Exception as e:
                    unresolved.append([pkg, n, f"{type(e).__name__}: {e}"])
        try:  # what Dataset does for an untyped field: walks the listed field types
            fieldtypes.fieldtype(np.array([1.0, 2.0]))
        except Exception as e:
            unresolved.append(["midgard.data.fieldtypes", "fieldtype(array)", f"{type(e).__name__}: {e}"])
        return listing, unresolved

    with contextlib.redirect_stdout(io.StringIO()):
        l0, u0 = survey() if job.get("survey_first", True) else ({}, [])
        answers = []
        for pkg, qs in job["questions"].items():
            for q in qs:
                kind, n = q[0], q[2:]
                try:
                    if kind == "e":
                        answers.append([pkg, q, bool(plugins.exists(pkg, n))])
                    elif kind == "l":
                        plugins.load(pkg, n)
                        answers.append([pkg, q, True])
                    else:
                        plugins.get(pkg, n)
                        answers.append([pkg, q, True])
                except Exception as e:
                    answers.append([pkg, q, False])
        l1, u1 = survey()
    sys.stdout.write("\n@@RESULT@@" + json.dumps({"before": l0, "unresolved_before": u0, "answers": answers,
                                                  "after": l1, "unresolved_after": u1}) + "\n")
