"""Fresh-interpreter side of the C16 check:  python c16_worker.py <repo> <mode>   (job as JSON on stdin)

mode parse: {"parser", "path", "kwargs"}      -> per-key digests of one parse in an interpreter that did nothing else
mode reg:   {"package", "names": [...]}        -> plugins.get of the names in order: found flags + registered keys
"""
import json
import sys

repo, mode = sys.argv[1], sys.argv[2]
sys.path.insert(0, str(__import__("pathlib").Path(__file__).resolve().parent.parent))
sys.path.insert(0, repo)
job = json.loads(sys.stdin.read())
if mode == "parse":
    from harness import c16_canon

    _, dig = c16_canon.run_parse(job["parser"], job["path"], job.get("kwargs"))
    sys.stdout.write("\n@@RESULT@@" + json.dumps(dig) + "\n")
elif mode == "reg":
    import contextlib
    import io
    import warnings

    warnings.simplefilter("ignore")
    from midgard.dev import plugins

    found = []
    with contextlib.redirect_stdout(io.StringIO()):
        for n in job["names"]:
            try:
                plugins.get(job["package"], n)
                found.append(True)
            except Exception:
                found.append(False)
    keys = sorted(k for k in plugins._PLUGINS.get(job["package"], {}).keys())
    sys.stdout.write("\n@@RESULT@@" + json.dumps({"found": found, "keys": keys}) + "\n")
