"""C10 — writing a Dataset to disk and reading it back is the identity.

prove:       lean/Midgard/Props/C10.lean (attribute codec round trip; write/read over an abstract store)
correspond:  generated datasets are written with the real Dataset.write through real h5py into a
             temporary directory, read back with Dataset.read and rendered; the compiled model
             (drv_c10) writes the same dataset into its abstract store, reads it back and renders it;
             the attribute codec is compared value by value (decode(encode(m)))
oracle:      stated directly on the real code: the dataset read back equals the original restricted
             to the fields of the requested level (types, values bit for bit, units, levels, nesting,
             which field an attached object is), meta equals meta
"""
from __future__ import annotations

import contextlib
import io
import json
import math
import os
import shutil
import tempfile
from fractions import Fraction

import numpy as np

from . import common
from .common import Ctx, rs, hexs, frac
from .c09_world import (RealWorld, op_tokens, render_fields, units_token, obj_op, add_op, describe, rows_token,
                        POSCOLS, KINDS, LEVELS, tagged_vals)

TRICKY = ["nan", "inf", "-inf", "a nan b", "x inf", "it's", 'say "hi"', " lead", "", "None", "True", "[1, 2]",
          "str x", "list [1]", "nan,inf", "tuple ()", "back\\slash", "{'k': 1}", "naninf", "-inf-", "abc", "Å?" ]
# the words the decoder dispatches on (`attr.partition(" ")`), alone, with a blank, with something after the blank
TRICKY += ["list", "tuple", "set", "dict", "str", "list ", "str ", "set()", "dict()", "tuple()", "list()", "int 3", "float", "bool",
           "dict {'a': 1}", "set x", " str", "str  two"]
TRICKY = [t for t in TRICKY if all(ord(c) < 128 for c in t)]


# ---------------------------------------------------------------------------------------------
# meta trees  <->  tokens


def gen_atom(rng, hashable=False, allow_none=True):
    k = rng.random()
    if k < 0.25:
        return rng.choice([0, 1, -1, 7, -12, 10**12, 255])
    if k < 0.45:
        return rng.choice([0.5, -2.25, 1e-3 * 8, 3.0, -0.125, 1e10])
    if k < 0.55 and not hashable:
        return rng.choice([float("nan"), float("inf"), -float("inf")])
    if k < 0.6 and hashable:
        return rng.choice([float("inf"), -float("inf")])
    if k < 0.85:
        return rng.choice(TRICKY)
    if k < 0.93:
        return rng.choice([True, False])
    return None if allow_none and not hashable else "none?"


def gen_meta(rng, depth=3, top=True):
    k = rng.random()
    if depth == 0 or k < 0.3:
        return gen_atom(rng, allow_none=not top)
    n = rng.choice([0, 0, 1, 2, 3])
    if k < 0.5:
        return [gen_meta(rng, depth - 1, False) for _ in range(n)]
    if k < 0.65:
        return tuple(gen_meta(rng, depth - 1, False) for _ in range(n))
    if k < 0.78:
        out = set()
        for _ in range(n):
            a = gen_atom(rng, hashable=True)
            if not any(_same(a, b) for b in out) and a not in out:
                out.add(a)
        return out
    d = {}
    for _ in range(n):
        key = gen_atom(rng, hashable=True) if rng.random() < 0.8 else (gen_atom(rng, True), gen_atom(rng, True))
        if key in d:
            continue
        d[key] = gen_meta(rng, depth - 1, False)
    return d


def atom_tok(x):
    if x is None:
        return "none"
    if isinstance(x, (bool, np.bool_)):
        return "bT" if x else "bF"
    if isinstance(x, (int, np.integer)):
        return f"i{int(x)}"
    if isinstance(x, (float, np.floating)):
        x = float(x)
        if x != x:
            return "nan"
        if x == math.inf:
            return "inf"
        if x == -math.inf:
            return "ninf"
        return "f" + rs(Fraction(x))
    if isinstance(x, str):
        return "s" + hexs(x)
    return "?" + type(x).__name__


def meta_tokens(m) -> list:
    if isinstance(m, list):
        return ["L", str(len(m))] + [t for x in m for t in meta_tokens(x)]
    if isinstance(m, tuple):
        return ["T", str(len(m))] + [t for x in m for t in meta_tokens(x)]
    if isinstance(m, (set, frozenset)):
        items = sorted((meta_tokens(x) for x in m), key=lambda t: " ".join(t))
        return ["S", str(len(m))] + [t for x in items for t in x]
    if isinstance(m, dict):
        return ["D", str(len(m))] + [t for k, v in m.items() for t in meta_tokens(k) + meta_tokens(v)]
    return [atom_tok(m)]


def _same(a, b) -> bool:
    """value *and* type equality of meta trees (NaN equals NaN; 1 is not True is not 1.0)"""
    if isinstance(a, (list, tuple)):
        return type(a) is type(b) and len(a) == len(b) and all(_same(x, y) for x, y in zip(a, b))
    if isinstance(a, (set, frozenset)):
        return isinstance(b, (set, frozenset)) and sorted(" ".join(meta_tokens(x)) for x in a) == sorted(" ".join(meta_tokens(x)) for x in b)
    if isinstance(a, dict):
        return isinstance(b, dict) and len(a) == len(b) and all(_same(k1, k2) and _same(v1, v2) for (k1, v1), (k2, v2) in zip(a.items(), b.items()))
    return atom_tok(a) == atom_tok(b)


# ---------------------------------------------------------------------------------------------
# datasets


def text_vals(rng, n, ndim, cols):
    pick = lambda: rng.choice(TRICKY + ["r" + str(rng.randint(0, 99))])
    return [pick() if ndim == 1 else [pick() for _ in range(cols)] for _ in range(n)]


def gen_dataset_ops(rng):
    """set-up operations (C09 protocol) of one dataset with all field types, levels, nesting and
    reference topologies: other / ref_pos -> earlier field / later field / field in a collection / field below the
    write level / anonymous / anonymous shared by several fields (positions and deltas alike) / chains of those
    (an anonymous object whose own other is a field, another anonymous object, a shared one), to depth 3"""
    ops = []
    nobj = [0]

    def obj(*a, **kw):
        ops.append(obj_op(*a, **kw))
        nobj[0] += 1
        return ("o", nobj[0] - 1)

    n = rng.choice([0, 1, 2, 3, 4, 5, 6])
    tags = list(range(n))
    ops.append({"op": "new", "d": 0, "n": n})
    names = ["a", "b", "c", "d", "e", "f", "g", "h", "i", "j"]
    rng.shuffle(names)
    for c in ("g1", "g3"):
        if rng.random() < 0.3:
            ops.append({"op": "addcoll", "d": 0, "path": c, "level": rng.choice([1, 2, 3])})
    nfields = rng.randint(1, 7)
    pos_objs = {"position": [], "posvel": []}      # objects that are (or will be) the array of a field
    time_objs = []                                   # time fields: the attribute machinery is generic, a position's
                                                     # `other` may be a time (the "position's time" of the statement)
    anon_times = []
    anon_objs = {"position": [], "posvel": []}     # anonymous attachments made so far (may be shared, may be chained)
    pending = []                                     # fields whose object is created now but added later (forward refs)
    shared_anon = {"position": None, "posvel": None}

    def anon(kind, i, depth=0):
        """a new anonymous object; sometimes its own `other` is a field or another anonymous object (a chain)"""
        inner = None
        r = rng.random()
        if depth < 2 and r < 0.2 and pos_objs[kind]:
            inner = rng.choice(pos_objs[kind])
        elif depth < 2 and r < 0.35 and anon_objs[kind]:
            inner = rng.choice(anon_objs[kind])
        elif depth < 2 and r < 0.45:
            inner = anon(kind, i, depth + 1)
        o = obj(kind, 2, POSCOLS[kind], tags, 40 + i + 7 * depth, other=inner)
        anon_objs[kind].append(o)
        return o

    def shared(kind):
        if shared_anon[kind] is None:
            shared_anon[kind] = anon(kind, 30)       # anonymous, shared by several fields
        return shared_anon[kind]

    if rng.random() < 0.08:
        # a time field inside a collection that is read first, and positions (top level, same collection, later
        # collection) whose attached time it is: the name `g1.x` gets into the read memo only by `TimeBase._read`
        tv = obj("time", 1, 1, tags, 64)
        ops.append(add_op(0, rng.choice(["g1.", "g1.g2.", "g3."]) + names[-1], "time", tv, unit=None, level=3))
        time_objs.append(tv)
        for j, w in enumerate(rng.sample(["", "g1.", "g3.", "g1.g2."], rng.choice([1, 2]))):
            kind = rng.choice(["position", "posvel"])
            pv = obj(kind, 2, POSCOLS[kind], tags, 65 + j, other=tv)
            ops.append(add_op(0, w + names[-2 - j], kind, pv, unit=None, level=rng.choice([2, 3])))
            pos_objs[kind].append(pv)
    elif rng.random() < 0.08:
        # a reference to a later field whose own attachment is an anonymous object embedded in a field in between:
        # the read meets the embedded group after it has read it through the reference by name
        kind = rng.choice(["position", "posvel"])
        cols = POSCOLS[kind]
        x = shared(kind)
        vb = obj(kind, 2, cols, tags, 61, other=x)
        va = obj(kind, 2, cols, tags, 62, other=vb)
        vc = obj(kind, 2, cols, tags, 63, other=x)
        hi = rng.choice([2, 3])
        ops.append(add_op(0, rng.choice(["", "g1."]) + names[-1], kind, va, unit=None, level=hi))
        ops.append(add_op(0, rng.choice(["", "g3."]) + names[-2], kind, vc, unit=None, level=hi))
        pending.append(add_op(0, rng.choice(["", "g1.g2."]) + names[-3], kind, vb, unit=None, level=hi))
        pos_objs[kind] += [va, vb, vc]
    for i in range(nfields):
        nm = names[i]
        where = rng.choice(["", "", "", "g1.", "g1.g2.", "g3."])
        kind = rng.choice(KINDS)
        ndim, cols = 1, 1
        if kind in ("float", "bool", "text", "sigma") and rng.random() < 0.3:
            ndim, cols = 2, rng.choice([1, 2, 3])
        if kind in POSCOLS:
            ndim, cols = 2, POSCOLS[kind]
        level = rng.choice([1, 2, 3])
        unit = rng.choice([None, "byte", "ounce"]) if kind in ("float", "sigma") else None
        other = ref_pos = None
        if kind in ("position", "posvel"):
            r = rng.random()
            cands = pos_objs[kind]
            if r < 0.4 and cands:
                other = rng.choice(cands)                                   # a field (earlier, or later if pending)
            elif 0.4 <= r < 0.48 and time_objs:
                other = rng.choice(time_objs)                               # a time field
            elif 0.48 <= r < 0.51:
                if not anon_times or rng.random() < 0.5:
                    anon_times.append(obj("time", 1, 1, tags, 80 + i))
                other = rng.choice(anon_times)                              # an anonymous time, maybe shared
            elif r < 0.55:
                other = anon(kind, i)                                       # anonymous (maybe the head of a chain)
            elif r < 0.75:
                other = shared(kind)                                        # anonymous, shared by several fields
        if kind in ("position_delta", "posvel_delta"):
            rk = "position" if kind == "position_delta" else "posvel"
            cands = pos_objs[rk]
            r = rng.random()
            if cands and r < 0.5:
                ref_pos = rng.choice(cands)
            elif r < 0.7:
                ref_pos = shared(rk)
            else:
                ref_pos = anon(rk, i)
        if kind == "text":
            o = {"op": "obj", "kind": "text", "ndim": ndim, "cols": cols, "vals": text_vals(rng, n, ndim, cols)}
            ops.append(o)
            nobj[0] += 1
            val = ("o", nobj[0] - 1)
        elif kind in ("float", "sigma") and rng.random() < 0.3:
            # zeros and signed zeros (an all-zero array, a negative zero among zeros / among other values), NaN
            pool = rng.choice([[0.0, -0.0], [0.0], [-0.0], [-0.0, 0.0, 1.5], [0.0, -0.0, float("nan")], [-0.0, 5e-324]])
            pick = lambda: rng.choice(pool)
            if kind == "float":
                vals = [pick() if ndim == 1 else [pick() for _ in range(cols)] for _ in range(n)]
            elif ndim == 1:
                vals = [[pick(), pick()] for _ in range(n)]
            else:
                vals = [[[pick() for _ in range(cols)], [pick() for _ in range(cols)]] for _ in range(n)]
            ops.append({"op": "obj", "kind": kind, "ndim": ndim, "cols": cols, "vals": vals})
            nobj[0] += 1
            val = ("o", nobj[0] - 1)
        else:
            val = obj(kind, ndim, cols, tags, i + 1, other=other, ref_pos=ref_pos)
        a = add_op(0, where + nm, kind, val, unit=unit, level=level)
        if kind in ("position", "posvel", "time"):
            (time_objs if kind == "time" else pos_objs[kind]).append(val)
            if rng.random() < 0.3:
                pending.append(a)        # added at the end: earlier fields refer to a field that comes later
                continue
        ops.append(a)
    rng.shuffle(pending)
    ops.extend(pending)
    adds = [o for o in ops if o["op"] == "add" and o["kind"] != "text"]   # (add_text copies the array it is given)
    if adds and rng.random() < 0.12:
        # one array object held by two or three fields (the file holds the array once, under the last of them; the
        # other groups name that field: `same_as`); the extra fields come after, before or in between
        a0 = rng.choice(adds)
        used = {o["path"].split(".")[-1] for o in ops if o["op"] == "add"}
        free = [x for x in names if x not in used]          # (a name already in use would silently re-use that field)
        for k in range(min(rng.choice([1, 1, 2]), len(free))):
            extra = add_op(0, rng.choice(["", "g1.", "g3.", "g1.g2."]) + free[k], a0["kind"], ["f", 0, a0["path"]],
                           unit=a0.get("unit"), level=rng.choice([1, 2, 3, 3]))
            j = ops.index(a0) + 1
            ops.insert(rng.choice([j, len(ops), rng.randint(j, len(ops))]), extra)
    for o in ops:
        o["setup"] = True
    return ops


# ---------------------------------------------------------------------------------------------
# the oracle's own rendering: attachments that are a field are named by that field


def field_index(fields, pre=""):
    out = []
    for name, f in fields.items():
        if f.fieldtype == "collection":
            out += field_index(f.data._fields, pre + name + ".")
        else:
            out.append((pre + name, f))
    return out


def extras(o) -> str:
    from midgard.data._time import TimeBase
    from midgard.data._position import PosBase

    if isinstance(o, TimeBase):
        return f"{o.scale}/{o.fmt}/" + ",".join(_valtok(x) for x in np.atleast_1d(np.asarray(o)).tolist())
    if isinstance(o, PosBase):
        ell = getattr(o, "ellipsoid", None)       # the delta classes have no ellipsoid of their own
        return f"{o.system}/{getattr(ell, 'name', '-')}"
    if isinstance(o, np.ndarray) and o.dtype.kind == "U":
        return str(o.dtype)                       # the width of a text array is part of its type
    return ""


def _valtok(x):
    try:
        return atom_tok(x)
    except Exception:
        return repr(x)


def _register_time():
    """`time` is an attachment of positions that users of the library register (midgard itself registers only `other`)"""
    from midgard.data._position import PositionArray, PosVelArray, register_attribute

    for c in (PositionArray, PosVelArray):
        if "time" not in c._attributes():
            register_attribute(c, "time")


def bits_of(o) -> str:
    """the bit patterns of the numbers of an array object (IEEE doubles: the sign of a zero and the payload of a NaN
    are part of the value)"""
    kind = describe(o)[0]
    if kind in ("bool", "text"):
        return ""
    if kind in ("time", "time_delta"):
        parts = [np.atleast_1d(np.asarray(o.jd1, dtype=float)), np.atleast_1d(np.asarray(o.jd2, dtype=float))]
    elif kind == "sigma":
        parts = [np.asarray(o, dtype=float), np.asarray(o.sigma, dtype=float)]
    else:
        parts = [np.asarray(o, dtype=float)]
    return "/".join(np.ascontiguousarray(a, dtype=np.float64).tobytes().hex() for a in parts)


def words_of(o) -> str:
    """the rows of an array object as IEEE-754 words (decimal), in the model's row layout: a float / position row is its
    columns, a sigma row the values followed by the sigmas, a time row jd1, jd2; `-` for text and booleans"""
    kind = describe(o)[0]
    if kind in ("bool", "text"):
        return "-"
    if len(o) == 0:
        return "[]"
    if kind in ("time", "time_delta"):
        cols = [np.atleast_1d(np.asarray(o.jd1, dtype=np.float64)), np.atleast_1d(np.asarray(o.jd2, dtype=np.float64))]
        mat = np.stack(cols, axis=1) if len(cols[0]) else np.zeros((0, 2))
    elif kind == "sigma":
        a, sg = np.asarray(o, dtype=np.float64), np.asarray(o.sigma, dtype=np.float64)
        a, sg = a.reshape(len(a), -1), sg.reshape(len(sg), -1)
        mat = np.concatenate([a, sg], axis=1)
    else:
        a = np.asarray(o, dtype=np.float64)
        mat = a.reshape(len(a), -1) if a.ndim >= 1 else a.reshape(1, -1)
    mat = np.ascontiguousarray(mat, dtype=np.float64)
    if mat.shape[0] == 0:
        return "[]"
    w = mat.view(np.uint64)
    return ";".join(",".join(str(int(x)) for x in r) for r in w)


def walk_objects(fields) -> list:
    """the array objects in the order the model's walk meets them: fields in order (collections recursively), an array,
    then its `other` (position, posvel), then its `ref_pos` (deltas); every object once"""
    seen, out = set(), []

    def visit(o):
        if id(o) in seen:
            return
        seen.add(id(o))
        out.append(o)
        kind = describe(o)[0]
        if kind in ("position", "posvel") and getattr(o, "other", None) is not None:
            visit(o.other)
        if kind in ("position_delta", "posvel_delta") and getattr(o, "ref_pos", None) is not None:
            visit(o.ref_pos)

    def rec(fs):
        for f in fs.values():
            if f.fieldtype == "collection":
                rec(f.data._fields)
            else:
                visit(f.data)
    rec(fields)
    return out


def oracle_obj(o, idx, top=True, anon=None) -> str:
    """an attached object that is a field is named by the field; an anonymous one is numbered in order of
    first appearance, so that two fields sharing an anonymous object must share it after the round trip"""
    anon = [] if anon is None else anon
    label = ""
    if not top:
        for path, f in idx:
            if f.data is o:
                return "@" + path
        for i, a in enumerate(anon):
            if a is o:
                return f"&{i}"
        anon.append(o)
        label = f"&{len(anon) - 1}"
    kind, ndim, cols, rows = describe(o)
    oth = getattr(o, "other", None) if kind in ("position", "posvel") else None
    rp = getattr(o, "ref_pos", None) if kind in ("position_delta", "posvel_delta") else None
    tm = getattr(o, "time", None) if kind in ("position", "posvel") else None
    so = oracle_obj(oth, idx, False, anon) if oth is not None else "-"
    sr = oracle_obj(rp, idx, False, anon) if rp is not None else "-"
    st = oracle_obj(tm, idx, False, anon) if tm is not None else "-"
    return f"{label}{{{kind};{ndim};{cols};{extras(o)};{rows_token(rows)};bits={bits_of(o)}|o={so}|r={sr}|t={st}}}"


def oracle_fields(fields, idx, level=0, anon=None, pre="") -> list:
    anon = [] if anon is None else anon
    out = []
    for name, f in fields.items():
        if int(f._write_level) < level:
            continue
        if f.fieldtype == "collection":
            out.append(("C", name, int(f._write_level), oracle_fields(f.data._fields, idx, level, anon, pre + name + ".")))
        else:
            u = "-" if f._unit is None else "+".join(f._unit)
            # which array object the field holds: the first written field that holds the very same object
            first = next(path for path, g in idx if g.data is f.data)
            out.append(("L", name, f.fieldtype, len(f.data), u, int(f._write_level), int(f.multiplier),
                        oracle_obj(f.data, idx, True, anon), "own" if first == pre + name else "is " + first))
    return out


def embedded_depth(ds, level) -> int:
    """how deep attachments are nested that are not themselves written fields (they are embedded in the
    group of the field that refers to them)"""
    written = {id(f.data) for _, f in restricted_index(ds, level)}

    def depth(o):
        best = 0
        for att in ("other", "ref_pos", "time"):
            a = getattr(o, att, None) if hasattr(o, "cls_name") else None
            if a is not None and id(a) not in written:
                best = max(best, 1 + depth(a))
        return best
    return max([depth(f.data) for _, f in restricted_index(ds, level)] + [0])


def restricted_index(ds, level):
    """fields (recursively) that are written at this level"""
    def rec(fields, pre):
        out = []
        for name, f in fields.items():
            if int(f._write_level) < level:
                continue
            if f.fieldtype == "collection":
                out += rec(f.data._fields, pre + name + ".")
            else:
                out.append((pre + name, f))
        return out
    return rec(ds._fields, "")


def topology(ds, level) -> set:
    """which reference topologies this dataset has (from the real objects, independent of the model): for every
    written field with an attachment, what the attached object is"""
    idx = restricted_index(ds, level)
    pos = {id(f.data): (i, p) for i, (p, f) in enumerate(idx)}
    omitted = {id(f.data) for _, f in field_index(ds._fields)} - set(pos)
    out = set()
    seen_anon = {}

    def atts_of(o):
        kind = describe(o)[0]
        if kind in ("position", "posvel"):
            return [("other", getattr(o, "other", None)), ("time-attribute", getattr(o, "time", None))]
        if kind in ("position_delta", "posvel_delta"):
            return [("ref_pos", getattr(o, "ref_pos", None))]
        return []

    def walk(o, i, depth):
        for name, a in atts_of(o):
            walk1(name, a, i, depth)

    def walk1(name, a, i, depth):
        if a is None:
            if name != "time-attribute":
                out.add(f"{name}=None")
            return
        if describe(a)[0] == "time":
            name += "(a time)"
        pre = f"{name}->" if depth == 0 else f"chain(depth {min(depth + 1, 3)}):{name}->"
        if id(a) in pos:
            j, p = pos[id(a)]
            out.add(pre + ("earlier" if j < i else "later" if j > i else "same") + (" nested field" if "." in p else " top-level field"))
            return
        if id(a) in omitted:
            out.add(pre + "field below the write level (written as an anonymous object)")
        if id(a) in seen_anon:
            out.add(pre + "anonymous object shared with " + ("an earlier field" if seen_anon[id(a)] != i else "the same field"))
            return
        seen_anon[id(a)] = i
        out.add(pre + "anonymous object")
        walk(a, i, depth + 1)

    for i, (p, f) in enumerate(idx):
        if "." in p:
            out.add("field in a collection")
        walk(f.data, i, 0)
    if len(idx) < len(field_index(ds._fields)):
        out.add("some field omitted by the level")
    return out


LABELS = {"L": ["", "name", "fieldtype", "rows", "unit", "write_level", "multiplier", "contents", "array-object"],
          "C": ["", "name", "collection-write_level", "fields"]}


def first_diff(a, b, where=""):
    """(key, text) of the first difference between what was read (a) and what was written (b)"""
    if isinstance(a, tuple) and a and a[0] in LABELS and isinstance(b, tuple) and b and b[0] == a[0] and len(a) == len(b):
        for i, (x, y) in enumerate(zip(a, b)):
            if i == 3 and a[0] == "C":
                d = first_diff(x, y, f"{where}{a[1]}.")
                if d:
                    return d
            elif x != y:
                lab = LABELS[a[0]][i]
                if lab == "contents":
                    # the array itself, or something attached to it?
                    lab = "attachment" if x.split("|o=", 1)[0] == y.split("|o=", 1)[0] else "values"
                    k = next((j for j, (p, q) in enumerate(zip(x, y)) if p != q), 0)
                    x, y = "…" + x[max(0, k - 60):k + 140], "…" + y[max(0, k - 60):k + 140]
                return lab, f"{where}{a[1]}: {lab} read back {str(x)[:200]!r}, written {str(y)[:200]!r}"
        return None
    if isinstance(a, list) and isinstance(b, list):
        na, nb = [x[1] for x in a], [x[1] for x in b]
        if na != nb or [x[0] for x in a] != [x[0] for x in b]:
            return "fields", f"{where or 'dataset'}: fields read back {na}, written {nb}"
        for x, y in zip(a, b):
            d = first_diff(x, y, where)
            if d:
                return d
        return None
    if isinstance(a, tuple) and isinstance(b, tuple) and len(a) == 2 and len(b) == 2:   # (num_obs, fields)
        if int(a[0]) != int(b[0]):
            return "num_obs", f"num_obs read back {a[0]}, written {b[0]}"
        return first_diff(a[1], b[1], where)
    return None if a == b else ("structure", f"{where}: {str(a)[:160]!r} vs {str(b)[:160]!r}")


# ---------------------------------------------------------------------------------------------


def render_ds(ds) -> str:
    return f"D0({ds.num_obs};[{render_fields(ds._fields, [])}])"


def render_obj_x(o, seen: list) -> str:
    """as c09_world.render_obj, with the `time` attached to a position / posvel (the model's renderObjX)"""
    for i, x in enumerate(seen):
        if x is o:
            return f"#{i}"
    k = len(seen)
    seen.append(o)
    kind, ndim, cols, rows = describe(o)
    oth = getattr(o, "other", None) if kind in ("position", "posvel") else None
    rp = getattr(o, "ref_pos", None) if kind in ("position_delta", "posvel_delta") else None
    tm = getattr(o, "time", None) if kind in ("position", "posvel") else None
    so = render_obj_x(oth, seen) if oth is not None else "-"
    sr = render_obj_x(rp, seen) if rp is not None else "-"
    st = render_obj_x(tm, seen) if tm is not None else "-"
    return f"#{k}{{{kind};{ndim};{cols};{rows_token(rows)}|o={so}|r={sr}|t={st}}}"


def render_fields_x(fields: dict, seen: list) -> str:
    out = []
    for name, f in fields.items():
        if f.fieldtype == "collection":
            out.append(f"C({name};{f.num_obs};{int(f._write_level)};[{render_fields_x(f.data._fields, seen)}])")
        else:
            u = "-" if f._unit is None else "+".join(f._unit)
            out.append(f"L({name};{f.fieldtype};{f.num_obs};{u};{int(f._write_level)};{render_obj_x(f.data, seen)})")
    return ",".join(out)


def scribble(m, depth=0) -> bool:
    """modify every mutable container of a meta tree in place (what a caller working on a dataset it has read may do);
    returns whether anything could be modified"""
    did = False
    if isinstance(m, list):
        for x in m:
            did |= scribble(x, depth + 1)
        m.append("scribbled")
        did = True
    elif isinstance(m, dict):
        for x in list(m.values()):
            did |= scribble(x, depth + 1)
        m["scribbled"] = 1
        did = True
    elif isinstance(m, set):
        m.add("scribbled")
        did = True
    elif isinstance(m, tuple):
        for x in m:
            did |= scribble(x, depth + 1)
    return did


def reread_history(ctx: Ctx, ds, e, path, level, meta, case):
    """the file is the truth: what the caller does to a dataset it has read (or to the one it wrote) must not show in
    a later read of the unchanged file (write -> read -> modify the result in place -> read)"""
    from midgard.data import dataset

    idx_w = restricted_index(ds, level)
    want = (ds.num_obs, oracle_fields(ds._fields, idx_w, level))
    did = False
    for k in list(e.meta.keys()):
        try:
            did |= scribble(e.meta[k])
        except Exception:
            pass
    try:
        e.meta.add_event(e, "verif", "scribbled into the events of the dataset read")
        did = True
    except Exception:
        pass
    # numeric rows of the result are overwritten where the arrays allow it
    for f in list(e._fields.values()):
        try:
            a = np.asarray(f.data)
            if a.dtype.kind == "f" and a.size and a.flags.writeable:
                a[...] = -12345.0
                did = True
        except Exception:
            pass
    if not did:
        return
    ctx.count("history:read-modify-read")
    with contextlib.redirect_stdout(io.StringIO()):
        try:
            e2 = dataset.Dataset.read(path)
        except Exception as ex:
            ctx.violate("reread:raises:" + _site(ex), f"second Dataset.read of the unchanged file raised {type(ex).__name__}: {ex}", case)
            return
    got = (e2.num_obs, oracle_fields(e2._fields, field_index(e2._fields), 0))
    d = first_diff(got, want)
    if d:
        ctx.violate("reread:" + d[0], "a second read of the unchanged file, after the first result was modified in place, differs "
                    "from what was written: " + d[1], {**case, "history": "write,read,modify-result,read"})
        return
    for k, v in meta.items():
        if k not in e2.meta or not _same_meta_file(v, e2.meta[k]):
            ctx.violate("reread:meta", f"meta {k!r}: wrote {v!r}; after modifying the first result in place a second read of the "
                        f"unchanged file gives {e2.meta.get(k)!r}", {**case, "history": "write,read,modify-result,read"})
            return
    ev = e2.meta.get("__events__") if hasattr(e2.meta, "get") else None
    if ev and "scribbled" in repr(ev):
        ctx.violate("reread:events", "events added to the first result show in a second read of the unchanged file",
                    {**case, "history": "write,read,modify-result,read"})


def meta_suffix(meta_written: dict, meta_read, vars_read) -> str:
    """the meta / vars part of the canonical rendering of a dataset read back: keys in the order they were written (the
    order of HDF5 attributes is not part of the statement), unexpected keys after them"""
    keys = [k for k in meta_written if k in meta_read] + sorted(k for k in meta_read if k not in meta_written)
    return ("#M:" + ";".join(hexs(k) + "=" + " ".join(meta_tokens(meta_read[k])) for k in keys)
            + "#V:" + " ".join(meta_tokens(dict(vars_read))))


def one_dataset(ctx: Ctx, setup_ops, level: int, meta: dict, tmp: str, tag: str, mult: dict = None, tattr: dict = None,
                dvars: dict = None, widen: dict = None):
    from midgard.data import dataset

    rw = RealWorld()
    concrete = []
    for op in setup_ops:
        op = dict(op)
        st, out = rw.apply(op)
        concrete.append(op)
        if st != "ok":
            ctx.count("setup-raises:" + out)
            return
    ds = rw.ds[0]
    for k, v in meta.items():
        ds.meta[k] = v
    dvars = dvars or {}
    ds.vars.update(dvars)
    widen = widen or {}
    for path, extra in widen.items():     # a text array whose dtype is wider than its longest value (an explicit dtype; what
        try:                              # is left after a subset removed the longest rows): oracle only
            f = ds.field(path)
            f.data = f.data.astype(f"<U{f.data.dtype.itemsize // 4 + int(extra)}")
            ctx.count("text:dtype-wider-than-values" + ("(2-d)" if f.data.ndim == 2 else ""))
        except Exception:
            ctx.count("text:not-widened")
    mult = mult or {}
    for path, m in mult.items():      # the multiplier of a field (not part of the model: oracle only)
        try:
            ds.field(path).multiplier = m
        except Exception:
            pass
    # the `time` attached to a position (a registered attribute; not part of the model: oracle only).  The target is a
    # time field of the dataset (["f", path]) or an anonymous time (["a", k]; the same k = the same object)
    tattr = tattr or {}
    xtoks = []
    if tattr:
        from midgard.data.time import Time

        anon_t = {}
        for path, (how, what) in tattr.items():
            try:
                if how == "f":
                    t = ds[what]
                    if describe(t)[0] != "time" or t is ds[path]:
                        raise ValueError("not a time")     # (never a cycle: an object cannot be its own attachment)
                elif how == "o":
                    t = rw.objs[what]                       # an anonymous time made by an `obj` operation of the set-up
                else:
                    if what not in anon_t:
                        anon_t[what] = Time(np.array([51544.0 + 7 * what + r for r in range(ds.num_obs)], dtype=float), scale="utc", fmt="mjd")
                    t = anon_t[what]
                ds[path].time = t
                ctx.count("time-attribute:" + ("field" if how == "f" else "anonymous"))
                if how in ("f", "o"):
                    xtoks.append(path + "=" + ("f" + what if how == "f" else "o" + str(what)))
                else:
                    xtoks = None
            except Exception:
                ctx.count("time-attribute:not-set")
    case = {"ops": concrete, "level": level, "meta": {k: meta_tokens(v) for k, v in meta.items()}, "mult": mult, "tattr": tattr,
            "vars": meta_tokens(dvars), "widen": widen}
    if dvars:
        ctx.count("vars:non-empty")
    for v in meta.values():
        ctx.count("meta-value:" + ("None(unsavable)" if v is None else type(v).__name__))
    nontrivial = any(o["op"] == "add" for o in concrete)
    for o in concrete:
        if o["op"] == "addcoll":
            ctx.count(f"collection-level={o['level']}")
    ctx.case(case, nontrivial=nontrivial)
    ctx.count(tag)
    ctx.count(f"level={level}")
    for o in concrete:
        if o["op"] == "add":
            ctx.count("field=" + o["kind"] + ("(nested)" if "." in o["path"] else ""))
    path = os.path.join(tmp, "d.hdf5")
    # ---- real write / read
    impl = None
    e = None
    with contextlib.redirect_stdout(io.StringIO()):
        try:
            ds.write(path, write_level=LEVELS[level])
            try:
                e = dataset.Dataset.read(path)
                impl = "ok:" + render_ds(e)
                impl_full = impl + meta_suffix(meta, e.meta, e.vars)
            except Exception as ex:
                impl = "ERR:r:" + _enum(ex)
                rw.last_exc = ex
        except Exception as ex:
            impl = "ERR:w:" + _enum(ex)
            rw.last_exc = ex
    # ---- model
    line = "c10 rt " + units_token() + " " + " | ".join(("q " + " ".join(op_tokens(o))) for o in concrete) + f" | write 0 {level}"
    # the whole dataset (fields, meta, vars) goes through the model's writeDSM / readBackM (theorem read_write_full)
    linem = ("c10 rtm " + units_token() + " " + " | ".join(("q " + " ".join(op_tokens(o))) for o in concrete)
             + f" | M {len(meta)} " + " ".join(hexs(k) + " " + " ".join(meta_tokens(v)) for k, v in meta.items())
             + " | " + " ".join(["V", str(len(dvars))] + meta_tokens(dvars)[2:]) + f" | write 0 {level}")
    model_full = ctx.driver.ask1(linem)
    model = model_full.split("#M:", 1)[0]
    restr = ctx.driver.ask1(line.replace("c10 rt ", "c10 restrict ", 1))
    info = ctx.driver.ask1(line.replace("c10 rt ", "c10 info ", 1))
    ctx.traces += 1
    if not impl.startswith("ok:"):
        impl_full = impl
    if model_full != impl_full:
        ctx.disagree("write/read of a dataset (fields, meta, vars)", case, model_full, impl_full)
    if xtoks and impl.startswith("ok:"):
        # positions with a `time` attached: the model's writeDSX / readBackX (Model/H5Time.lean), rendered with the attachment
        xline = ("c10 rtx " + units_token() + " " + " | ".join(("q " + " ".join(op_tokens(o))) for o in concrete)
                 + " | X " + " ".join(xtoks) + f" | write 0 {level}")
        xanswer = ctx.driver.ask1(xline)
        xmodel, _, xrest = xanswer.partition("#W:")
        ximpl = f"ok:D0({e.num_obs};[{render_fields_x(e._fields, [])}])"
        ctx.count("time-attribute:through-the-model")
        if xmodel != ximpl and xanswer != "?":
            ctx.disagree("write/read of a dataset with the time attribute of positions", case, xmodel, ximpl)
        if xrest:
            # the hypothesis of theorem read_write_time (WritableX), evaluated by the model, and an instance of its conclusion
            wx, _, xrestr = xrest.partition("#R:")
            ctx.count("WritableX=" + wx)
            if wx == "T" and xmodel != "ok:" + xrestr:
                ctx.disagree("instance of theorem read_write_time: WritableX, but model rtx != model restrict", case, xmodel, xrestr)
    if any(v is None for v in meta.values()):
        # a bare None cannot be saved: both sides must refuse (TypeError); nothing more to compare
        if impl != "ERR:w:unsavable":
            ctx.violate("meta:None-accepted", f"Dataset.write accepted a meta value None: {impl[:80]}", case)
        return
    # the hypothesis of the theorems (Props.C10.read_write / refs_restored / field_sharing_restored: WritableS, which admits
    # arrays shared between fields): evaluated by the model on this dataset;
    # the branches of the model's write / read this dataset takes (coverage of the generator)
    if info.startswith("W:"):
        w, _, tags = info[2:].partition("|")
        ctx.count("WritableS=" + w)
        for t in filter(None, tags.split(",")):
            ctx.count("branch " + t)
        if "twin-mismatch" in tags:
            ctx.disagree("instrumented read (branch counting) vs model read", case, info, model)
        if w == "T" and (not model.startswith("ok:") or model != restr):
            # an instance of the theorem: Writable => read (write d l) renders exactly like restrict d l
            ctx.disagree("instance of theorem read_write: Writable, but model rt != model restrict", case, model, restr)
        if w == "F":
            ctx.count("WritableS=F & model " + ("ok" if model.startswith("ok:") else model))
            if model.startswith("ok:") and model != restr:
                # outside the hypothesis (one array held by several fields): the conclusion of read_write is not proved
                # there, it is evaluated: the rendering shows which fields hold one object
                ctx.disagree("conclusion of read_write on a dataset with field-level sharing: model rt != model restrict",
                             case, model, restr)
    elif info != "?":
        ctx.disagree("c10 info", case, info, "W:…")
    for t in topology(ds, level):
        ctx.count("topology " + t)
    _ids = [id(f.data) for _, f in restricted_index(ds, level)]
    if len(set(_ids)) < len(_ids):
        ctx.count("topology one array object held by several written fields (same_as)")
    # the model's own statement of the property: read(write d) renders like restrict d  (identities modulo
    # the numbering are compared by the oracle below; here only the shape of the claim is counted)
    ctx.count("model-ok" if model.startswith("ok:") else "model-" + model)
    # ---- oracle, on the real code only
    if impl.startswith("ERR:w:"):
        # "for every dataset that can be written": a dataset the model can write must be writable
        if model == "?" or model.startswith("ok:") or model.startswith("ERR:r:"):
            ctx.violate("write:raises:" + _site(rw.last_exc), f"Dataset.write raised {type(rw.last_exc).__name__}: {rw.last_exc}", case)
        return
    if impl.startswith("ERR:r:"):
        ctx.violate("read:raises:" + _site(rw.last_exc), f"Dataset.read of a file written by Dataset.write raised {type(rw.last_exc).__name__}: {rw.last_exc}", case)
        return
    # bit patterns: the same dataset with every numeric array given to the model as IEEE-754 words (theorem
    # bits_identical speaks about exactly these cells); compared with the words of the arrays read back by the real code
    try:
        btoks = [words_of(o) for o in walk_objects(ds._fields)]
        bline = ("c10 rtbits " + units_token() + " " + " | ".join(("q " + " ".join(op_tokens(o))) for o in concrete)
                 + " | B " + " ".join(btoks) + f" | write 0 {level}")
        bmodel = ctx.driver.ask1(bline)
        bimpl = "ok:" + "|".join(words_of(o) for o in walk_objects(e._fields))
        ctx.count("bits:compared")
        if any(t not in ("-", "[]") and any(int(x) >> 63 and not (int(x) << 1) & (2**64 - 1) for r in t.split(";") for x in r.split(",")) for t in btoks):
            ctx.count("bits:dataset-with-negative-zero")
        if any(t not in ("-", "[]") and any(((int(x) >> 52) & 0x7ff) == 0x7ff and int(x) & (2**52 - 1) for r in t.split(";") for x in r.split(",")) for t in btoks):
            ctx.count("bits:dataset-with-NaN")
        if bmodel != bimpl and bmodel != "?":
            ctx.disagree("bit patterns of the arrays read back", case, bmodel[:600], bimpl[:600])
    except Exception as ex:     # the comparison itself must not stop the oracle below
        ctx.disagree("bit patterns: the comparison raised", case, "-", type(ex).__name__ + ": " + str(ex)[:200])
    idx_w = restricted_index(ds, level)
    want = (ds.num_obs, oracle_fields(ds._fields, idx_w, level))
    got = (e.num_obs, oracle_fields(e._fields, field_index(e._fields), 0))
    d = first_diff(got, want)
    if d:
        key = "roundtrip:" + d[0]
        ids = [id(f.data) for _, f in idx_w]
        if d[0] == "attachment" and len(set(ids)) < len(ids):
            key += "[two-fields-one-array]"   # an array object is the array of two written fields at once
        elif d[0] == "attachment" and embedded_depth(ds, level) >= 2:
            key += "[nested-embedded]"   # an anonymous attachment of an anonymous attachment
        ctx.violate(key, "read back differs: " + d[1], case)
        return
    if restr != "ok:" + render_ds_restricted(ds, level):
        ctx.disagree("restrict (model of 'fields of that level')", case, restr, "ok:" + render_ds_restricted(ds, level))
    # text fields keep their width: a string as long as the written dtype allows still fits after the read
    for _fp, _f in restricted_index(ds, level):
        if _f.fieldtype == "text" and _f.data.size:
            w = _f.data.dtype.itemsize // 4
            b = np.array(e[_fp], copy=True)
            b.flat[0] = "w" * w
            if str(b.flat[0]) != "w" * w:
                ctx.violate("roundtrip:text-width", f"{_fp}: written with dtype {_f.data.dtype}, read back {e[_fp].dtype}: a string of "
                            f"{w} characters assigned to the field that was read is cut to {str(b.flat[0])!r}", case)
                return
    # vars
    if not _same(dict(dvars), dict(e.vars)):
        ctx.violate("vars", f"vars: wrote {dvars!r}, read {dict(e.vars)!r}", case)
        return
    # meta
    extra = [k for k in e.meta if k not in meta]
    if extra:
        ctx.violate("meta:extra-key", f"meta keys {extra!r} were not written", case)
        return
    for k, v in meta.items():
        if k not in e.meta:
            ctx.violate("meta:missing", f"meta key {k!r} is gone", case)
            return
        if not _same_meta_file(v, e.meta[k]):
            ctx.violate("meta:" + ("string" if isinstance(v, str) else type(v).__name__),
                        f"meta {k!r}: wrote {v!r}, read {e.meta[k]!r}", case)
            return
    rewrite_history(ctx, e, want, path, level, meta, dvars, case)
    reread_history(ctx, ds, e, path, level, meta, case)


def rewrite_history(ctx: Ctx, e, want, path, level, meta, dvars, case):
    """a dataset obtained by reading is a dataset like any other: written again (at the lowest level: it holds only the
    fields that were kept) and read again it must still be what was written first (write -> read -> write -> read)"""
    from midgard.data import dataset

    hist = {**case, "history": "write,read,write-the-result,read"}
    path2 = path + ".2"
    ctx.count("history:write-read-write-read")
    with contextlib.redirect_stdout(io.StringIO()):
        try:
            e.write(path2)
        except Exception as ex:
            ctx.violate("rewrite:write-raises:" + _site(ex), f"writing the dataset that was read raised {type(ex).__name__}: {ex}", hist)
            return
        try:
            e2 = dataset.Dataset.read(path2)
        except Exception as ex:
            ctx.violate("rewrite:read-raises:" + _site(ex), "the file written from the dataset that was read cannot be read: "
                        f"{type(ex).__name__}: {ex}", hist)
            return
        finally:
            with contextlib.suppress(OSError):
                os.remove(path2)
    got = (e2.num_obs, oracle_fields(e2._fields, field_index(e2._fields), 0))
    d = first_diff(got, want)
    if d:
        ctx.violate("rewrite:" + d[0], "after write, read, write of the result, read the dataset differs from what was written "
                    "first: " + d[1], hist)
        return
    if not _same(dict(dvars), dict(e2.vars)):
        ctx.violate("rewrite:vars", f"vars: wrote {dvars!r}, after the second round trip {dict(e2.vars)!r}", hist)
        return
    for k, v in meta.items():
        if k not in e2.meta or not _same_meta_file(v, e2.meta[k]):
            ctx.violate("rewrite:meta", f"meta {k!r}: wrote {v!r}, after the second round trip {e2.meta.get(k)!r}", hist)
            return


def _same_meta_file(a, b) -> bool:
    """through the file a top-level number comes back as a NumPy scalar of the same value"""
    if isinstance(a, (list, tuple, set, frozenset, dict, str)):
        return _same(a, b)
    if isinstance(a, bool):
        return isinstance(b, (bool, np.bool_)) and bool(b) == a
    if isinstance(a, int):
        return isinstance(b, (int, np.integer)) and not isinstance(b, (bool, np.bool_)) and int(b) == a
    if isinstance(a, float):
        return isinstance(b, (float, np.floating)) and atom_tok(float(b)) == atom_tok(a)
    return _same(a, b)


def render_ds_restricted(ds, level) -> str:
    def rec(fields):
        from collections import OrderedDict

        class V:  # a view of a collection field restricted to the level
            pass
        out = OrderedDict()
        for name, f in fields.items():
            if int(f._write_level) < level:
                continue
            if f.fieldtype == "collection":
                v = V()
                v.fieldtype = "collection"
                v.num_obs = ds.num_obs
                v._write_level = f._write_level
                v.data = V()
                v.data._fields = rec(f.data._fields)
                out[name] = v
            else:
                out[name] = f
        return out
    return f"D0({ds.num_obs};[{render_fields(rec(ds._fields), [])}])"


def _enum(e):
    from .c09_world import err_enum
    if isinstance(e, KeyError):
        return "attribute"
    if isinstance(e, TypeError) and "Cannot save attribute" in str(e):
        return "unsavable"
    return err_enum(e)


def _site(exc) -> str:
    from .c09_ref import call_site
    return type(exc).__name__ + "@" + call_site(exc)


def codec_case(ctx: Ctx, m):
    from midgard.data import _h5utils

    toks = meta_tokens(m)
    case = {"codec": toks}
    ctx.case(case, nontrivial=len(toks) > 1)
    ctx.count("codec:" + toks[0][0])
    model = ctx.driver.ask1("c10 codec " + " ".join(toks))
    try:
        enc = _h5utils.encode_h5attr(m)
        out = _h5utils.decode_h5attr(enc)
        impl = " ".join(meta_tokens(out))
        ok = _same(m, out)
    except TypeError as ex:
        impl, ok, out = "unsavable", (m is None), f"<TypeError: {str(ex)[:80]}>"
    except Exception as ex:
        impl, ok = "ERR:" + type(ex).__name__, False
        ctx.violate("codec:raises:" + type(ex).__name__, f"encode/decode of {m!r} raised {type(ex).__name__}: {ex}", case)
        return
    ctx.traces += 1
    if model != impl:
        ctx.disagree("attribute codec", case, model, impl)
    if ok and isinstance(enc, str) or ok and isinstance(enc, bytes):
        # decoding is a function of the text: what the caller does to one result must not show in the next
        try:
            if scribble(out):
                again = _h5utils.decode_h5attr(enc)
                ctx.count("codec:decode-modify-decode")
                if not _same(m, again):
                    ctx.violate("codec:history", f"decode_h5attr({enc!r}) after the previous result was modified in place gives {again!r}",
                                {**case, "history": "decode,modify-result,decode"})
                    return
        except Exception:
            pass
    if not ok:
        kind = "string" if isinstance(m, str) else type(m).__name__
        ctx.violate("codec:" + kind, f"decode_h5attr(encode_h5attr({m!r})) = {out!r}", case)


# ---------------------------------------------------------------------------------------------
# worker processes: the cases are generated in the parent (from ctx.rng, so that a run is a function of the seed alone),
# dealt out round-robin to forked workers, each with its own model driver and its own temporary directory


def _run_chunk(kind: str, tier: str, seed: int, chunk: list) -> dict:
    sub = Ctx("C10", tier, seed)
    tmp = tempfile.mkdtemp(prefix="verif-c10-w-")
    try:
        for item in chunk:
            if kind == "codec":
                codec_case(sub, item)
            else:
                one_dataset(sub, *item[:3], tmp, "random", *item[3:])
    finally:
        shutil.rmtree(tmp, ignore_errors=True)
        try:
            if sub._driver is not None:
                sub._driver.p.stdin.close()
                sub._driver.p.wait(timeout=10)
        except Exception:
            pass
    return {"hist": sub.hist, "nontrivial": sub.nontrivial, "evaluations": sub.evaluations, "traces": sub.traces,
            "violations": [(v.key, v.what, v.replay) for v in sub.violations], "corr_broken": sub.corr_broken,
            "samples": sub.samples[:2]}


def _merge(ctx: Ctx, r: dict):
    for k, v in r["hist"].items():
        ctx.hist[k] = ctx.hist.get(k, 0) + v
    ctx.nontrivial |= r["nontrivial"]
    ctx.evaluations += r["evaluations"]
    ctx.traces += r["traces"]
    for key, what, rep in r["violations"]:
        if key not in ctx._vkeys and len(ctx.violations) < 200:
            ctx._vkeys.add(key)
            ctx.violations.append(common.Violation(key, what, rep))
    for d in r["corr_broken"]:
        if len(ctx.corr_broken) < 50:
            ctx.corr_broken.append(d)
    for c in r["samples"]:
        if len(ctx.samples) < 6:
            ctx.samples.append(c)


def run_cases(ctx: Ctx, kind: str, items: list):
    """run the generated cases, on worker processes when there are enough of them (VERIF_C10_WORKERS=1: in this process)"""
    import concurrent.futures
    import multiprocessing

    nw = int(os.environ.get("VERIF_C10_WORKERS", "0")) or min(8 if ctx.thorough else 4, os.cpu_count() or 1)
    if nw <= 1 or len(items) < 200:
        _merge(ctx, _run_chunk(kind, ctx.tier, ctx.seed, items))
        return
    chunks = [items[i::nw] for i in range(nw)]
    with concurrent.futures.ProcessPoolExecutor(max_workers=nw, mp_context=multiprocessing.get_context("fork")) as ex:
        futs = [ex.submit(_run_chunk, kind, ctx.tier, ctx.seed, c) for c in chunks]
        for f in futs:
            _merge(ctx, f.result())
    ctx.extra["workers"] = nw


def dispatch_cases(ctx: Ctx, rng, n: int):
    """the text layer of the codec: what decode_h5attr does with a stored text (a string, an empty container, or
    `_literal_eval` of the rest), observed on the real code with `_literal_eval` replaced by a recorder, against the
    model's dispatchText (theorem text_decode_encode)"""
    from midgard.data import _h5utils

    words = ["list", "tuple", "set", "dict", "str", "str_", "int", "float", "bool", "nan", "None", "List", "lists", ""]
    rests = ["", "[]", "()", "set()", "list()", "tuple()", "dict()", "{}", " [1, 2]", "\t(1,)", "x y", " ", "  ", "nan", "str x", "()()"]
    texts = list(TRICKY) + words + [w + " " + r for w in words for r in rests]
    for _ in range(n):
        k = rng.random()
        if k < 0.5:
            texts.append(rng.choice(words) + rng.choice(["", " ", "  ", "\t"]) + rng.choice(rests + TRICKY))
        else:
            texts.append("".join(rng.choice("lists tupledicr()[]{}_ 1,'") for _ in range(rng.randint(0, 9))))
    real = _h5utils._literal_eval
    try:
        _h5utils._literal_eval = lambda attr: ("<literal_eval>", attr)
        for t in texts:
            if not all(32 <= ord(c) < 127 or c == "\t" for c in t):
                continue
            case = {"dispatch": hexs(t)}
            ctx.case(case, nontrivial=True)
            try:
                out = _h5utils.decode_h5attr(t)
            except Exception as ex:
                impl = "ERR:" + type(ex).__name__
            else:
                if isinstance(out, tuple) and len(out) == 2 and out[0] == "<literal_eval>":
                    impl = "P" + hexs(out[1])
                elif isinstance(out, str):
                    impl = "S" + hexs(out)
                elif out == [] and isinstance(out, list):
                    impl = "E:list"
                elif out == () and isinstance(out, tuple):
                    impl = "E:tuple"
                elif isinstance(out, set) and not out:
                    impl = "E:set"
                elif isinstance(out, dict) and not out:
                    impl = "E:dict"
                else:
                    impl = "?" + repr(out)[:40]
            model = ctx.driver.ask1("c10 dispatch " + hexs(t))
            ctx.traces += 1
            ctx.count("dispatch:" + {"S": "string", "E": "empty-container", "P": "literal_eval"}.get(impl[:1], impl[:12]))
            if model != impl:
                ctx.disagree("text layer of the codec (dispatch on the first word)", case, model, impl)
    finally:
        _h5utils._literal_eval = real


def run(ctx: Ctx):
    ctx.proof = common.prove("C10")
    _register_time()
    rng = ctx.rng
    ctx.rule = ("datasets of 0..6 rows built from the ten array field types (1-/2-D float/bool/text/sigma, text from a "
                "list of tricky printable strings: nan, inf, quotes, leading blanks, Python literals; float/sigma values incl. "
                "all-zero arrays, negative zeros among zeros and among other values, NaN, the smallest subnormal), nested "
                "collections, three write levels per field and per write, reference topologies (other / ref_pos -> earlier / "
                "later field, field in a collection, field below the write level, anonymous, anonymous shared by several "
                "fields, chains of those to depth 3; other -> time field / anonymous time; the user-registered `time` "
                "attribute of positions -> time field / anonymous / shared (oracle only); dedicated templates for 'time in a "
                "collection read first' and 'embedded object read early through a reference by name'; 12%: one array object "
                "held by two or three fields, the extra fields before / after / between, nested, any level: written once + "
                "same_as groups), random meta dicts (keys incl. blanks, dots, the word nan; values trees to depth 3 over "
                "numbers, NaN, +-inf, tricky strings, booleans, None; 3% with a bare None value, which must be refused) and "
                "vars dicts (50% non-empty, tricky keys and values); "
                "written with the real h5py into a temporary directory and read back; per dataset the model answers rtm "
                "(fields + meta + vars through writeDSM / readBackM), rtbits (every numeric array as IEEE-754 words), "
                "restrict and info (Writable, branches of its write/read taken: 'branch …' counts; 'topology …' counts are "
                "computed from the real objects); WritableS => model rt == model restrict is checked as an instance of "
                "theorem read_write; non-trivial = at least one field; distinct by canonical set-up operations, level and "
                "meta; the codec is additionally exercised value by value, and its text layer (first word / blank / empty-container "
                "spellings) on ~1800 texts built from the type words and tricky rests with _literal_eval replaced by a recorder")
    ctx.trusted += ["h5py / HDF5 store and return what they are given (modelled as an abstract tree of groups)",
                    "CPython repr / ast.literal_eval are inverse on literals (the codec model works on the parsed tree)",
                    "text is stored as fixed-width bytes: non-ASCII text and trailing NULs are outside 'can be written'"]
    ctx.assumptions += ["time fields are identified by (scale, fmt, jd1, jd2, value), positions by (system, ellipsoid, values)"]
    tmp = tempfile.mkdtemp(prefix="verif-c10-")
    try:
        cdir = common.VERIF / "corpus" / "C10"
        if cdir.exists():
            for p in sorted(cdir.glob("*.json")):
                c = json.loads(p.read_text())
                if "codec" in c:
                    codec_case(ctx, tokens_meta(c["codec"]))
                else:
                    one_dataset(ctx, c["ops"], c["level"], {k: tokens_meta(v) for k, v in c.get("meta", {}).items()}, tmp, "corpus", c.get("mult"), c.get("tattr"), tokens_meta(c["vars"]) if c.get("vars") else None, c.get("widen"))
        dispatch_cases(ctx, rng, ctx.budget(1500, 20000))
        for t in TRICKY:
            codec_case(ctx, t)
            codec_case(ctx, [t, {"k": t}])
        run_cases(ctx, "codec", [gen_meta(rng) for _ in range(ctx.budget(5000, 150000))])
        items = []
        for _ in range(ctx.budget(2000, 30000)):
            meta = {rng.choice(["k", "key ", "nan", "a.b", "K"]) + str(i): gen_meta(rng) for i in range(rng.choice([0, 1, 2, 4]))}
            meta = {k: v for k, v in meta.items() if v is not None}
            if rng.random() < 0.03:      # a bare None: Dataset.write must refuse it (TypeError), as the model's writeDSM does
                meta["none" + str(len(meta))] = None
                meta = dict(rng.sample(list(meta.items()), len(meta)))
            dvars = {}
            if rng.random() < 0.5:
                for i in range(rng.choice([1, 2, 3])):
                    dvars[rng.choice(TRICKY[:8] + ["station", "date"]) + str(i)] = gen_atom(rng) if rng.random() < 0.7 else gen_meta(rng, 2, False)
            ops = gen_dataset_ops(rng)
            mult = {o["path"]: rng.choice([2, -1, 3]) for o in ops if o["op"] == "add" and rng.random() < 0.15}
            times = [o["path"] for o in ops if o["op"] == "add" and o["kind"] == "time"]
            tattr = {}
            anon_time = {}
            nobj = sum(1 for o in ops if o["op"] == "obj")
            n_rows = next(o["n"] for o in ops if o["op"] == "new")
            for o in list(ops):
                if o["op"] == "add" and o["kind"] in ("position", "posvel") and rng.random() < 0.25:
                    if times and rng.random() < 0.65:
                        tattr[o["path"]] = ["f", rng.choice(times)]
                    else:
                        k = rng.choice([0, 0, 1])
                        if k not in anon_time:       # an anonymous time: an object of the world (and of the model's heap)
                            t_op = obj_op("time", 1, 1, list(range(n_rows)), 90 + k)
                            t_op["setup"] = True
                            ops.append(t_op)
                            anon_time[k] = nobj
                            nobj += 1
                        tattr[o["path"]] = ["o", anon_time[k]]
            widen = {o["path"]: rng.choice([1, 3, 6]) for o in ops if o["op"] == "add" and o["kind"] == "text" and rng.random() < 0.4}
            items.append((ops, rng.choice([1, 2, 3]), meta, mult, tattr, dvars, widen))
        run_cases(ctx, "dataset", items)
    finally:
        shutil.rmtree(tmp, ignore_errors=True)


def tokens_meta(toks):
    """inverse of meta_tokens (for the corpus / replays)"""
    def atom(t):
        if t == "none":
            return None
        if t == "nan":
            return float("nan")
        if t == "inf":
            return float("inf")
        if t == "ninf":
            return -float("inf")
        if t == "bT":
            return True
        if t == "bF":
            return False
        if t[0] == "i":
            return int(t[1:])
        if t[0] == "f":
            return float(Fraction(t[1:]))
        return common.unhex(t[1:])

    def rec(i):
        t = toks[i]
        if t in ("L", "T", "S", "D"):
            n = int(toks[i + 1])
            i += 2
            items = []
            for _ in range(n * (2 if t == "D" else 1)):
                x, i = rec(i)
                items.append(x)
            if t == "L":
                return items, i
            if t == "T":
                return tuple(items), i
            if t == "S":
                return set(items), i
            return {items[j]: items[j + 1] for j in range(0, len(items), 2)}, i
        return atom(t), i + 1

    return rec(0)[0]


def replay(payload):
    ctx = Ctx("C10", "quick", 0)

    class _D:  # the replay needs no model: answers are not compared
        def ask1(self, line):
            return "?"
    ctx._driver = _D()
    c = payload.get("replay", payload)
    _register_time()
    tmp = tempfile.mkdtemp(prefix="verif-c10-")
    try:
        if "codec" in c:
            codec_case(ctx, tokens_meta(c["codec"]))
        else:
            one_dataset(ctx, c["ops"], c["level"], {k: tokens_meta(v) for k, v in c.get("meta", {}).items()}, tmp, "replay", c.get("mult"), c.get("tattr"), tokens_meta(c["vars"]) if c.get("vars") else None, c.get("widen"))
    finally:
        shutil.rmtree(tmp, ignore_errors=True)
    for v in ctx.violations:
        print("VIOLATION", v.key, "-", v.what[:400])
    print("replayed;", len(ctx.violations), "oracle failure(s)")
    ctx._driver = None
    return 1 if ctx.violations else 0
