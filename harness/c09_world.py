"""C09/C10 helpers: the real-code side of an operation history, its canonical rendering, the line
protocol of the operations, and the history generators."""
from __future__ import annotations

import contextlib
import io
import itertools
from fractions import Fraction
from typing import Any, Dict, List, Optional

import numpy as np

from .common import frac, rs, hexs

KINDS = ["bool", "float", "text", "time", "time_delta", "sigma", "position", "posvel", "position_delta", "posvel_delta"]
LEVELS = {1: "detail", 2: "analysis", 3: "operational"}

# unit pairs used by the generators; the factor table is computed from the real Unit() at import of midgard
# dyadic factors in both directions (8, 1/8, 16, 1/16), so converted values stay exact; byte/pound are incompatible
UNIT_NAMES = ["byte", "bit", "pound", "ounce"]
UNIT_TABLE: Dict[tuple, Optional[Fraction]] = {}


def _fill_units():
    if UNIT_TABLE:
        return
    from midgard.math.unit import Unit
    from midgard.dev import exceptions

    for a in UNIT_NAMES:
        for b in UNIT_NAMES:
            if a == b:
                continue
            try:
                f = Unit(a, b)
                q = Fraction(f).limit_denominator(10**6) if not isinstance(f, int) else Fraction(f)
                # only exact factors may be used by the generators (others are kept for the error paths)
                UNIT_TABLE[(a, b)] = q if float(q) == float(f) else None
                if UNIT_TABLE[(a, b)] is None:
                    UNIT_TABLE[(a, b)] = Fraction(float(f))
            except exceptions.UnitError:
                pass


def units_token() -> str:
    _fill_units()
    if not UNIT_TABLE:
        return "-"
    return ",".join(f"{a}>{b}={rs(q)}" for (a, b), q in sorted(UNIT_TABLE.items()))


def unit_factor(fr: str, to: str) -> Optional[Fraction]:
    _fill_units()
    if fr == to:
        return Fraction(1)
    return UNIT_TABLE.get((fr, to))


# ---------------------------------------------------------------------------------------------
# canonical description of one array object

EMPTY_TIME_JD = Fraction(3442851, 2)  # datetime.min = 0001-01-01 = JD 1721425.5


def scal(x) -> str:
    if isinstance(x, (bool, np.bool_)):
        return "b1" if x else "b0"
    if isinstance(x, (str, np.str_)):
        return "t" + hexs(str(x))
    x = float(x)
    if x != x:
        return "nan"
    return "n" + rs(frac(x))


GPS_ONLY_FORMATS = ("gps_ws", "gps_seconds")


def _val_tok(x, micro: bool = False) -> str:
    """one value of a time / time-delta format: floats exactly, datetime / timedelta as whole microseconds.
    `micro`: the value is compared to the microsecond (formats gps_ws / gps_seconds: `TimeBase.__new__` stores
    from_jds(to_jds(value)), which moves a value of 1.2e9 s by an ulp (2.4e-7 s) at every insert; the epochs of the
    generators lie on whole microseconds)"""
    import datetime as _dt

    if micro and not isinstance(x, (_dt.datetime, _dt.timedelta, str, np.str_)) and float(x) == float(x):
        return "n" + rs(Fraction(round(float(x) * 10**6), 10**6))

    if isinstance(x, _dt.datetime):
        return "n" + str((x - _dt.datetime.min) // _dt.timedelta(microseconds=1))
    if isinstance(x, _dt.timedelta):
        return "n" + str(x // _dt.timedelta(microseconds=1))
    if isinstance(x, (str, np.str_)):
        return "t" + hexs(str(x))
    return scal(x)


def _gps_vals(j1: Fraction, j2: Fraction, cols: int):
    """the value(s) of the formats gps_seconds (1 column) / gps_ws (week, seconds, day) as the exact function of jd1, jd2.
    The stored float values of these formats are NOT compared: `TimeBase.__new__` stores from_jds(to_jds(value)), which
    moves a value of 1.2e9 s by an ulp (0.24 us) at every insert - a drift that accumulates over a history - while
    jd1 / jd2, which are compared exactly, stay; the order of the stored values is that of these exact ones as long as
    epochs are microseconds apart"""
    days = j1 - Fraction(4888489, 2) + j2          # since 1980-01-06 (JD 2444244.5)
    if cols == 1:
        return ["n" + rs(days * 86400)]
    week = days.numerator // (7 * days.denominator)
    sec = (days - 7 * week) * 86400
    day = sec.numerator // (86400 * sec.denominator)
    return ["n" + rs(Fraction(week)), "n" + rs(sec), "n" + rs(Fraction(day))]


def time_rows(kind: str, j1, j2, vals, n: int, micro: bool = False):
    """(ndim, cols, rows) of a time / time delta with its values: a row is jd1, jd2, then the value(s) in the format of
    the array; an empty epoch (datetime.min) is all-NaN"""
    j1 = np.atleast_1d(np.asarray(j1, dtype=float))
    j2 = np.atleast_1d(np.asarray(j2, dtype=float))
    v = np.asarray(vals)
    if v.ndim == 0:
        v = v.reshape((1,))
    cols = 1 if v.ndim == 1 else v.shape[1]
    ndim = 1 if v.ndim == 1 else 2
    if len(j1) != n or len(j2) != n or v.shape[0] != n:
        return ndim, cols, [["!jd-length", str(len(j1)), str(len(j2)), str(v.shape[0]), str(n)]]
    rows = []
    for i, (a, b) in enumerate(zip(j1, j2)):
        if kind == "time" and abs(frac(a) + frac(b) - EMPTY_TIME_JD) < 2:
            rows.append(["nan"] * (2 + cols))
        else:
            if micro:
                vs = _gps_vals(frac(a), frac(b), cols)
            else:
                vs = [_val_tok(v[i])] if v.ndim == 1 else [_val_tok(x) for x in v[i]]
            rows.append([scal(a), scal(b)] + vs)
    return ndim, cols, rows


def tag_of(o) -> str:
    """`<scale>/<format>` of a time, `d:<scale>/<format>` of a time delta, "" for everything else"""
    from midgard.data._time import TimeArray, TimeDeltaArray

    if isinstance(o, TimeArray):
        return f"{o.scale}/{o.fmt}"
    if isinstance(o, TimeDeltaArray):
        return f"d:{o.scale}/{o.fmt}"
    return ""


def describe(o, tv: bool = False) -> tuple:
    """(kind, ndim, cols, rows as list of lists of scalar tokens); `tv`: a time / time delta row also carries the
    value(s) of the array in its own format (C09), not only jd1, jd2 (C10)"""
    from midgard.data._time import TimeArray, TimeDeltaArray
    from midgard.data._position import PosBase
    from midgard.data.sigma import SigmaArray

    if isinstance(o, (TimeArray, TimeDeltaArray)):
        kind = "time" if isinstance(o, TimeArray) else "time_delta"
        if tv:
            ndim, cols, rows = time_rows(kind, o.jd1, o.jd2, np.asarray(o), len(o), o.fmt in GPS_ONLY_FORMATS)
            return kind, ndim, cols, rows
        j1 = np.atleast_1d(np.asarray(o.jd1, dtype=float))
        j2 = np.atleast_1d(np.asarray(o.jd2, dtype=float))
        n = len(o)
        rows = []
        if len(j1) != n or len(j2) != n:
            return kind, 1, 1, [["!jd-length", str(len(j1)), str(len(j2)), str(n)]]
        for a, b in zip(j1, j2):
            if kind == "time" and abs(frac(a) + frac(b) - EMPTY_TIME_JD) < 2:
                rows.append(["nan", "nan"])
            else:
                rows.append([scal(a), scal(b)])
        return kind, 1, 1, rows
    if isinstance(o, PosBase):
        kind = {"PositionArray": "position", "PosVelArray": "posvel", "PositionDeltaArray": "position_delta",
                "PosVelDeltaArray": "posvel_delta"}[o.cls_name]
        a = np.asarray(o)
        if a.ndim == 1:
            a = a[None, :]
        return kind, 2, a.shape[1], [[scal(x) for x in r] for r in a]
    if isinstance(o, SigmaArray):
        a = np.asarray(o)
        s = np.asarray(o.sigma)
        if s.shape != a.shape:
            return "sigma", a.ndim, (1 if a.ndim == 1 else a.shape[1]), [["!sigma-shape", str(s.shape), str(a.shape)]]
        if a.ndim > 2:
            return "sigma", a.ndim, -1, [["!ndim", str(a.shape).replace(" ", "").replace(",", "x")]]
        if a.ndim == 1:
            return "sigma", 1, 1, [[scal(x), scal(y)] for x, y in zip(a, s)]
        return "sigma", a.ndim, a.shape[1], [[scal(x) for x in r] + [scal(y) for y in q] for r, q in zip(a, s)]
    a = np.asarray(o)
    kind = "bool" if a.dtype == bool else ("text" if a.dtype.kind == "U" else "float")
    if a.ndim == 1:
        return kind, 1, 1, [[scal(x)] for x in a]
    if a.ndim == 2:
        return kind, 2, a.shape[1], [[scal(x) for x in r] for r in a]
    return kind, a.ndim, -1, [["!ndim", str(a.shape)]]


def rows_token(rows) -> str:
    return "[]" if not rows else ";".join(",".join(r) for r in rows)


def render_obj(o, seen: list, tv: bool = False) -> str:
    for i, s in enumerate(seen):
        if s is o:
            return f"#{i}"
    k = len(seen)
    seen.append(o)
    kind, ndim, cols, rows = describe(o, tv)
    oth = getattr(o, "other", None) if kind in ("position", "posvel") else None
    rp = getattr(o, "ref_pos", None) if kind in ("position_delta", "posvel_delta") else None
    so = render_obj(oth, seen, tv) if oth is not None else "-"
    sr = render_obj(rp, seen, tv) if rp is not None else "-"
    tag = tag_of(o) if tv else ""
    return f"#{k}{{{kind};{ndim};{cols};{rows_token(rows)}|o={so}|r={sr}" + (f"|g={tag}" if tag else "") + "}"


def render_fields(fields: dict, seen: list, tv: bool = False) -> str:
    out = []
    for name, f in fields.items():
        ft = f.fieldtype
        if ft == "collection":
            out.append(f"C({name};{f.num_obs};{int(f._write_level)};[{render_fields(f.data._fields, seen, tv)}])")
        else:
            u = "-" if f._unit is None else "+".join(f._unit)
            out.append(f"L({name};{ft};{f.num_obs};{u};{int(f._write_level)};{render_obj(f.data, seen, tv)})")
    return ",".join(out)


def render_world(w) -> str:
    seen: list = []
    out = []
    tv = getattr(w, "tv", False)
    for d in sorted(w.ds):
        ds = w.ds[d]
        out.append(f"D{d}({ds.num_obs};[{render_fields(ds._fields, seen, tv)}])")
    return "".join(out)


# ---------------------------------------------------------------------------------------------
# the real-code world


def err_enum(e: Exception) -> str:
    from midgard.dev import exceptions

    if isinstance(e, exceptions.FieldExistsError):
        return "fieldExists"
    if isinstance(e, exceptions.UnitError):
        return "unit"
    if isinstance(e, IndexError):
        return "index"
    if isinstance(e, ValueError):
        return "value"
    if isinstance(e, AttributeError):
        return "attribute"
    return "other:" + type(e).__name__


def _epoch_dt(v):
    """an epoch of a generator: a float MJD (whole days in the generators) or [days since 2000-01-01, microseconds]"""
    import datetime as _dt

    if isinstance(v, (list, tuple)):
        return _dt.datetime(2000, 1, 1) + _dt.timedelta(days=int(v[0]), microseconds=int(v[1]))
    return _dt.datetime(2000, 1, 1) + _dt.timedelta(days=float(v) - 51544.0)


def make_time(vals, scale: str, fmt: str):
    """a Time of the given scale whose values are *in* the given format"""
    from midgard.data.time import Time

    if fmt == "mjd" and not any(isinstance(v, (list, tuple)) for v in vals):
        return Time(np.array(vals, dtype=float), scale=scale, fmt="mjd")
    base = Time(np.array([_epoch_dt(v) for v in vals], dtype=object), scale=scale, fmt="datetime")
    if fmt == "datetime":
        return base
    if len(vals) == 0:
        return Time(np.array([], dtype=float), scale=scale, fmt=fmt)
    v = getattr(base, fmt)
    if fmt == "gps_ws":
        return Time(val=np.asarray(v.week), val2=np.asarray(v.seconds), scale=scale, fmt=fmt)
    return Time(val=np.asarray(v), scale=scale, fmt=fmt)


def make_time_delta(vals, scale: str, fmt: str):
    """a TimeDelta (values: days, dyadic) whose values are in the given format"""
    import datetime as _dt
    from midgard.data.time import TimeDelta

    if fmt == "days":
        return TimeDelta(np.array(vals, dtype=float), scale=scale, fmt="days")
    if fmt == "timedelta":
        return TimeDelta(np.array([_dt.timedelta(days=float(v)) for v in vals], dtype=object), scale=scale, fmt=fmt)
    if fmt == "seconds":
        return TimeDelta(np.array(vals, dtype=float) * 86400.0, scale=scale, fmt=fmt)
    return TimeDelta(np.array(vals, dtype=float), scale=scale, fmt=fmt)  # jd: days


class ConvTable:
    """What `TimeBase.insert` does to one epoch of `b` before it is spliced into `a` — conversion to the scale of `a`,
    values in the format of `a` — as a finite table `(tag of b, tag of a, row) -> row`, computed from the real Time code
    on this run (as the pint unit factors are).  It is closed under conversion between the tags of one history (an
    array made by an `extend` can be converted again), to a bounded depth."""

    def __init__(self):
        self.rows: Dict[str, Dict[tuple, None]] = {}   # tag -> ordered set of rows (tuples of tokens)
        self.table: Dict[tuple, Optional[tuple]] = {}
        self.dirty = False

    def note(self, tag: str, rows):
        if tag:
            d = self.rows.setdefault(tag, {})
            for r in rows:
                if tuple(r) not in d:
                    d[tuple(r)] = None
                    self.dirty = True

    @staticmethod
    def _convert(fr: str, to: str, rows):
        from midgard.data._time import TimeArray, TimeDeltaArray

        delta = fr.startswith("d:")
        if delta != to.startswith("d:"):
            return None
        base = TimeDeltaArray if delta else TimeArray
        fs, ff = fr[2 * delta:].split("/")
        ts, tf = to[2 * delta:].split("/")
        j1 = np.array([float(Fraction(r[0][1:])) for r in rows])
        j2 = np.array([float(Fraction(r[1][1:])) for r in rows])
        try:
            with contextlib.redirect_stdout(io.StringIO()):
                b = base._cls_scale(fs).from_jds(j1, j2, ff)
                # the lines of `TimeBase.insert`
                b = b if ts == fs else getattr(b, ts)
                vals = np.asarray(b) if tf == b.fmt else np.asarray(getattr(b, tf)).T
                _, _, out = time_rows("time_delta" if delta else "time", b.jd1, b.jd2, vals, len(rows), tf in GPS_ONLY_FORMATS)
        except Exception:
            return None
        if len(out) != len(rows) or any(x[0].startswith("!") for x in out):
            return None
        return [tuple(x) for x in out]

    def close(self, depth: int = 4):
        self.dirty = False
        tags = sorted(self.rows)
        for _ in range(depth):
            new = False
            for fr in tags:
                for to in tags:
                    if fr == to or fr.startswith("d:") != to.startswith("d:"):
                        continue
                    todo = [r for r in self.rows[fr] if (fr, to, r) not in self.table and "nan" not in r]
                    if not todo:
                        continue
                    out = self._convert(fr, to, todo)
                    for i, r in enumerate(todo):
                        self.table[(fr, to, r)] = None if out is None else out[i]
                        if out is not None and out[i] not in self.rows[to]:
                            self.rows[to][out[i]] = None
                            new = True
            if not new:
                break

    def lookup(self, fr: str, to: str, row):
        if self.dirty:
            self.close()
        return self.table.get((fr, to, tuple(row)))

    def token(self) -> str:
        if self.dirty:
            self.close()
        ent = [f"{fr}>{to}>{','.join(r)}={','.join(v)}" for (fr, to, r), v in self.table.items() if v is not None]
        return "&".join(ent) if ent else "-"


class RealWorld:
    def __init__(self, tv: bool = False):
        self.ds: Dict[int, Any] = {}
        self.objs: List[Any] = []
        self.last_exc: Optional[Exception] = None
        self.tv = tv
        self.conv = ConvTable()

    # -- references
    def resolve(self, r):
        if r is None:
            return None
        if r[0] == "o":
            return self.objs[r[1]]
        return self.ds[r[1]][r[2]]

    def make_obj(self, op):
        from midgard.data.position import Position, PositionDelta, PosVel, PosVelDelta
        from midgard.data.time import Time, TimeDelta
        from midgard.data.sigma import SigmaArray

        k = op["kind"]
        v = op["vals"]
        n = len(v)
        cols = op["cols"]
        if k == "bool":
            return np.array(v, dtype=bool).reshape((n,) if op["ndim"] == 1 else (n, cols))
        if k == "float":
            return np.array(v, dtype=float).reshape((n,) if op["ndim"] == 1 else (n, cols))
        if k == "text":
            return np.array(v, dtype=str).reshape((n,) if op["ndim"] == 1 else (n, cols))
        if k == "time" and op.get("conv_of") is not None:
            # the (cached) conversion of another array to a time scale, kept as a field: `add_time("t_gps", val=t.gps)`
            res = getattr(self.resolve(op["conv_of"]), op["scale"])
            # (the cache is keyed by value: the same array may come back for two equal-valued sources; every `obj` of
            # the protocol is a new object, so a repeated one is copied)
            return res.copy() if any(x is res for x in self.objs) else res
        if k == "time":
            return make_time(v, op.get("scale", "utc"), op.get("fmt", "mjd"))
        if k == "time_delta":
            return make_time_delta(v, op.get("scale", "utc"), op.get("fmt", "days"))
        if k == "sigma":
            a = np.array([r[0] for r in v], dtype=float).reshape((n,) if op["ndim"] == 1 else (n, cols))
            s = np.array([r[1] for r in v], dtype=float).reshape((n,) if op["ndim"] == 1 else (n, cols))
            return SigmaArray(a, s)
        other = self.resolve(op.get("other"))
        refp = self.resolve(op.get("ref_pos"))
        a = np.array(v, dtype=float).reshape((n, cols))
        if k == "position":
            return Position(a, system="trs", **({"other": other} if other is not None else {}))
        if k == "posvel":
            return PosVel(a, system="trs", **({"other": other} if other is not None else {}))
        if k == "position_delta":
            return PositionDelta(a, system="trs", ref_pos=refp)
        if k == "posvel_delta":
            return PosVelDelta(a, system="trs", ref_pos=refp)
        raise AssertionError(k)

    def apply(self, op):
        """returns ("ok", out-token) or ("err", enum)"""
        with contextlib.redirect_stdout(io.StringIO()):  # _position.insert prints a "todo" note
            return self._apply(op)

    def _apply(self, op):
        from midgard.data import dataset

        try:
            o = op["op"]
            if o == "new":
                self.ds[op["d"]] = dataset.Dataset(op["n"])
                return "ok", "-"
            if o == "obj":
                obj = self.make_obj(op)
                self.objs.append(obj)
                # what the model is told about it is read off the object itself
                kind, ndim, cols, rows = describe(obj, self.tv)
                op["rows"] = rows
                if self.tv and kind in ("time", "time_delta"):
                    op["ndim"], op["cols"], op["tag"] = ndim, cols, tag_of(obj)
                    self.conv.note(op["tag"], rows)
                return "ok", "-"
            ds = self.ds[op["d"]]
            if o == "add":
                val = self.resolve(op["val"])
                kw = {}
                if op.get("unit") is not None:
                    kw["unit"] = op["unit"]
                getattr(ds, "add_" + op["kind"])(op["path"], val=val, write_level=LEVELS[op["level"]], **kw)
                return "ok", "-"
            if o == "addcoll":
                ds.add_collection(op["path"], write_level=LEVELS[op["level"]])
                return "ok", "-"
            if o == "del":
                del ds[op["path"]]
                return "ok", "-"
            if o == "subset":
                idx = np.array(op["mask"], dtype=bool) if "mask" in op else np.array(op["ints"], dtype=int)
                ds.subset(idx)
                return "ok", "-"
            if o == "extend":
                plain = _plain_only(ds._fields) and _plain_only(self.ds[op["e"]]._fields)
                split = _split_sharing(ds._fields, self.ds[op["e"]]._fields) if self.tv else None
                ds.extend(self.ds[op["e"]])
                # two tables of plain columns: the columns of the result, for the list-of-records `extend`
                if not plain:
                    # (C09) was an array held under a name the other dataset lacks and under a name it has?
                    return "ok", ("-" if split is None else "s1" if split else "s0")
                return "ok", "x" + "/".join(f"{n}={rows_token(describe(a, self.tv)[3])}" for n, a in _columns(ds._fields, ""))
            if o == "merge":
                ds.merge_with(*[self.ds[e] for e in op["es"]], sort_by=op.get("sort_by"))
                return "ok", "-"
            if o == "filter":
                flt = {p: _pyval(v) for p, v in op["filters"]}
                m = ds.filter(**flt)
                ds.subset(m)
                return "ok", "m" + "".join("1" if b else "0" for b in m)
            if o == "unique":
                u = ds.unique(op["path"])
                return "ok", "v" + ",".join(scal(x) for x in u)
            if o == "diff":
                # the result goes into slot r (which may be the slot of an operand: the operand is then replaced)
                res = ds.difference(self.ds[op["e"]], index_by=op.get("index_by"),
                                    copy_self_on_error=bool(op.get("cs")), copy_other_on_error=bool(op.get("co")))
                self.ds[op["r"]] = res
                return "ok", "-"
            raise AssertionError(o)
        except Exception as e:  # mapped to a small enum, never propagated
            self.last_exc = e
            return "err", err_enum(e)


def _split_sharing(fa, fb) -> bool:
    """some array (not bool / float / text) of one dataset is the data of a field the other dataset lacks and of a field
    it has (the situation of the listed finding `…:shared-array-one-name-missing`), read off the real datasets"""
    la = [(n, f.fieldtype, f.data) for n, f in _leaf_fields(fa, "")]
    lb = [(n, f.fieldtype, f.data) for n, f in _leaf_fields(fb, "")]

    def one_sided(a, b):
        nb = {n for n, _, _ in b}
        return any(k not in ("bool", "float", "text") and n not in nb and any(o2 is o and n2 in nb for n2, _, o2 in a)
                   for n, k, o in a)

    return one_sided(la, lb) or one_sided(lb, la)


def _leaf_fields(fields, prefix):
    for name, f in fields.items():
        if f.fieldtype == "collection":
            yield from _leaf_fields(f.data._fields, prefix + name + ".")
        else:
            yield prefix + name, f


def _plain_only(fields) -> bool:
    """only bool / float / text fields, at every depth"""
    for f in fields.values():
        if f.fieldtype == "collection":
            if not _plain_only(f.data._fields):
                return False
        elif f.fieldtype not in ("bool", "float", "text"):
            return False
    return True


def _columns(fields, prefix):
    for name, f in fields.items():
        if f.fieldtype == "collection":
            yield from _columns(f.data._fields, prefix + name + ".")
        else:
            yield prefix + name, f.data


def _pyval(tok: str):
    if tok.startswith("n"):
        return float(Fraction(tok[1:]))
    if tok.startswith("t"):
        return "" if tok[1:] == "." else bytes.fromhex(tok[1:]).decode()
    if tok == "b1":
        return True
    if tok == "b0":
        return False
    return float("nan")


# ---------------------------------------------------------------------------------------------
# protocol tokens of one (concrete) operation


def ref_token(r) -> str:
    if r is None:
        return "-"
    if r[0] == "o":
        return f"o{r[1]}"
    return f"f{r[1]}:{r[2]}"


def op_tokens(op) -> List[str]:
    o = op["op"]
    if o == "new":
        return ["new", str(op["d"]), str(op["n"])]
    if o == "obj":
        return ["obj", op["kind"], str(op["ndim"]), str(op["cols"]), rows_token(op.get("rows", [])),
                ref_token(op.get("other")), ref_token(op.get("ref_pos"))] + ([op["tag"]] if op.get("tag") else [])
    if o == "add":
        return ["add", str(op["d"]), op["path"], op["kind"], ref_token(op["val"]), op.get("unit") or "-", str(op["level"])]
    if o == "addcoll":
        return ["addcoll", str(op["d"]), op["path"], str(op["level"])]
    if o == "del":
        return ["del", str(op["d"]), op["path"]]
    if o == "subset":
        if "mask" in op:
            return ["subset", str(op["d"]), "m" + "".join("1" if b else "0" for b in op["mask"])]
        return ["subset", str(op["d"]), "i" + ",".join(str(i) for i in op["ints"])]
    if o == "extend":
        return ["extend", str(op["d"]), str(op["e"])]
    if o == "merge":
        return ["merge", str(op["d"]), ",".join(str(e) for e in op["es"]) or "-", op.get("sort_by") or "-"]
    if o == "filter":
        return ["filter", str(op["d"]), "&".join(f"{p}={v}" for p, v in op["filters"]) or "-"]
    if o == "unique":
        return ["unique", str(op["d"]), op["path"]]
    if o == "diff":
        ib = op.get("index_by")
        return ["diff", str(op["d"]), str(op["e"]), str(op["r"]), "-" if ib is None else ib.replace(" ", ""),
                "1" if op.get("cs") else "0", "1" if op.get("co") else "0"]
    raise AssertionError(o)


# ---------------------------------------------------------------------------------------------
# generators.  Values carry an origin tag: row r of dataset d has tag T = 16*d + r (+ 64 per
# generation of late objects); every component of every field is an injective function of
# (T, salt of the field, component), small integers so that unit factors stay exact.


def tagged_vals(kind: str, ndim: int, cols: int, tags: List[int], salt: int, tie_rich: bool = False):
    out = []
    for t in tags:
        base = (t % 3 if tie_rich else t) + 100 * salt
        if kind == "bool":
            out.append(bool(t % 2) if ndim == 1 else [bool((t + c) % 2) for c in range(cols)])
        elif kind == "float":
            out.append(float(base) if ndim == 1 else [float(base + 1000 * c) for c in range(cols)])
        elif kind == "text":
            out.append(f"s{salt}r{t % 3 if tie_rich else t}" if ndim == 1 else [f"s{salt}r{t}c{c}" for c in range(cols)])
        elif kind == "time":
            out.append(51544.0 + base)
        elif kind == "time_delta":
            out.append(float(base) + 0.5)
        elif kind == "sigma":
            if ndim == 1:
                out.append([float(base), float(base) / 8])
            else:
                out.append([[float(base + 1000 * c) for c in range(cols)], [float(base + 1000 * c) / 8 for c in range(cols)]])
        else:
            out.append([float(6000000 + 8 * base + c) for c in range(cols)])
    return out


def obj_op(kind, ndim, cols, tags, salt, other=None, ref_pos=None, tie_rich=False, late=False, scale=None, fmt=None):
    op = {"op": "obj", "kind": kind, "ndim": ndim, "cols": cols,
          "vals": tagged_vals(kind, ndim, cols, tags, salt, tie_rich)}
    if scale is not None:
        op["scale"] = scale
    if fmt is not None:
        op["fmt"] = fmt
    if other is not None:
        op["other"] = other
    if ref_pos is not None:
        op["ref_pos"] = ref_pos
    if late:
        op["late"] = True
    return op


def add_op(d, path, kind, val, unit=None, level=3, late=False):
    op = {"op": "add", "d": d, "path": path, "kind": kind, "val": val, "level": level}
    if unit is not None:
        op["unit"] = unit
    if late:
        op["late"] = True
    return op


POSCOLS = {"position": 3, "posvel": 6, "position_delta": 3, "posvel_delta": 6}


def base_world_ops(variant: int = 0) -> List[dict]:
    """Two datasets (4 and 3 rows) with every array field type, a nested collection, a shared `other`
    (p2.other is p1), an anonymous `other`, a delta whose ref_pos is a field and one whose ref_pos is
    anonymous, a time object shared by two fields, and a tie-rich sort key.  Dataset 1 has the same
    field names (so extend pairs them), one field less, one more, and another unit."""
    ops: List[dict] = []
    k = [0]

    def obj(*a, **kw):
        ops.append(obj_op(*a, **kw))
        k[0] += 1
        return ("o", k[0] - 1)

    for d, n in ((0, 4), (1, 3)):
        tags = [16 * d + r for r in range(n)]
        ops.append({"op": "new", "d": d, "n": n})
        ops.append(add_op(d, "key", "float", obj("float", 1, 1, tags, 1, tie_rich=True)))
        ops.append(add_op(d, "x", "float", obj("float", 1, 1, tags, 2), unit="bit" if d == 0 else "byte", level=2))
        ops.append(add_op(d, "txt", "text", obj("text", 1, 1, tags, 3), level=1))
        ops.append(add_op(d, "flag", "bool", obj("bool", 1, 1, tags, 4)))
        t = obj("time", 1, 1, tags, 5)
        ops.append(add_op(d, "t", "time", t))
        if variant == 0:
            ops.append(add_op(d, "t_again", "time", t))
        ops.append(add_op(d, "td", "time_delta", obj("time_delta", 1, 1, tags, 6)))
        ops.append(add_op(d, "sg", "sigma", obj("sigma", 1, 1, tags, 7), unit="ounce" if d == 0 else "pound"))
        p1 = obj("position", 2, 3, tags, 8)
        ops.append(add_op(d, "p1", "position", p1))
        ops.append(add_op(d, "p2", "position", obj("position", 2, 3, tags, 9, other=("f", d, "p1"))))
        ops.append(add_op(d, "dl", "position_delta", obj("position_delta", 2, 3, tags, 10, ref_pos=("f", d, "p2"))))
        anon = obj("posvel", 2, 6, tags, 11)
        ops.append(add_op(d, "pv", "posvel", obj("posvel", 2, 6, tags, 12, other=anon)))
        anon_ref = obj("posvel", 2, 6, tags, 13, other=anon if variant == 1 else None)
        ops.append(add_op(d, "pvd", "posvel_delta", obj("posvel_delta", 2, 6, tags, 14, ref_pos=anon_ref)))
        ops.append(add_op(d, "c.m", "float", obj("float", 2, 2, tags, 15)))
        ops.append(add_op(d, "c.n.w", "text", obj("text", 1, 1, tags, 16)))
        if d == 0:
            ops.append(add_op(d, "only0", "float", obj("float", 1, 1, tags, 17)))
        else:
            ops.append(add_op(d, "only1", "text", obj("text", 1, 1, tags, 18)))
            ops.append(add_op(d, "c.only1", "float", obj("float", 1, 1, tags, 19)))
    for o in ops[:-1]:
        o["setup"] = True
    return ops


# symbolic operations, made concrete against the current real num_obs
SYMBOLIC_ALPHABET = [
    {"sym": "mask_alt", "d": 0},
    {"sym": "ints_rev_dup", "d": 0},
    {"sym": "extend", "d": 0, "e": 1},
    {"sym": "extend", "d": 1, "e": 0},
    {"sym": "merge_sort", "d": 0, "es": [1], "sort_by": "key"},
    {"sym": "filter", "d": 0, "path": "key", "value": "n101"},
    {"sym": "del", "d": 0, "path": "p1"},
    {"sym": "del", "d": 0, "path": "c.m"},
    {"sym": "late_add", "d": 0},
    # difference paired by the tie-rich key (keys 100,101,102,100 vs 101,102,100: another order, a duplicate);
    # the result replaces dataset 0, so the operations that follow act on it
    {"op": "diff", "d": 0, "e": 1, "r": 0, "index_by": "key", "cs": True, "co": False},
]


def _concretise_sym(sop: dict, rw: "RealWorld") -> Optional[dict]:
    s = sop["sym"]
    d = sop["d"]
    n = max(int(rw.ds[d].num_obs), 0) if d in rw.ds else 0
    if s == "mask_alt":
        return {"op": "subset", "d": d, "mask": [i % 2 == 0 for i in range(n)], "how": "mask"}
    if s == "ints_rev_dup":
        ints = list(range(n - 1, -1, -1))
        if n >= 2:
            ints[-1] = ints[0]  # a duplicate, so that sum(idx) != len(idx) in general
        return {"op": "subset", "d": d, "ints": ints, "how": "ints"}
    if s == "extend":
        return {"op": "extend", "d": d, "e": sop["e"]}
    if s == "merge_sort":
        return {"op": "merge", "d": d, "es": sop["es"], "sort_by": sop.get("sort_by")}
    if s == "filter":
        return {"op": "filter", "d": d, "filters": [[sop["path"], sop["value"]]]}
    if s == "del":
        return {"op": "del", "d": d, "path": sop["path"]}
    raise AssertionError(s)


# ---------------------------------------------------------------------------------------------
# random histories


def random_history(rng) -> List[dict]:
    ops: List[dict] = []
    nobj = [0]

    def obj(*a, **kw):
        ops.append(obj_op(*a, **kw))
        nobj[0] += 1
        return ("o", nobj[0] - 1)

    nds = rng.choice([1, 2, 2, 3])
    # a schema of named fields; each dataset takes a random subset of it
    schema = []
    names = ["a", "b", "c", "d", "e", "f", "g", "h"]
    # one history in five has plain columns only (bool / float / text): there every `extend` is also compared
    # with the list-of-records `extend` the model is proved to refine
    plain_only = rng.random() < 0.2
    for i, nm in enumerate(rng.sample(names, rng.randint(2, 7))):
        kind = rng.choice(["bool", "float", "float", "text"]) if plain_only else rng.choice(KINDS)
        ndim = 1
        cols = 1
        if kind in ("float", "bool", "text", "sigma") and rng.random() < 0.3:
            ndim, cols = 2, rng.choice([1, 2, 3])
        if kind in POSCOLS:
            ndim, cols = 2, POSCOLS[kind]
        where = rng.choice(["", "", "", "g1.", "g1.g2.", "g3."])
        schema.append({"path": where + nm, "kind": kind, "ndim": ndim, "cols": cols, "salt": i + 1,
                       "unit": rng.choice([None, "bit", "ounce"]) if kind in ("float", "sigma") else None})
    sizes = {}
    for d in range(nds):
        n = rng.choice([0, 1, 2, 3, 4, 5, 6, 7, 8])
        sizes[d] = n
        tags = [16 * d + r for r in range(n)]
        ops.append({"op": "new", "d": d, "n": n})
        shared_time = None
        pos_fields: List[tuple] = []
        for f in schema:
            if rng.random() < 0.2:
                continue  # missing in this dataset
            kind, ndim, cols = f["kind"], f["ndim"], f["cols"]
            if rng.random() < 0.04:
                # deliberate mismatch between datasets: another width / dimension
                if kind in ("float", "bool", "text"):
                    ndim, cols = (2, 2) if ndim == 1 else (1, 1)
            unit = f["unit"]
            if unit is not None and rng.random() < 0.3:
                unit = {"bit": "byte", "ounce": "pound"}[unit] if rng.random() < 0.8 else "pound"
            if f["unit"] is not None and rng.random() < 0.05:
                unit = None
            other = ref_pos = None
            if kind in ("position", "posvel"):
                same = [p for p, k in pos_fields if k == kind]
                r = rng.random()
                if same and r < 0.4:
                    other = ("f", d, rng.choice(same))
                elif r < 0.6:
                    other = obj(kind, 2, cols, tags, 40 + f["salt"])
            if kind in ("position_delta", "posvel_delta"):
                rk = "position" if kind == "position_delta" else "posvel"
                same = [p for p, k in pos_fields if k == rk]
                if same and rng.random() < 0.6:
                    ref_pos = ("f", d, rng.choice(same))
                else:
                    inner = None
                    if rng.random() < 0.3:
                        inner = obj(rk, 2, cols, tags, 60 + f["salt"])
                    ref_pos = obj(rk, 2, cols, tags, 50 + f["salt"], other=inner)
            if kind == "time" and shared_time is not None and rng.random() < 0.4:
                val = shared_time
            else:
                scale = fmt = None
                if kind in ("time", "time_delta") and rng.random() < 0.45:
                    # another time scale / format than the same field of the other datasets: `insert` converts
                    scale, fmt = random_time_tag(rng, kind)
                val = obj(kind, ndim, cols, tags, f["salt"], other=other, ref_pos=ref_pos,
                          tie_rich=(kind in ("float", "text") and ndim == 1 and rng.random() < 0.5), scale=scale, fmt=fmt)
                if kind == "time":
                    shared_time = val
            ops.append(add_op(d, f["path"], kind, val, unit=unit, level=rng.choice([1, 2, 3])))
            if kind in ("position", "posvel"):
                pos_fields.append((f["path"], kind))
    # sometimes an accumulator: a dataset without fields and without rows that the others are merged into
    # (`acc = Dataset(); for part in parts: acc.extend(part)`); the parts must not change when `acc` does
    acc = None
    if rng.random() < 0.25:
        acc = nds
        ops.append({"op": "new", "d": acc, "n": 0})
        nds += 1
    for o in ops[:-1]:
        o["setup"] = True
    # the operation sequence
    length = rng.randint(1, 25) if rng.random() < 0.7 else rng.randint(1, 5)
    if acc is not None and rng.random() < 0.8:
        ops.append({"op": "extend", "d": acc, "e": rng.randrange(acc)})
        ops.append(rng.choice([{"op": "extend", "d": acc, "e": rng.randrange(acc)},
                               {"sym": "rand_ints", "d": acc, "seed": rng.getrandbits(30)},
                               {"sym": "rand_mask", "d": acc, "p": 0.5, "seed": rng.getrandbits(30)}]))
    for _ in range(length):
        r = rng.random()
        d = rng.randrange(nds)
        if r < 0.22:
            ops.append({"sym": "rand_mask", "d": d, "p": rng.choice([0.0, 0.3, 0.6, 0.9, 1.0]), "seed": rng.getrandbits(30)})
        elif r < 0.40:
            ops.append({"sym": "rand_ints", "d": d, "seed": rng.getrandbits(30)})
        elif r < 0.62:
            e = rng.randrange(nds)
            ops.append({"op": "extend", "d": d, "e": e})
        elif r < 0.76:
            es = [rng.randrange(nds) for _ in range(rng.choice([0, 1, 1, 2]))]
            cand = [f["path"] for f in schema if f["ndim"] == 1 and f["kind"] in ("float", "text", "time", "bool")]
            sb = rng.choice(cand) if cand and rng.random() < 0.8 else None
            ops.append({"op": "merge", "d": d, "es": es, "sort_by": sb})
        elif r < 0.84:
            ops.append({"op": "del", "d": d, "path": rng.choice(schema)["path"]})
        elif r < 0.92:
            cand = [f for f in schema if f["ndim"] == 1 and f["kind"] in ("float", "text") and "." not in f["path"]]
            if cand:
                f = rng.choice(cand)
                t = rng.choice([0, 1, 2, 16, 17])
                v = ("n" + str(t + 100 * f["salt"])) if f["kind"] == "float" else ("t" + hexs(f"s{f['salt']}r{t}"))
                ops.append({"op": "filter", "d": d, "filters": [[f["path"], v]]})
        elif r < 0.96:
            ops.append({"sym": "late_add", "d": d})
        else:
            cand = [f["path"] for f in schema if f["ndim"] == 1 and f["kind"] in ("float", "text", "time", "bool")
                    and "." not in f["path"]]
            ib = None
            if cand and rng.random() < 0.7:
                ib = ",".join(rng.sample(cand, min(len(cand), rng.choice([1, 1, 2]))))
            ops.append({"op": "diff", "d": d, "e": rng.randrange(nds), "r": rng.randrange(nds + 1), "index_by": ib,
                        "cs": rng.random() < 0.5, "co": rng.random() < 0.5})
    return ops


TIME_SCALES = ["utc", "gps", "tai", "tt"]
TIME_FORMATS = ["mjd", "jd", "datetime", "jyear"]


def random_time_tag(rng, kind="time"):
    if kind == "time_delta":
        # there is no conversion between the scales of time deltas (UnknownConversionError): rarely
        return ("utc" if rng.random() < 0.93 else rng.choice(TIME_SCALES)), rng.choice(["days", "seconds", "jd", "timedelta"])
    scale = rng.choice(TIME_SCALES)
    r = rng.random()
    if scale == "gps" and r < 0.2:
        # formats of the GPS scale only; they have no value for the empty epoch: padding such a field is refused (ValueError)
        return scale, ("gps_seconds" if r < 0.13 else "gps_ws")
    return scale, rng.choice(TIME_FORMATS)


# ---------------------------------------------------------------------------------------------
# histories around time fields: several time fields per dataset, scale and format differing between the datasets,
# equal epochs in separate arrays, epochs microseconds apart, merge with a time field as the sort key

EPOCH_US = [0, 5, 15, 20, 30, 45, 1_000_000, 1_000_010, 43_200_000_000, 43_200_000_025, 86_399_999_990]


def time_history(rng) -> List[dict]:
    ops: List[dict] = []
    nobj = [0]

    def push(op):
        ops.append(op)
        nobj[0] += 1
        return ("o", nobj[0] - 1)

    nds = rng.choice([2, 2, 2, 3])
    tnames = ["sent", "received", "t3"][: rng.choice([2, 2, 3])]
    nested = rng.random() < 0.25
    base_tag = random_time_tag(rng)
    for d in range(nds):
        n = rng.choice([0, 1, 1, 2, 2, 3, 4, 5])
        tags = [16 * d + r for r in range(n)]
        ops.append({"op": "new", "d": d, "n": n})
        # the datasets agree on scale and format, or differ in the scale, the format, or both
        r = rng.random()
        ds_tag = base_tag if (d == 0 or r < 0.2) else random_time_tag(rng)
        mode = rng.random()   # how the time fields of this dataset relate to each other
        first = None
        first_vals = None
        first_scale = None
        for i, nm in enumerate(tnames):
            if rng.random() < 0.08:
                continue  # missing here: padded with empty epochs by extend
            tag = ds_tag if rng.random() < 0.85 else random_time_tag(rng)
            if first is not None and mode < 0.15:
                val = first                                 # one array under two names
            elif first is not None and n > 0 and rng.random() < 0.15:
                # the reading of the first field in another time scale (the cached conversion result itself) as a field
                others = [x for x in TIME_SCALES if x != first_scale]
                to = base_tag[0] if base_tag[0] in others and rng.random() < 0.6 else rng.choice(others)
                val = push({"op": "obj", "kind": "time", "ndim": 1, "cols": 1, "vals": [], "conv_of": first, "scale": to})
            else:
                if first_vals is not None and mode < 0.55:
                    vals = [list(v) for v in first_vals]    # equal epochs in a separate array
                else:
                    vals = [[7305 + rng.choice([0, 0, 0, 1]), rng.choice(EPOCH_US)] for _ in range(n)]
                val = push({"op": "obj", "kind": "time", "ndim": 1, "cols": 1, "vals": vals, "scale": tag[0], "fmt": tag[1]})
                if first is None:
                    first, first_vals, first_scale = val, vals, tag[0]
            ops.append(add_op(d, ("g." if nested and i == 1 else "") + nm, "time", val, level=rng.choice([1, 2, 3])))
        ops.append(add_op(d, "x", "float", push(obj_op("float", 1, 1, tags, 2))))
        if rng.random() < 0.5:
            ops.append(add_op(d, "station", "text", push(obj_op("text", 1, 1, tags, 3))))
    for o in ops[:-1]:
        o["setup"] = True
    for _ in range(rng.choice([1, 2, 2, 3, 4])):
        r = rng.random()
        d = rng.randrange(nds)
        e = rng.choice([x for x in range(nds) if x != d]) if rng.random() < 0.9 else d
        key = rng.choice(tnames)
        key = ("g." if nested and key == tnames[1] else "") + key
        if r < 0.35:
            ops.append({"op": "extend", "d": d, "e": e})
        elif r < 0.75:
            ops.append({"op": "merge", "d": d, "es": [e] if rng.random() < 0.8 else [], "sort_by": key})
        elif r < 0.85:
            ops.append({"sym": "rand_ints", "d": d, "seed": rng.getrandbits(30)})
        elif r < 0.93:
            ops.append({"sym": "rand_mask", "d": d, "p": 0.6, "seed": rng.getrandbits(30)})
        else:
            ops.append({"op": "merge", "d": d, "es": [x for x in range(nds) if x != d], "sort_by": key if rng.random() < 0.7 else "x"})
    return ops


# ---------------------------------------------------------------------------------------------
# histories around `difference`

KEY_POOL = {
    "text": ["a", "b", "ab", "abc", "b1", "ba", "c", "ca", "", "B"],   # different lengths on purpose
    "float": [0.0, 1.0, 2.0, 2.5, -1.0, 3.0, 10.0, 0.5],
    "bool": [False, True],
    "time": [51544.0, 51545.0, 51546.0, 51547.0, 51550.0, 51543.0],
}


def _raw_obj(kind, vals):
    return {"op": "obj", "kind": kind, "ndim": 1, "cols": 1, "vals": list(vals)}


def diff_history(rng) -> List[dict]:
    """Two datasets built for `difference`: 0..2 index fields (text / float / bool / time) whose key tuples come from a
    small universe (so: common keys at other row positions, duplicates, keys on one side only, sometimes none in
    common), value fields of every type at the top level and in collections nested up to depth 2 (each present in one
    or both datasets), differing / incompatible / one-sided units; then the difference (into a new slot or replacing an
    operand) with random copy flags, and a few operations on the result."""
    ops: List[dict] = []
    nobj = [0]

    def push_obj(op):
        ops.append(op)
        nobj[0] += 1
        return ("o", nobj[0] - 1)

    def obj(*a, **kw):
        return push_obj(obj_op(*a, **kw))

    nkeys = rng.choice([0, 1, 1, 1, 2, 2, 3])
    key_kinds = [rng.choice(["text", "text", "float", "float", "time", "bool"]) for _ in range(nkeys)]
    key_names = [f"k{i}" for i in range(nkeys)]
    universe = []
    if nkeys:
        usize = rng.randint(1, 7)
        seen = set()
        for _ in range(40):
            t = tuple(rng.choice(KEY_POOL[k]) for k in key_kinds)
            if t not in seen:
                seen.add(t)
                universe.append(t)
            if len(universe) >= usize:
                break
    na = rng.choice([0, 1, 2, 3, 4, 5, 6, 7, 8])
    nb = na if (nkeys == 0 and rng.random() < 0.85) else rng.choice([0, 1, 2, 3, 4, 5, 6, 7, 8])
    mode = rng.random()
    schema = []
    names = ["a", "b", "c", "d", "e", "f", "g", "h"]
    for i, nm in enumerate(rng.sample(names, rng.randint(2, 7))):
        kind = rng.choice(KINDS + ["float", "float", "text"])
        ndim, cols = 1, 1
        if kind in ("float", "bool", "text", "sigma") and rng.random() < 0.3:
            ndim, cols = 2, rng.choice([1, 2, 3])
        if kind in POSCOLS:
            ndim, cols = 2, POSCOLS[kind]
        where = rng.choice(["", "", "g1.", "g1.", "g1.g2.", "g1.g2.", "g3."])
        schema.append({"path": where + nm, "kind": kind, "ndim": ndim, "cols": cols, "salt": i + 1,
                       "unit": rng.choice([None, "bit", "ounce"]) if kind in ("float", "sigma") else None})
    for d, n in ((0, na), (1, nb)):
        tags = [16 * d + r for r in range(n)]
        ops.append({"op": "new", "d": d, "n": n})
        # the index fields; dataset 1 sometimes has them after the value fields (field order must not matter)
        if nkeys:
            if mode < 0.08:
                # nothing in common: the two datasets draw from disjoint halves of the universe
                half = universe[: max(1, len(universe) // 2)] if d == 0 else universe[max(1, len(universe) // 2):]
                src = half or [tuple(("zz" if k == "text" else 99.0 if k == "float" else 51599.0 if k == "time" else True)
                                     for k in key_kinds)]
            else:
                src = universe
            rows = [rng.choice(src) for _ in range(n)]
            if d == 1 and mode > 0.9:
                rows = sorted(rows, key=repr)
        pos_fields: List[tuple] = []
        key_ops = []
        for j, (nm, kk) in enumerate(zip(key_names, key_kinds)):
            if rng.random() < 0.03:
                continue  # an index field missing in this dataset: AttributeError expected
            ref = push_obj(_raw_obj(kk, [r[j] for r in rows]))
            key_ops.append(add_op(d, nm, kk, ref, level=rng.choice([1, 2, 3])))
        late_keys = d == 1 and rng.random() < 0.3
        if not late_keys:
            ops.extend(key_ops)
        for f in schema:
            if rng.random() < 0.15:
                continue  # only in the other dataset
            kind, ndim, cols = f["kind"], f["ndim"], f["cols"]
            if rng.random() < 0.02 and kind in ("float", "bool", "text"):
                ndim, cols = (2, 2) if ndim == 1 else (1, 1)
            unit = f["unit"]
            if unit is not None and rng.random() < 0.35:
                unit = {"bit": "byte", "ounce": "pound"}[unit] if rng.random() < 0.85 else "pound"
            if f["unit"] is not None and rng.random() < 0.06:
                unit = None
            other = ref_pos = None
            if kind in ("position", "posvel"):
                same = [p for p, k in pos_fields if k == kind]
                r = rng.random()
                if same and r < 0.4:
                    other = ("f", d, rng.choice(same))
                elif r < 0.6:
                    other = obj(kind, 2, cols, tags, 40 + f["salt"])
            if kind in ("position_delta", "posvel_delta"):
                rk = "position" if kind == "position_delta" else "posvel"
                same = [p for p, k in pos_fields if k == rk]
                if same and rng.random() < 0.6:
                    ref_pos = ("f", d, rng.choice(same))
                else:
                    inner = obj(rk, 2, cols, tags, 60 + f["salt"]) if rng.random() < 0.3 else None
                    ref_pos = obj(rk, 2, cols, tags, 50 + f["salt"], other=inner)
            val = obj(kind, ndim, cols, tags, f["salt"], other=other, ref_pos=ref_pos)
            ops.append(add_op(d, f["path"], kind, val, unit=unit, level=rng.choice([1, 2, 3])))
            if kind in ("position", "posvel"):
                pos_fields.append((f["path"], kind))
        if late_keys:
            ops.extend(key_ops)
    for o in ops[:-1]:
        o["setup"] = True
    index_by = None
    if nkeys:
        sep = rng.choice([",", ", ", " , "])
        index_by = sep.join(key_names if rng.random() < 0.8 else rng.sample(key_names, len(key_names)))
    r = rng.choice([2, 2, 2, 0, 1])
    ops.append({"op": "diff", "d": 0, "e": 1, "r": r, "index_by": index_by, "cs": rng.random() < 0.5,
                "co": rng.random() < 0.5})
    text_fields = [f for f in schema if f["kind"] == "text" and f["ndim"] == 1]
    if text_fields and (ops[-1]["cs"] or ops[-1]["co"]) and rng.random() < 0.3:
        # the text field survives only as `<name>_self` / `<name>_other`: `Dataset.filter` falls back on those
        f = rng.choice(text_fields)
        ops.append({"op": "filter", "d": r, "filters": [[f["path"], "t" + hexs(f"s{f['salt']}r{rng.choice([0, 1, 2, 16, 17])}")]]})
    for _ in range(rng.choice([0, 0, 1, 2, 3])):
        x = rng.random()
        if x < 0.2:
            ops.append({"sym": "rand_mask", "d": r, "p": rng.choice([0.3, 0.6, 1.0]), "seed": rng.getrandbits(30)})
        elif x < 0.4:
            ops.append({"sym": "rand_ints", "d": r, "seed": rng.getrandbits(30)})
        elif x < 0.55:
            ops.append({"op": "extend", "d": r, "e": r})
        elif x < 0.7:
            # the difference of the result with itself, by position
            ops.append({"op": "diff", "d": r, "e": r, "r": rng.choice([r, 3]), "index_by": None,
                        "cs": rng.random() < 0.5, "co": rng.random() < 0.5})
        elif x < 0.8 and index_by:
            ops.append({"op": "merge", "d": r, "es": [], "sort_by": key_names[0]})
        elif x < 0.9:
            # the other way round, into another slot, then the two results are joined
            ops.append({"op": "diff", "d": 1, "e": 0, "r": 3, "index_by": index_by, "cs": rng.random() < 0.5,
                        "co": rng.random() < 0.5})
            ops.append({"op": "extend", "d": r, "e": 3})
        elif x < 0.94:
            ops.append({"op": "del", "d": r, "path": rng.choice(schema)["path"]})
        else:
            # filter on a text field: after the difference it exists only as `<name>_self` / `<name>_other`, which
            # `Dataset.filter` falls back on (a row passes when either has the value)
            cand = [f for f in schema if f["kind"] == "text" and f["ndim"] == 1]
            if cand:
                f = rng.choice(cand)
                t = rng.choice([0, 1, 2, 16, 17, 18])
                ops.append({"op": "filter", "d": r, "filters": [[f["path"], "t" + hexs(f"s{f['salt']}r{t}")]]})
    return ops


def _concretise_random(sop, rw):
    import random as _r

    d = sop["d"]
    n = max(int(rw.ds[d].num_obs), 0) if d in rw.ds else 0
    g = _r.Random(sop["seed"])
    if sop["sym"] == "rand_mask":
        m = [g.random() < sop["p"] for _ in range(n)]
        if g.random() < 0.03:
            m = m + [True]  # wrong length: IndexError expected
        return {"op": "subset", "d": d, "mask": m, "how": "mask"}
    k = g.randint(0, n + 2)
    ints = [g.randint(-n, n - 1) for _ in range(k)] if n > 0 else []
    if n > 0 and g.random() < 0.03:
        ints.append(n)  # out of range: IndexError expected
    return {"op": "subset", "d": d, "ints": ints, "how": "ints"}


def concretise(sop: dict, rw: RealWorld) -> List[dict]:
    """symbolic operation -> list of concrete operations against the current real num_obs"""
    if "op" in sop:
        return [dict(sop)]
    if sop["sym"] in ("rand_mask", "rand_ints"):
        return [_concretise_random(sop, rw)]
    if sop["sym"] == "late_add":
        # a fresh float object of the current length, added as a new top-level field
        d = sop["d"]
        n = max(int(rw.ds[d].num_obs), 0) if d in rw.ds else 0
        gen = len(rw.objs)
        tags = [64 + 16 * d + r + 64 * (gen % 3) for r in range(n)]
        return [obj_op("float", 1, 1, tags, 30 + gen % 7, late=True),
                add_op(d, f"late{gen}", "float", ("o", gen), late=True)]
    return [_concretise_sym(sop, rw)]
