"""C01 — time-scale conversions agree with the defined offsets and are invertible.

translate:   translator/extract_time.py → lean/Midgard/Generated/TimeScaleTables.lean
prove:       lean/Midgard/Props/C01.lean
correspond:  every single conversion (25 ordered pairs) of boundary-dense and random epochs,
             real `TimeArray.to_scale` vs the Lean model on the same exact rationals
oracle:      the defining relations against the *published* values (harness/data/taiutc_published.json),
             A→B→A and A→B→C = A→C to 10 ns, element alignment, scalar = array — on the real code only
"""
from __future__ import annotations

import json
import math
from datetime import date
from fractions import Fraction as F
from pathlib import Path

import numpy as np

from . import common
from .common import Ctx, frac, rs

SCALES = ["utc", "tai", "gps", "tt", "tcg"]
DAY_US = 86400 * 10**6
NS10 = F(10, 86400 * 10**9)  # 10 ns in days
NS1 = F(1, 86400 * 10**9)
CORR_TOL = F(1, 10**14)  # model vs code, days (0.86 ns)
MJD0 = F(4800001, 2)


# ------------------------------------------------------------------------------------------
# the published relations, independent of repository and of the Lean model


def _load_published():
    d = json.loads((Path(__file__).parent / "data" / "taiutc_published.json").read_text())
    rows = []
    for y, m, dd, off, ref, rate in d["entries"]:
        jd = F(date(y, m, dd).toordinal() + 1721425) - F(1, 2)  # JD of 0h
        rows.append((jd, F(off), F(ref), F(rate)))
    return rows, F(d["L_G"]), F(d["T_0"]), F(d["TT_minus_TAI"]), F(d["TAI_minus_GPS"])


PUB, L_G, T_0, TT_TAI, TAI_GPS = _load_published()


def pub_row(u: F) -> int:
    i = 0
    for k, r in enumerate(PUB):
        if r[0] <= u:
            i = k
    return i


def pub_delta(i: int, u: F) -> F:
    """TAI-UTC in days from published row i at UTC Julian date u"""
    _, off, ref, rate = PUB[i]
    return (off + (u - MJD0 - ref) * rate) / 86400


def exact_to_tai(scale: str, x: F):
    """exact TAI instant of label x in `scale` by the defining relations (utc: published row in force)"""
    if scale == "tai":
        return x
    if scale == "gps":
        return x + TAI_GPS / 86400
    if scale == "tt":
        return x - TT_TAI / 86400
    if scale == "tcg":
        # tt = tcg - L_G (tcg - T0)
        tt = x - L_G * (x - T_0)
        return tt - TT_TAI / 86400
    if scale == "utc":
        return x + pub_delta(pub_row(x), x)
    raise ValueError(scale)


def exact_from_tai(scale: str, tau: F):
    if scale == "tai":
        return tau
    if scale == "gps":
        return tau - TAI_GPS / 86400
    if scale == "tt":
        return tau + TT_TAI / 86400
    if scale == "tcg":
        tt = tau + TT_TAI / 86400
        return tt + L_G / (1 - L_G) * (tt - T_0)
    raise ValueError(scale)


def tai_status(tau: F):
    """'inserted' if the TAI instant lies inside an inserted (positive) step, 'edge' if within 2e-14 d
    of a TAI-side switch instant (the code's rounding guard), else 'ok'"""
    guard = F(2, 10**14)
    for k in range(1, len(PUB)):
        b = PUB[k][0]
        e_old = b + pub_delta(k - 1, b)
        s_new = b + pub_delta(k, b)
        if e_old <= tau < s_new:
            # the last `guard` of the inserted step already maps to the new row
            return "inserted"
        if abs(tau - s_new) <= guard or abs(tau - e_old) <= guard:
            return "edge"
    return "ok"


def utc_status(u: F):
    """'skipped' for labels removed by a negative step, 'edge' within the rounding guard before a boundary"""
    guard = F(2, 10**14)
    for k in range(1, len(PUB)):
        b = PUB[k][0]
        step = pub_delta(k, b) - pub_delta(k - 1, b)
        if step < 0 and b + step - guard <= u < b:
            return "skipped"
        if b - guard <= u < b:
            return "edge"
    return "ok"


# ------------------------------------------------------------------------------------------


def _imp():
    from midgard.data.time import Time

    return Time


def parts(t):
    j1 = np.atleast_1d(np.asarray(t.jd1, dtype=float))
    j2 = np.atleast_1d(np.asarray(t.jd2, dtype=float))
    return j1, j2


def insts(t):
    j1, j2 = parts(t)
    return [frac(a) + frac(b) for a, b in zip(j1, j2)]


def gen_labels(ctx: Ctx):
    """labels (as integer microseconds relative to a half-integer JD) — boundary-dense + random"""
    rng = ctx.rng
    out = []  # (B, offset_us)
    offs = [0] + [s * k for k in range(1, 26) for s in (1, -1)] + [s * v for v in (1000, 500000, 1000000, 2000000) for s in (1, -1)]
    offs += [s * v for v in (999999, 1000001, 1422818, 1647570, 35000000, 36000000, 37000000, 32184000, 19000000) for s in (1, -1)]
    bounds = [r[0] for r in PUB]
    nb = len(bounds) if ctx.thorough else 12
    chosen = bounds if ctx.thorough else ([bounds[0], bounds[1], bounds[12], bounds[13], bounds[-1], bounds[-2]] + rng.sample(bounds[2:-2], nb - 6))
    for b in chosen:
        for o in offs:
            out.append((b, o))
        for _ in range(ctx.budget(20, 150)):
            out.append((b, rng.randint(-2_000_000, 2_000_000)))
        # TAI-side switch instants: boundary + TAI-UTC (so that TAI/GPS/TT labels sit on the switch)
        k = bounds.index(b)
        for kk in ([k - 1, k] if k > 0 else [k]):
            d_us = pub_delta(kk, b) * DAY_US
            if d_us.denominator == 1:
                for o in (0, 1, -1, 5, -5):
                    out.append((b, int(d_us) + o))
    lo, hi = int(bounds[0] + F(1, 2)), 2488069  # 1961-01-01 .. 2100-01-01
    for _ in range(ctx.budget(300, 13000)):
        out.append((F(rng.randint(lo, hi)) - F(1, 2), rng.randint(0, DAY_US - 1)))
    return out


def build(Time, scale, labels):
    """one array of two-part jd labels in `scale`"""
    v1, v2 = [], []
    for b, o in labels:
        tot = F(o, DAY_US)
        d = math.floor(tot)
        v1.append(float(b + d))
        v2.append(float(tot - d))
    return Time(np.array(v1), val2=np.array(v2), fmt="jd", scale=scale)


def run(ctx: Ctx):
    from translator import extract_time

    changed = extract_time.generate()
    ctx.count("generated-table-changed" if changed else "generated-table-unchanged")
    ctx.proof = common.prove("C01")
    Time = _imp()
    drv = ctx.driver
    ctx.rule = ("labels = every chosen TAI-UTC boundary ± {0, 1..25 µs, 1 ms, 0.5 s, 1 s, 2 s, TAI-UTC itself} + random µs "
                "offsets within ±2 s + uniform 1961..2100, taken as labels of each of the 5 scales; each converted to all 5 "
                "scales (arrays), a sample also as scalar / length-1; non-trivial = source ≠ target scale; distinct by (scale pair, label)")
    ctx.extra["source_flow"] = extract_time.generate_flow()[1]
    ctx.extra["source_purity_entries"] = extract_time.generate_purity()[1]
    ctx.trusted += ["translator/extract_time.py (reads _taiutc.txt as text, constants and hop registry by import)",
                    "translator/extract_timeflow.py (`ast` -> Lean for the row selection, the route search and to_scale; refuses anything outside its fragment)",
                    "Spec/TaiUtcPublished.lean and harness/data/taiutc_published.json typed from the IERS history",
                    "floating-point error is measured (model vs code ≤ 1e-14 d) not proved",
                    "NumPy broadcasting of the row lookup modelled as map over elements"]
    ctx.assumptions += ["UTC labels skipped by the negative steps of 1961-08-01 / 1968-02-01 are not epochs (no implementation can invert them); "
                        "TAI instants inside an inserted step are excluded as the property grants; "
                        "epochs within 2e-14 d of a switch instant are excluded (the code's 1e-14 d rounding guard)"]
    labels = gen_labels(ctx)
    ctx.extra["labels"] = len(labels)

    # rows of the regenerated table for the near-switch guard of the correspondence
    rows, consts, hops, units, scales = extract_time.extract()
    tol = consts[3]
    utc_sw = [r[0] - tol for r in rows if len(r) == 5]
    tai_sw = [r[0] + (r[2] + (r[0] - MJD0 - r[3]) * r[4]) / 86400 - tol for r in rows if len(r) == 5]

    def near_switch(scale, x: F) -> bool:
        sw = utc_sw if scale == "utc" else tai_sw if scale == "tai" else None
        if sw is None:
            return False
        return any(abs(x - s) < F(1, 10**15) for s in sw)

    conv = {}  # (a, b) -> converted array object
    src = {}
    for a in SCALES:
        try:
            ta = build(Time, a, labels)
        except Exception as e:
            ctx.violate(f"construct:{a}", f"constructing a {a} time array raised {type(e).__name__}: {e}", {"scale": a})
            continue
        src[a] = ta
        a1, a2 = parts(ta)
        for b in SCALES:
            try:
                tb = getattr(ta, b)
            except Exception as e:
                ctx.violate(f"convert-raises:{a}->{b}", f"{a}->{b} raised {type(e).__name__}: {e}", {"a": a, "b": b})
                continue
            conv[(a, b)] = tb
            b1, b2 = parts(tb)
            if len(b1) != len(a1):
                ctx.violate(f"length:{a}->{b}", f"{a}->{b}: {len(a1)} epochs in, {len(b1)} out", {"a": a, "b": b})
                continue
            if getattr(tb, "scale", None) != b:
                ctx.violate(f"scale-label:{a}->{b}", f"result of {a}->{b} is labelled {getattr(tb, 'scale', None)}", {"a": a, "b": b})
            # ---------- correspondence with the model
            lines = [f"c01 convert {a} {b} {rs(x)} {rs(y)}" for x, y in zip(a1, a2)]
            ans = drv.ask(lines)
            for i, an in enumerate(ans):
                case = {"a": a, "b": b, "label": [str(labels[i][0]), labels[i][1]], "jd1": float(a1[i]), "jd2": float(a2[i])}
                ctx.case([a, b, str(labels[i][0]), labels[i][1]], nontrivial=(a != b))
                if an == "none" or an == "bad-op":
                    ctx.disagree("to_scale vs model.convert", case, an, [float(b1[i]), float(b2[i])])
                    continue
                m1, m2 = (F(x) for x in an.split())
                got = frac(b1[i]) + frac(b2[i])
                if abs(got - (m1 + m2)) > CORR_TOL or frac(b1[i]) != m1:
                    # a conversion chain passes through TAI (and UTC): tolerate a different row only where the
                    # exact instant sits on a switch within float noise
                    x = frac(a1[i]) + frac(a2[i])
                    tau = exact_to_tai(a, x) if a != "utc" else None
                    if near_switch(a, x) or (tau is not None and near_switch("tai", tau)):
                        ctx.count("near-switch-skipped")
                        continue
                    ctx.disagree("to_scale vs model.convert", case, an, [str(frac(b1[i])), str(frac(b2[i]))])
            ctx.count(f"pair:{a}->{b}", len(a1))
        ctx.traces += len(a1) * len(SCALES)

    # routes
    from midgard.data import _time as T_

    for a in SCALES:
        for b in SCALES:
            if a == b:
                continue
            try:
                impl = T_._find_conversion_hops("TimeArray", (a, b)) if (a, b) not in T_._CONVERSIONS["TimeArray"] else [(a, b)]
                impl_s = ",".join(f"{x}>{y}" for x, y in impl)
            except Exception as e:
                impl_s = f"ERR:{type(e).__name__}"
            m = drv.ask1(f"c01 route {a} {b}")
            ctx.case(["route", a, b])
            if m != impl_s:
                ctx.disagree("conversion route", {"a": a, "b": b}, m, impl_s)

    row_selection(ctx, T_, src, near_switch)
    route_search(ctx, T_)
    oracle(ctx, Time, labels, src, conv)


def row_selection(ctx: Ctx, T_, src, near_switch):
    """the index `_taiutc_idx` returns inside `delta_tai_utc` (recorded while the unmodified function runs) against the model's
    row lookup and against the regenerated transcription of the source (`c01 row` / `c01 rowsrc`), for every utc and tai label"""
    drv = ctx.driver
    for scale in ("utc", "tai"):
        if scale not in src:
            continue
        t = src[scale]
        rec = []
        orig = getattr(T_, "_taiutc_idx", None)
        if orig is None:
            ctx.disagree("row selection", {"scale": scale}, "model: _taiutc_idx", "no function _taiutc_idx in the source")
            continue

        def wrap(*a, _o=orig, **k):
            r = _o(*a, **k)
            rec.append((np.array(r), [np.array(x, dtype=float) for x in a[:2]]))
            return r

        T_._taiutc_idx = wrap
        try:
            T_.delta_tai_utc(t)
        except Exception as e:
            ctx.violate(f"delta_tai_utc-raises:{scale}", f"{type(e).__name__}: {e}", {"scale": scale})
            continue
        finally:
            T_._taiutc_idx = orig
        a1, a2 = parts(t)
        if len(rec) != 1 or np.shape(rec[0][0]) != np.shape(a1):
            ctx.disagree("row selection", {"scale": scale}, "one lookup per epoch with (jd1, jd2) of the time",
                         f"{len(rec)} call(s) of _taiutc_idx, result shape {[np.shape(r[0]) for r in rec]} for {np.shape(a1)} epochs")
            continue
        idx = rec[0][0]
        ans = drv.ask([f"c01 row {scale} {rs(x)} {rs(y)}" for x, y in zip(a1, a2)])
        ans2 = drv.ask([f"c01 rowsrc {scale} {rs(x)} {rs(y)}" for x, y in zip(a1, a2)])
        rows_hit = set()
        for i, (m, m2) in enumerate(zip(ans, ans2)):
            ctx.case(["row", scale, float(a1[i]), float(a2[i])])
            if m != m2:
                ctx.disagree("row selection: model vs regenerated source", {"scale": scale, "jd1": float(a1[i]), "jd2": float(a2[i])}, m, m2)
            if str(int(idx[i])) != m:
                x = frac(a1[i]) + frac(a2[i])
                if near_switch(scale, x):
                    ctx.count("near-switch-skipped")
                    continue
                ctx.disagree("row selection: _taiutc_idx vs model", {"scale": scale, "jd1": float(a1[i]), "jd2": float(a2[i])}, m, int(idx[i]))
            rows_hit.add(int(idx[i]))
        ctx.count(f"row-lookups:{scale}", len(ans))
        ctx.extra[f"rows_hit_{scale}"] = len(rows_hit)
        ctx.traces += len(ans)


def route_search(ctx: Ctx, T_):
    """`_find_conversion_hops` of the real module on random registries (a scratch class key in `_CONVERSIONS`, removed afterwards)
    against the model's breadth-first search and the regenerated transcription; then the memoised routes of the real registry"""
    drv = ctx.driver
    rng = ctx.rng
    KEY = "VerifProbeArray"
    pairs = [(a, b) for a in SCALES for b in SCALES]
    lines, want = [], []
    try:
        for _ in range(ctx.budget(400, 4000)):
            k = rng.choice([0, 1, 2, 3, 4, 5, 6, 8, 10, 12, 16])
            edges = rng.sample(pairs, min(k, len(pairs)))
            if rng.random() < 0.7:
                edges = [e for e in edges if e[0] != e[1]]
            a, b = rng.choice(SCALES), rng.choice(SCALES)
            if rng.random() < 0.6:
                # a chain through some of the scales (so that long routes, cycles and several routes of equal length occur),
                # a few extra hops, registration order shuffled
                order = rng.sample(SCALES, rng.randint(2, 5))
                chain = list(zip(order, order[1:]))
                if rng.random() < 0.4:
                    chain += [(y, x) for x, y in chain]
                edges = list(dict.fromkeys(chain + edges[: rng.randint(0, 4)]))
                rng.shuffle(edges)
                if rng.random() < 0.7:
                    a, b = order[0], order[-1]
            T_._CONVERSIONS[KEY] = {e: None for e in edges}
            try:
                r = T_._find_conversion_hops(KEY, (a, b))
                impl = ",".join(f"{x}>{y}" for x, y in r) if r else "[]"
            except Exception as e:
                impl = "none" if type(e).__name__ == "UnknownConversionError" else f"ERR:{type(e).__name__}"
            g = ",".join(f"{x}>{y}" for x, y in edges) or "-"
            lines += [f"c01 search model {g} {a} {b}", f"c01 search src {g} {a} {b}"]
            want.append((g, a, b, impl))
    finally:
        T_._CONVERSIONS.pop(KEY, None)
    ans = drv.ask(lines)
    for i, (g, a, b, impl) in enumerate(want):
        m, m2 = ans[2 * i], ans[2 * i + 1]
        case = {"registry": g, "a": a, "b": b}
        ctx.case(["search", g, a, b], nontrivial=(a != b))
        ctx.count("search:start=target" if a == b else "search:unreachable" if impl == "none" else f"search:hops={impl.count('>')}" if not impl.startswith("ERR") else "search:error")
        if m != m2:
            ctx.disagree("route search: model vs regenerated source", case, m, m2)
        if m != impl:
            ctx.disagree("route search: _find_conversion_hops vs model", case, m, impl)
    ctx.traces += len(want)
    # the memo of to_scale holds, for every pair it has served, the route a fresh search gives
    for (a, b), memo in list(T_._CONVERSION_HOPS.get("TimeArray", {}).items()):
        try:
            fresh = T_._find_conversion_hops("TimeArray", (a, b))
        except Exception as e:
            fresh = f"ERR:{type(e).__name__}"
        ctx.count("route-memo-checked")
        if list(memo) != fresh:
            ctx.violate(f"route-memo:{a}->{b}", f"memoised route {memo} differs from a fresh search {fresh}", {"a": a, "b": b})


def oracle(ctx: Ctx, Time, labels, src, conv):
    n = len(labels)
    # (a) defining relations, against the published values
    for a in SCALES:
        if a not in src:
            continue
        xa = insts(src[a])
        for b in SCALES:
            if (a, b) not in conv or a == b:
                continue
            yb = insts(conv[(a, b)])
            if len(yb) != n:
                continue
            bad = 0
            for i in range(n):
                x = xa[i]
                if a == "utc":
                    st = utc_status(x)
                    if st == "edge":
                        ctx.count("oracle-skip:utc-edge")
                        continue
                    tau = exact_to_tai("utc", x)
                else:
                    tau = exact_to_tai(a, x)
                if b == "utc":
                    st = tai_status(tau)
                    if st != "ok":
                        ctx.count(f"oracle-skip:tai-{st}")
                        continue
                    # invert: find u with u + delta(u) = tau  (row by TAI-side start)
                    k = 0
                    for kk in range(len(PUB)):
                        bnd = PUB[kk][0]
                        if bnd + pub_delta(kk, bnd) <= tau:
                            k = kk
                    _, off, ref, rate = PUB[k]
                    d = (off + (tau - MJD0 - ref) * rate) / (1 + rate / 86400) / 86400
                    want = tau - d
                else:
                    want = exact_from_tai(b, tau)
                if abs(yb[i] - want) >= NS1 * 2:
                    bad += 1
                    if bad <= 3:
                        ctx.violate(f"defining-relation:{a}->{b}",
                                    f"{a}->{b} differs from the defined relation by {float((yb[i] - want) * 86400):.3e} s",
                                    {"a": a, "b": b, "label_jd": str(labels[i][0]), "offset_us": labels[i][1],
                                     "jd1": float(parts(src[a])[0][i]), "jd2": float(parts(src[a])[1][i])})
            ctx.count(f"oracle-defining:{a}->{b}", n)

    # (b)+(c) A->B->A and A->B->C = A->C on the real code
    for a in SCALES:
        if a not in src:
            continue
        xa = insts(src[a])
        status_a = []
        for x in xa:
            if a == "utc":
                status_a.append(utc_status(x))
            else:
                status_a.append(tai_status(exact_to_tai(a, x)))
        for b in SCALES:
            if (a, b) not in conv:
                continue
            tb = conv[(a, b)]
            for c in SCALES:
                try:
                    via = getattr(tb, c)
                except Exception as e:
                    ctx.violate(f"convert-raises:{a}->{b}->{c}", f"{type(e).__name__}: {e}", {"a": a, "b": b, "c": c})
                    continue
                if (a, c) not in conv:
                    continue
                direct = insts(conv[(a, c)])
                y = insts(via)
                if len(y) != n:
                    ctx.violate(f"length:{a}->{b}->{c}", "length changed", {"a": a, "b": b, "c": c})
                    continue
                bad = 0
                for i in range(n):
                    st = status_a[i]
                    if a == "utc" and st == "skipped" and c == "utc":
                        ctx.count("oracle-skip:skipped-label-roundtrip")
                        continue
                    if a != "utc" and st != "ok" and (b == "utc" or c == "utc"):
                        ctx.count(f"oracle-skip:two-hop-tai-{st}")
                        continue
                    if a == "utc" and st == "edge":
                        ctx.count("oracle-skip:utc-edge")
                        continue
                    if abs(y[i] - direct[i]) >= NS10:
                        bad += 1
                        if bad <= 2:
                            ctx.violate(f"path:{a}->{b}->{c}",
                                        f"{a}->{b}->{c} differs from {a}->{c} by {float((y[i] - direct[i]) * 86400):.3e} s",
                                        {"a": a, "b": b, "c": c, "label_jd": str(labels[i][0]), "offset_us": labels[i][1],
                                         "jd1": float(parts(src[a])[0][i]), "jd2": float(parts(src[a])[1][i])})
                ctx.count("oracle-two-hop-elements", n)

    # (d) element alignment and scalar = length-1 = array
    rng = ctx.rng
    idxs = rng.sample(range(n), min(n, ctx.budget(60, 600)))
    for a in SCALES:
        if a not in src:
            continue
        a1, a2 = parts(src[a])
        perm = list(range(n))
        rng.shuffle(perm)
        try:
            tp = Time(a1[perm], val2=a2[perm], fmt="jd", scale=a)
        except Exception as e:
            ctx.violate("construct-permuted", f"{type(e).__name__}: {e}", {"a": a})
            continue
        for b in SCALES:
            if (a, b) not in conv:
                continue
            r1, r2 = parts(conv[(a, b)])
            try:
                p1, p2 = parts(getattr(tp, b))
            except Exception as e:
                ctx.violate(f"convert-raises:{a}->{b}", f"{type(e).__name__}: {e}", {"a": a, "b": b})
                continue
            if len(p1) != n or not (np.array_equal(p1, r1[perm]) and np.array_equal(p2, r2[perm])):
                k = next((i for i in range(min(n, len(p1))) if p1[i] != r1[perm[i]] or p2[i] != r2[perm[i]]), 0)
                ctx.violate(f"alignment:{a}->{b}", "converting a permuted array is not the permutation of the converted array",
                            {"a": a, "b": b, "element": k, "jd1": float(a1[perm[k]]), "jd2": float(a2[perm[k]])})
            # short arrays cut out of the label set, both ends the same epoch and anything in between (an implementation that
            # looks at part of an array - its ends, its first element, its day parts - to decide for all of it shows here):
            # the conversion of a sub-array is the sub-array of the conversion
            for _k in range(ctx.budget(6, 40)):
                e = rng.randrange(n)
                sub = [e] + [rng.randrange(n) for _ in range(rng.randint(1, 8))] + [e]
                try:
                    tsub = Time(a1[sub], val2=a2[sub], fmt="jd", scale=a)
                    q1, q2 = parts(getattr(tsub, b))
                except Exception as ex:
                    ctx.violate(f"subarray-raises:{a}->{b}", f"{type(ex).__name__}: {ex}", {"a": a, "b": b})
                    break
                ctx.count("oracle-subarray")
                if len(q1) != len(sub) or not (np.array_equal(q1, r1[sub]) and np.array_equal(q2, r2[sub])):
                    k = next((i for i in range(min(len(sub), len(q1))) if q1[i] != r1[sub[i]] or q2[i] != r2[sub[i]]), 0)
                    ctx.violate(f"alignment-subarray:{a}->{b}", "converting a sub-array (same epoch at both ends) is not the sub-array of the converted array",
                                {"a": a, "b": b, "element": k, "jd1": float(a1[sub[k]]), "jd2": float(a2[sub[k]]),
                                 "array_jd1": [float(x) for x in a1[sub]], "array_jd2": [float(x) for x in a2[sub]]})
                    break
            # histories on one object: the array has been converted to b above; arrays derived from it by indexing (reversal,
            # slice, mask, index array) convert to the elements of their own epochs - and a part converted first does not
            # decide what the whole array converts to
            m_ = np.array([rng.random() < 0.5 for _ in range(n)])
            sels = [("reversed", slice(None, None, -1)), ("slice", slice(1, min(n, 4))), ("mask", m_),
                    ("index-array", np.array([rng.randrange(n) for _ in range(min(n, 6))]))]
            for sname, sel in sels:
                try:
                    dq1, dq2 = parts(getattr(src[a][sel], b))
                except Exception as ex:
                    ctx.violate(f"derived-raises:{a}->{b}", f"{sname}: {type(ex).__name__}: {ex}", {"a": a, "b": b, "derived": sname})
                    continue
                ctx.count("oracle-derived-array")
                w1, w2 = r1[sel], r2[sel]
                if len(dq1) != len(w1) or not (np.array_equal(dq1, w1) and np.array_equal(dq2, w2)):
                    k = next((i for i in range(min(len(dq1), len(w1))) if dq1[i] != w1[i] or dq2[i] != w2[i]), 0)
                    ctx.violate(f"alignment-derived:{a}->{b}", f"after converting an array, converting its {sname} part gives {len(dq1)} epochs that are not "
                                f"the conversions of that part's {len(w1)} epochs", {"a": a, "b": b, "derived": sname, "element": k,
                                 "jd1": float(np.atleast_1d(a1[sel])[k]) if len(w1) else None, "jd2": float(np.atleast_1d(a2[sel])[k]) if len(w1) else None})
            try:
                e_ = [rng.randrange(n) for _ in range(5)]
                u = Time(a1[e_], val2=a2[e_], fmt="jd", scale=a)
                getattr(u[:1], b)
                uq1, uq2 = parts(getattr(u, b))
                ctx.count("oracle-derived-array")
                if len(uq1) != 5 or not (np.array_equal(uq1, r1[e_]) and np.array_equal(uq2, r2[e_])):
                    ctx.violate(f"alignment-derived:{a}->{b}", "after converting the first element of an array as a slice, converting the array "
                                f"gives {len(uq1)} epochs / other values", {"a": a, "b": b, "derived": "part-first", "array_jd1": [float(x) for x in a1[e_]],
                                                                            "array_jd2": [float(x) for x in a2[e_]]})
            except Exception as ex:
                ctx.violate(f"derived-raises:{a}->{b}", f"part-first: {type(ex).__name__}: {ex}", {"a": a, "b": b})
            for i in idxs:
                for shape in ("scalar", "len1"):
                    try:
                        if shape == "scalar":
                            ts = Time(float(a1[i]), val2=float(a2[i]), fmt="jd", scale=a)
                        else:
                            ts = Time(np.array([a1[i]]), val2=np.array([a2[i]]), fmt="jd", scale=a)
                        s1, s2 = parts(getattr(ts, b))
                    except Exception as e:
                        ctx.violate(f"{shape}-raises:{a}->{b}", f"{type(e).__name__}: {e}", {"a": a, "b": b, "jd1": float(a1[i]), "jd2": float(a2[i])})
                        continue
                    ctx.count(f"shape:{shape}")
                    if len(s1) != 1 or s1[0] != r1[i] or s2[0] != r2[i]:
                        ctx.violate(f"{shape}-differs:{a}->{b}", f"{shape} conversion differs from the array element",
                                    {"a": a, "b": b, "jd1": float(a1[i]), "jd2": float(a2[i])})
                    if shape == "scalar" and np.ndim(getattr(ts, b).jd1) != 0:
                        ctx.violate(f"scalar-shape:{a}->{b}", "scalar in, non-scalar out", {"a": a, "b": b})

    # (e) long arrays: an array of more than 2^16 epochs (a day of 1 Hz data has 86400), of a length that is no round number,
    # converts element by element like the short array it is tiled from (routes through UTC <-> TAI, where the table is looked up)
    for L in ([70001] if not ctx.thorough else [70001, 200003]):
        reps = -(-L // n)
        for a in SCALES:
            if a not in src:
                continue
            b = "tai" if a == "utc" else "utc"
            if (a, b) not in conv:
                continue
            a1, a2 = parts(src[a])
            r1, r2 = parts(conv[(a, b)])
            sel = np.tile(np.arange(n), reps)[:L]
            try:
                q1, q2 = parts(getattr(Time(a1[sel], val2=a2[sel], fmt="jd", scale=a), b))
            except Exception as ex:
                ctx.violate(f"long-array-raises:{a}->{b}", f"{type(ex).__name__}: {ex}", {"a": a, "b": b, "length": L})
                continue
            ctx.count("oracle-long-array-elements", L)
            if len(q1) != L or not (np.array_equal(q1, r1[sel]) and np.array_equal(q2, r2[sel])):
                bad = np.nonzero((q1 != r1[sel]) | (q2 != r2[sel]))[0] if len(q1) == L else np.array([0])
                k = int(bad[0])
                ctx.violate(f"alignment-long-array:{a}->{b}", f"in an array of {L} epochs, {len(bad)} elements (first: {k}) convert differently from the same "
                            f"epochs in a short array ({float((frac(q1[k]) + frac(q2[k]) - frac(r1[sel[k]]) - frac(r2[sel[k]])) * 86400):.3e} s)",
                            {"a": a, "b": b, "length": L, "element": k, "jd1": float(a1[sel[k]]), "jd2": float(a2[sel[k]])})

    # (f) histories of single epochs: scalars of one boundary's neighbourhood converted one after the other, in changing scales
    # (so that UTC-side and TAI-side lookups alternate) - each is the element of the array conversion, whatever came before
    by_bound = {}
    for i, (bnd, off) in enumerate(labels):
        if abs(off) <= 40_000_000 or off >= DAY_US - 40_000_000:
            by_bound.setdefault(bnd, []).append(i)
    pools = [v for v in by_bound.values() if len(v) >= 30]
    rng.shuffle(pools)
    for pool in pools[:ctx.budget(12, 41)]:
        hist = []
        for _k in range(ctx.budget(60, 200)):
            a = rng.choice(["utc", "tai", "utc", "tai", "gps", "tt", "tcg"])
            b = rng.choice([x for x in (["tai", "utc", "gps"] if a != "tai" else ["utc", "utc", "tt"]) if x != a])
            i = rng.choice(pool)
            if a not in src or (a, b) not in conv:
                continue
            a1, a2 = parts(src[a])
            r1, r2 = parts(conv[(a, b)])
            hist.append([a, b, float(a1[i]), float(a2[i])])
            try:
                s1, s2 = parts(getattr(Time(float(a1[i]), val2=float(a2[i]), fmt="jd", scale=a), b))
            except Exception as ex:
                ctx.violate(f"scalar-raises:{a}->{b}", f"{type(ex).__name__}: {ex}", {"a": a, "b": b, "jd1": float(a1[i]), "jd2": float(a2[i])})
                continue
            ctx.count("oracle-scalar-history")
            if s1[0] != r1[i] or s2[0] != r2[i]:
                ctx.violate(f"scalar-history:{a}->{b}", f"a single epoch converts differently from the same epoch in an array, after {len(hist) - 1} other single "
                            f"epochs ({float((frac(s1[0]) + frac(s2[0]) - frac(r1[i]) - frac(r2[i])) * 86400):.3e} s)",
                            {"a": a, "b": b, "jd1": float(a1[i]), "jd2": float(a2[i]), "history": hist[-6:]})
                break

    # every input format valid for the scale: build the epoch through the format's own value and check the defining
    # relations on what comes out (per object, against its own stored instant)
    FMTS = ["mjd", "jd", "datetime", "isot", "yyyydddsssss", "jyear", "gps_ws", "gps_seconds"]
    for i in idxs[:ctx.budget(25, 200)]:
        for a in SCALES:
            if a not in src:
                continue
            a1, a2 = parts(src[a])
            try:
                t0 = Time(float(a1[i]), val2=float(a2[i]), fmt="jd", scale=a)
            except Exception:
                continue
            for fmt in FMTS:
                if fmt.startswith("gps") and (a != "gps" or frac(a1[i]) + frac(a2[i]) < F(4888489, 2)):
                    continue
                case = {"a": a, "fmt": fmt, "jd1": float(a1[i]), "jd2": float(a2[i])}
                try:
                    v = getattr(t0, fmt)
                    for shape in ("scalar", "array"):
                        if fmt == "gps_ws":
                            tf = Time(float(v.week), val2=float(v.seconds), fmt=fmt, scale=a) if shape == "scalar" else \
                                Time(np.array([v.week, v.week]), val2=np.array([v.seconds, v.seconds]), fmt=fmt, scale=a)
                        else:
                            vv = v.item() if isinstance(v, np.generic) else v
                            tf = Time(vv, fmt=fmt, scale=a) if shape == "scalar" else Time(np.array([vv, vv]), fmt=fmt, scale=a)
                        x = insts(tf)[0]
                        if a == "utc" and utc_status(x) != "ok":
                            continue
                        tau = exact_to_tai(a, x)
                        for b in SCALES:
                            if b == a or b == "utc":
                                continue
                            y = insts(getattr(tf, b))[0]
                            want = exact_from_tai(b, tau)
                            ctx.count(f"format:{fmt}")
                            if abs(y - want) >= NS1 * 2:
                                ctx.violate(f"defining-relation:{a}->{b}:fmt={fmt}",
                                            f"{a}->{b} of an epoch given as {fmt} ({shape}) differs from the defined relation by {float((y - want) * 86400):.3e} s", {**case, "b": b, "shape": shape})
                except Exception as e:
                    ctx.violate(f"format-raises:{fmt}:{a}", f"{type(e).__name__}: {e}", case)
    # other input formats reach the same conversion (datetime with microseconds)
    from datetime import datetime, timedelta

    for i in idxs[:40]:
        b0, o = labels[i]
        tot = F(o, DAY_US)
        dt = datetime(2000, 1, 1) + timedelta(days=int(b0 - F(4903089, 2))) + timedelta(microseconds=o)
        for a in SCALES:
            try:
                td = Time(dt, fmt="datetime", scale=a)
                tj = Time(float(td.jd1), val2=float(td.jd2), fmt="jd", scale=a)
                for b in SCALES:
                    x = insts(getattr(td, b))[0]
                    y = insts(getattr(tj, b))[0]
                    if abs(x - y) >= NS1:
                        ctx.violate(f"format-dependence:{a}->{b}", "datetime and jd input of the same epoch convert differently",
                                    {"a": a, "b": b, "datetime": str(dt)})
                ctx.count("format:datetime")
            except Exception as e:
                ctx.violate(f"datetime-raises:{a}", f"{type(e).__name__}: {e}", {"a": a, "datetime": str(dt)})


def replay(payload):
    Time = _imp()
    c = payload.get("replay", {})
    print(json.dumps(payload, indent=1)[:1500])
    if "history" in c:
        for a_, b_, x1, x2 in c["history"]:
            r_ = getattr(Time(x1, val2=x2, fmt="jd", scale=a_), b_)
            print(f"history {a_}->{b_} ({x1!r}, {x2!r}): jd1={float(r_.jd1)!r} jd2={float(r_.jd2)!r}")
    if "array_jd1" in c and "a" in c and "b" in c:
        ta = Time(np.array(c["array_jd1"]), val2=np.array(c["array_jd2"]), fmt="jd", scale=c["a"])
        ra = getattr(ta, c["b"])
        k = c.get("element", 0)
        ts = Time(c["array_jd1"][k], val2=c["array_jd2"][k], fmt="jd", scale=c["a"])
        rs_ = getattr(ts, c["b"])
        print(f"{c['a']}->{c['b']} element {k} inside the array: jd1={float(ra.jd1[k])!r} jd2={float(ra.jd2[k])!r}; alone: jd1={float(rs_.jd1)!r} jd2={float(rs_.jd2)!r}")
    if "jd1" in c and "a" in c:
        t = Time(c["jd1"], val2=c["jd2"], fmt="jd", scale=c["a"])
        for b in SCALES:
            r = getattr(t, b)
            print(f"{c['a']}->{b}: jd1={float(r.jd1)!r} jd2={float(r.jd2)!r}")
            if "c" in c and b == c.get("b"):
                rr = getattr(r, c["c"])
                print(f"   ->{c['c']}: jd1={float(rr.jd1)!r} jd2={float(rr.jd2)!r}")
    return 0
