"""Which characters end a line — shared by the harnesses of every ChainParser subclass (C11-C15).

Mirror of lean/Midgard/Model/TextLines.lean.  `ChainParser.read_data` iterates a file opened with mode="rt": with
universal newlines a line ends at "\\n", "\\r" or "\\r\\n" and nowhere else.  `str.splitlines()` additionally cuts at
the characters of SPLITLINES_ONLY; a reader built on it sees a free-text cell containing one of them as two lines.
Generators put these characters *inside* free-text cells (comments, agency names, ...): the cell must stay in its line.
"""
from __future__ import annotations

TEXT_MODE_LINE_ENDS = ["\n", "\r", "\r\n"]
# str.splitlines() cuts here, iterating a text-mode file does not
SPLITLINES_ONLY = ["\x0b", "\x0c", "\x1c", "\x1d", "\x1e", "\x85", "\u2028", "\u2029"]
# not a line end for either; whitespace for str.strip()/split() (ASCII unit separator)
OTHER_CONTROL = ["\x1f"]

assert all(len(("a" + c + "b").splitlines()) == 2 for c in SPLITLINES_ONLY)
assert all(len(("a" + c + "b").splitlines()) == 1 for c in OTHER_CONTROL)


def name(c: str) -> str:
    return "+".join(f"U+{ord(x):04X}" for x in c)


def text_mode_lines(text: str):
    """what `for line in fid` yields (line ends removed) for a file with this content opened in text mode"""
    out, cur, i = [], [], 0
    while i < len(text):
        c = text[i]
        if c == "\n" or c == "\r":
            out.append("".join(cur))
            cur = []
            if c == "\r" and i + 1 < len(text) and text[i + 1] == "\n":
                i += 1
        else:
            cur.append(c)
        i += 1
    if cur:
        out.append("".join(cur))
    return out


def inject(rng, s: str, width: int, chars=None) -> tuple:
    """put one character of `chars` (default: SPLITLINES_ONLY + OTHER_CONTROL) between two visible characters of `s`
    (so that it is not at an end of the stripped text), keeping len <= width.  -> (new text, the character or None)"""
    chars = chars or (SPLITLINES_ONLY + OTHER_CONTROL)
    spots = [k for k in range(1, len(s)) if not s[k - 1].isspace() and not s[k].isspace()]
    if not spots:
        return s, None
    k = rng.choice(spots)
    c = rng.choice(chars)
    t = s[:k] + c + s[k:]
    if len(t) > width:
        t = s[:k] + c + s[k + 1:]  # replace instead of insert
        if t[k + 1:k + 2].isspace() or k + 1 >= len(t):
            return s, None
    return t, c
