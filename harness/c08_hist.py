"""C08 part D — the position *classes*: every way of deriving an object, every method that takes another object.

Oracle only (no model): the property is stated directly on the real code.

D1  derive – read – change – read again.  For every kind of position object (position / position delta / posvel /
    posvel delta / velocity, shapes (3,), (1,3), (n,3), attached `other` / `ref_pos`, a chain of two attachments) and every
    way of making a second object from it (copy, copy.copy, deepcopy, view, `[...]`, transpose, reshape, ufunc output,
    slices, tuple index, fancy and mask index, integer index, the factory class methods, arithmetic with a delta,
    conversion to another system): read some quantities on the derived object, change one of the objects involved by item
    assignment (the derived object, its source, an attached object of either, an attached object of an attached object)
    or by replacing an attachment, and read *every* readable quantity again.  The second reading must be identical
    (type, system, shape, dtype, bytes) to the reading of the same history **without the early reads**, and equal (1e-9)
    to the reading of a freshly built twin with the same current contents.
D2  call – change the argument – call again.  Every Python-defined method of the classes that takes one other object
    (`vector_to`, `distance_to`, `direction_to`, `azimuth_to`, `elevation_to`, `zenith_distance_to`, `+`, `-`, ...; found by
    introspection, the list goes into the evidence) is called with an argument object that is / is not the attached
    `other`; the argument (or its attached object, or the receiver) is changed in place; a method is called again with the
    same argument object.  Same two comparisons.

The reads and the methods are enumerated from the classes (properties, registered systems and fields, dotted
`system.field` reads), so a newly introduced cached quantity is covered without editing this file.
"""
from __future__ import annotations

import copy
import inspect

import numpy as np

STA = np.array(
    [
        [1_202_462.5677, 252_734.4956, 6_237_766.1746],
        [4_075_539.6734, 931_735.4828, 4_801_629.4955],
        [1_492_404.5274, -4_457_266.5326, 4_296_881.8189],
        [3_512_889.0, 780_843.0, 5_248_750.0],
    ]
)
SAT = np.array(
    [[2.0e7, 1.0e7, 5.0e6], [-1.5e7, 1.2e7, 1.6e7], [1.0e7, -2.0e7, 9.0e6], [1.1e7, 0.9e7, 2.2e7]]
)
SAT2 = np.array(
    [[-1.8e7, 1.3e7, 9.0e6], [1.3e7, 0.8e7, 2.0e7], [1.4e7, -1.7e7, -7.0e6], [0.3e7, 2.1e7, 1.4e7]]
)
VEL = np.array([[10.0, 7500.0, 20.0], [-300.0, 7000.0, 900.0], [5.0, -7400.0, 1500.0], [2000.0, 6000.0, -3000.0]])
DLT = np.array([[10.0, 20.0, 30.0], [1.0, -2.0, 3.0], [0.5, 0.25, -7.0], [100.0, 0.0, 0.0]])
NEWROW = np.array([-2.0e7, 1.05e7, 5.5e6])
NEWROW_STA = np.array([2_102_940.4, 721_569.4, 5_958_192.1])


def _shape(a, sh):
    a = np.array(a, dtype=float)
    return a[0].copy() if sh == "1" else a[:1].copy() if sh == "13" else a.copy()


def worlds(position):
    """name -> builder of the object under test (fresh objects on every call)"""
    P, PD, PV, PVD = position.Position, position.PositionDelta, position.PosVel, position.PosVelDelta

    def pos(sh, system="trs", chain=False):
        def build():
            sat_other = P(_shape(SAT2, sh), system="trs") if chain else None
            sat = P(_shape(SAT, sh), system="trs", other=sat_other) if chain else P(_shape(SAT, sh), system="trs")
            val = _shape(STA, sh)
            if system != "trs":
                val = np.array(getattr(P(val, system="trs"), system).val)
            return P(val, system=system, other=sat)
        return build

    def delta(sh, system="trs", chain=False):
        def build():
            ref = P(_shape(STA, sh), system="trs", other=P(_shape(SAT, sh), system="trs")) if chain else P(_shape(STA, sh), system="trs")
            val = _shape(DLT, sh)
            if system != "trs":
                val = np.array(getattr(PD(val, system="trs", ref_pos=P(_shape(STA, sh), system="trs")), system).val)
            return PD(val, system=system, ref_pos=ref)
        return build

    def posvel(sh, with_other=True):
        def build():
            sat = PV(np.hstack([_shape(SAT, sh), _shape(VEL, sh)]), system="trs") if with_other else None
            return PV(np.hstack([_shape(SAT2, sh) * 0.5, _shape(VEL, sh)[..., ::-1]]), system="trs", other=sat)
        return build

    def pvdelta(sh, system="trs"):
        def build():
            ref = PV(np.hstack([_shape(SAT, sh), _shape(VEL, sh)]), system="trs")
            val = np.hstack([_shape(DLT, sh), _shape(DLT, sh)[..., ::-1] * 0.01])
            if system != "trs":
                val = np.array(getattr(PVD(val, system="trs", ref_pos=PV(np.hstack([_shape(SAT, sh), _shape(VEL, sh)]), system="trs")), system).val)
            return PVD(val, system=system, ref_pos=ref)
        return build

    def velocity(sh, cls):
        def build():
            ref = P(_shape(SAT, sh), system="trs")
            return cls(_shape(VEL, sh), ref_pos=ref)
        return build

    w = {
        "pos:n": pos("n"), "pos:1": pos("1"), "pos:13": pos("13"), "pos:n:llh": pos("n", "llh"), "pos:n:chain": pos("n", chain=True),
        "delta:n": delta("n"), "delta:1": delta("1"), "delta:13": delta("13"), "delta:n:enu": delta("n", "enu"),
        "delta:n:chain": delta("n", chain=True),
        "posvel:n": posvel("n"), "posvel:1": posvel("1"),
        "pvdelta:n": pvdelta("n"), "pvdelta:n:acr": pvdelta("n", "acr"), "pvdelta:1": pvdelta("1"),
        "vel:n": velocity("n", position.TrsVelocity), "veldelta:n": velocity("n", position.TrsVelocityDelta),
    }
    return w


def _mask(o):
    return np.array([k % 2 == 0 for k in range(len(o))])


def _delta_for(position, o):
    """a position delta that can be added to / subtracted from `o` (same system, same shape)"""
    if "PosVel" in o.cls_name:
        f, ref = position.PosVelDelta, position.PosVel(np.array(o.trs.val if o.system != "trs" else o.val), system="trs")
    else:
        f, ref = position.PositionDelta, position.Position(np.array(o.trs.val if o.system != "trs" else o.val), system="trs")
    return f(np.full(np.shape(o), 12.5), system=o.system, ref_pos=ref)


def derivations(position):
    """name -> function making a second object from the first (NumPy paths, indexing, factories, arithmetic)"""
    d = {
        "copy": lambda o: o.copy(),
        "copy.copy": lambda o: copy.copy(o),
        "deepcopy": lambda o: copy.deepcopy(o),
        "view": lambda o: o.view(),
        "view-type": lambda o: o.view(type(o)),
        "ellipsis": lambda o: o[...],
        "T": lambda o: o.T,
        "T.T": lambda o: o.T.T,
        "transpose": lambda o: np.transpose(o),
        "reshape": lambda o: o.reshape(o.shape),
        "np.reshape": lambda o: np.reshape(o, o.shape),
        "squeeze": lambda o: np.squeeze(o),
        "atleast_2d": lambda o: np.atleast_2d(o),
        "neg": lambda o: -o,
        "np.negative": lambda o: np.negative(o),
        "np.add0": lambda o: np.add(o, 0.0),
        "np.abs": lambda o: np.abs(o),
        "asanyarray": lambda o: np.asanyarray(o),
        "array-subok": lambda o: np.array(o, subok=True),
        "astype": lambda o: o.astype(float),
        "flip": lambda o: np.flip(o, axis=0),
        "slice:0:2": lambda o: o[0:2],
        "slice:1:": lambda o: o[1:],
        "slice:all": lambda o: o[:],
        "slice:step": lambda o: o[::2],
        "slice:rev": lambda o: o[::-1],
        "tuple:0:2": lambda o: o[0:2, :],
        "tuple:all": lambda o: o[:, :],
        "tuple:ell": lambda o: o[..., :],
        "int:1": lambda o: o[1],
        "int:np": lambda o: o[np.int64(0)],
        "int:-1": lambda o: o[-1],
        "fancy:list": lambda o: o[[0, 2]],
        "fancy:array": lambda o: o[np.array([2, 0, 0])],
        "mask": lambda o: o[_mask(o)],
        "take": lambda o: np.take(o, [0, 1], axis=0),
        "compress": lambda o: np.compress(_mask(o), o, axis=0),
        "concat": lambda o: np.concatenate([o, o], axis=0),
        "subset": lambda o: o.subset(np.array([0, 2]), {}),
        "from_position": lambda o: type(o).from_position(np.array(o.val) + 1.0, o),
        "from_posvel": lambda o: type(o).from_posvel(np.array(o.val) + 1.0, o),
        "from_position_delta": lambda o: type(o).from_position_delta(np.array(o.val) + 1.0, o),
        "empty_from": lambda o: type(o).empty_from(o),
        "add-delta": lambda o: o + _delta_for(position, o),
        "sub-delta": lambda o: o - _delta_for(position, o),
        "sub-self": lambda o: o - type(o)(np.array(o.val) - 3.0, **({"ref_pos": o.ref_pos} if "Delta" in o.cls_name else {})),
        "iadd-delta": lambda o: o.__iadd__(_delta_for(position, o)),
        "pos": lambda o: o.pos,
        "vel": lambda o: o.vel,
        # the constructor called with a position object as the values: the new array uses the memory of the old one
        "ctor": lambda o: type(o)(o, **{a: o.__dict__.get(a) for a in ("other", "ref_pos") if a in o.__dict__ and (a == "ref_pos" or a in o._attributes())}),
    }
    for cls_systems in ({"trs", "llh", "enu", "acr", "kepler"},):
        for s in sorted(cls_systems):
            d["to:" + s] = (lambda s: lambda o: getattr(o, s))(s)
    return d


def attached_paths(q, depth=2):
    """paths of attached objects reachable from q: ('other',), ('ref_pos',), ('other','other'), ..."""
    out = []

    def walk(x, path):
        if len(path) >= depth:
            return
        for a in ("other", "ref_pos"):
            try:
                v = x.__dict__.get(a) if hasattr(x, "__dict__") else None
            except Exception:
                v = None
            if isinstance(v, np.ndarray):
                out.append(path + (a,))
                walk(v, path + (a,))
    walk(q, ())
    return out


def follow(x, path):
    for a in path:
        x = x.__dict__.get(a)
        if x is None:
            return None
    return x


def read_names(P, q):
    """everything that can be read from q: systems, properties of the classes, registered fields, columns, system.field"""
    names = []
    systems = list(P._SYSTEMS.get(q.cls_name, {}))
    props = []
    for cls in type(q).__mro__:
        if getattr(cls, "__module__", "").startswith("midgard"):
            props += [n for n, v in vars(cls).items() if isinstance(v, property) and n not in ("SYSTEMS", "CONVERSIONS")]
    try:
        props += list(q._fields())
    except Exception:
        pass
    props = sorted(set(props))
    names += systems + props + list(q.column_names or ())
    for s in systems:
        for f in props:
            if f not in ("pos", "vel", "val", "mat", "is_transposed"):
                names.append(f"{s}.{f}")
        names += [f"{s}.pos.{t}" for t in P._SYSTEMS.get("PositionArray", {})] if "PosVel" in q.cls_name and "Delta" not in q.cls_name else []
    return names


def obs_val(x, depth=0):
    if isinstance(x, tuple):
        return ("tuple",) + tuple(obs_val(v, depth) for v in x)
    if isinstance(x, np.ndarray):
        a = np.asarray(x)
        out = (type(x).__name__, getattr(x, "system", None), a.shape, str(a.dtype), a.tobytes())
        if depth == 0 and hasattr(x, "__dict__"):
            for att in ("other", "ref_pos"):
                v = x.__dict__.get(att)
                if isinstance(v, np.ndarray):
                    out += ((att,) + obs_val(v, 1),)
        return out
    if isinstance(x, (float, int, str, bool, type(None), np.generic)):
        return (type(x).__name__, repr(x))
    return (type(x).__name__,)


def read_all(q, names):
    out = {}
    for n in names:
        try:
            with np.errstate(all="ignore"):
                out[n] = obs_val(getattr(q, n))
        except Exception as e:  # noqa: an exception is an observation like any other
            out[n] = ("ERR", type(e).__name__)
    return out


def show(o):
    if isinstance(o, tuple) and len(o) >= 5 and isinstance(o[4], bytes):
        txt = np.array2string(np.frombuffer(o[4], dtype=o[3]).reshape(o[2]), precision=6, threshold=8).replace("\n", "")
        return f"{o[0]}[{o[1]}]{o[2]} " + (txt if len(txt) <= 150 else txt[:150] + " ...")
    return str(o)[:160]


def close(a, b, rtol=1e-9):
    """observations equal up to rounding (twin comparison)"""
    if isinstance(a, tuple) and isinstance(b, tuple) and len(a) >= 5 and len(b) >= 5 and isinstance(a[4], bytes) and isinstance(b[4], bytes):
        if a[:4] != b[:4]:
            return False
        if a[3] == "object" or b[3] == "object":
            return True
        va, vb = np.frombuffer(a[4], dtype=a[3]), np.frombuffer(b[4], dtype=b[3])
        if a[3].startswith("float"):
            with np.errstate(all="ignore"):
                # angles near +-pi may differ by a full turn after rounding
                ok = (np.abs(va - vb) <= rtol * np.maximum(1.0, np.abs(vb))) | (np.isnan(va) & np.isnan(vb)) | (np.abs(np.abs(va - vb) - 2 * np.pi) <= 1e-9)
            return bool(np.all(ok))
        return bool(np.all(va == vb))
    if isinstance(a, tuple) and isinstance(b, tuple) and a[:1] == ("tuple",) and b[:1] == ("tuple",):
        return len(a) == len(b) and all(close(x, y, rtol) for x, y in zip(a[1:], b[1:]))
    return a == b


# ------------------------------------------------------------------------------------------------ mutations


def new_row(x, k=0):
    """a new row for x that stays a plausible coordinate (works for 3 and 6 columns, any system)"""
    a = np.asarray(x, dtype=float)
    row = a if a.ndim == 1 else a[k]
    return row * 0.97 + np.arange(1, row.shape[-1] + 1) * 0.011


MUT_KINDS = ["row0", "rowlast", "slice", "tuple", "mask", "ellipsis"]


def item_assign(x, kind):
    """change x in place through __setitem__ with the given kind of key; returns False when not applicable"""
    a = np.asarray(x)
    if a.ndim == 1:
        if kind in ("row0", "slice"):
            x[:] = new_row(x)
        elif kind == "rowlast":
            x[-1] = a[-1] * 0.999 + 0.02
        elif kind == "ellipsis":
            x[...] = new_row(x)
        elif kind == "tuple":
            x[(1,)] = a[1] * 0.999 + 0.03
        else:
            return False
        return True
    if a.shape[0] == 0:
        return False
    if kind == "row0":
        x[0] = new_row(x, 0)
    elif kind == "rowlast":
        x[-1] = new_row(x, -1)
    elif kind == "slice":
        x[0:2] = np.array([new_row(x, k) for k in range(min(2, a.shape[0]))])
    elif kind == "tuple":
        x[0, 1] = a[0, 1] * 0.999 + 0.03
    elif kind == "mask":
        m = np.zeros(a.shape[0], dtype=bool)
        m[0] = True
        x[m] = new_row(x, 0)
    elif kind == "ellipsis":
        x[...] = np.array([new_row(x, k) for k in range(a.shape[0])])
    else:
        return False
    return True


def mutation_targets(o, q):
    """(label, getter) of the objects whose change must be visible in q (or must not disturb it)"""
    t = [("derived", lambda o, q: q), ("source", lambda o, q: o)]
    for p in attached_paths(q):
        t.append(("derived." + ".".join(p), (lambda p: lambda o, q: follow(q, p))(p)))
    for p in attached_paths(o):
        t.append(("source." + ".".join(p), (lambda p: lambda o, q: follow(o, p))(p)))
    return t


def replace_attachment(position, x, att):
    """x.<att> = an equal-shaped other object (attribute assignment)"""
    cur = x.__dict__.get(att)
    if cur is None:
        return False
    new = type(cur)(np.array(np.asarray(cur)) * 1.01 + 5.0, **{k: v for k, v in (("other", cur.__dict__.get("other")),) if k in cur._attributes()})
    setattr(x, att, new)
    return True


# ------------------------------------------------------------------------------------------------ twins


def twin_of(position, o, depth=0):
    """freshly built object with the same current contents (values, system, ellipsoid, twins of other / ref_pos)"""
    f = {"PositionArray": position.Position, "PosVelArray": position.PosVel, "PositionDeltaArray": position.PositionDelta,
         "PosVelDeltaArray": position.PosVelDelta}.get(getattr(o, "cls_name", None))
    a = np.asarray(o)
    if f is None or depth > 3 or a.ndim > 2 or getattr(o, "is_transposed", False):
        return None
    kw = {"system": o.system}
    if getattr(o, "ellipsoid", None) is not None and "Delta" not in o.cls_name:
        kw["ellipsoid"] = o.ellipsoid
    for att in ("other", "ref_pos"):
        v = o.__dict__.get(att)
        if v is not None:
            t = twin_of(position, v, depth + 1)
            if t is None:
                return None
            kw[att] = t
    if "Delta" in o.cls_name and "ref_pos" not in kw:
        return None
    return f(np.array(a, dtype=float, copy=True), **kw)


# ------------------------------------------------------------------------------------------------ D1


def d1_history(position, P, build, derive, early, target, mkind, dotted=True, twin=True):
    """build, derive, (read `early`), change `target` (item assignment of kind `mkind`, or 'attr:<name>'), read everything
    on the derived object and on its source.  Returns None when the derivation / mutation is not applicable, else
    (observations, twin observations or None)"""
    o = build()
    try:
        with np.errstate(all="ignore"):
            q = derive(o)
    except Exception:
        return None
    if not isinstance(q, np.ndarray) or not hasattr(q, "cls_name"):
        return None
    names = read_names(P, q)
    snames = read_names(P, o)
    if isinstance(early, str):
        # "all": everything; "fields": everything but the conversions (a conversion registers the converted array with the attached
        # object and the object with the converted array, which links the object to its attached object indirectly); "systems": the
        # conversions only
        for x, nms in ((q, names), (o, snames)):
            systems = set(P._SYSTEMS.get(x.cls_name, {}))
            pick = {"all": lambda n: True, "fields": lambda n: "." not in n and n not in systems, "systems": lambda n: n in systems}[early]
            read_all(x, [n for n in nms if pick(n)])
    elif early:
        read_all(q, [n for n in early if n in names])
        if early[0].startswith("source:"):
            read_all(o, [early[0][7:]])
    x = target(o, q)
    if x is None:
        return None
    try:
        if mkind.startswith("attr:"):
            if not replace_attachment(position, x, mkind[5:]):
                return None
        elif mkind == "none":
            pass
        elif mkind == "ellipsoid":
            # a plain attribute the conversions depend on: another figure of the Earth
            from midgard.math import ellipsoid as _ell

            if "ellipsoid" not in x.__dict__:
                return None
            x.ellipsoid = _ell.WGS72 if x.ellipsoid is not _ell.WGS72 else _ell.GRS80
        elif not item_assign(x, mkind):
            return None
    except Exception:
        return None
    if not dotted:
        names, snames = [n for n in names if "." not in n], [n for n in snames if "." not in n]
    res = read_all(q, names)
    # the source as well: a change made through the derived object must show in what the source returns
    res.update({"source:" + k: v for k, v in read_all(o, snames).items()})
    tw = None
    if twin:
        try:
            t = twin_of(position, q)
            if t is not None:
                tw = read_all(t, names)
        except Exception:
            tw = None
    return res, tw


def cache_held(dname):
    """derivations that hand out an object the source keeps in its own cache without being told of changes to it: .pos / .vel
    (copies for a 2-d PosVel).  Conversions are not among them any more: the converted array registers its source as a
    dependent (3693fe8, 9ad3ce5), so a write into it makes the source convert anew."""
    return dname in ("pos", "vel")


QUICK_WORLDS = ["pos:n", "pos:1", "delta:n", "posvel:n", "pvdelta:n"]


def plan_d1(ctx, mods, thorough):
    """the list of D1 histories of this run: ((world, derivation, changed object, getter, change, reads, single reads), early reads)"""
    position = mods[6]
    import midgard.data._position as P

    W, D = worlds(position), derivations(position)
    rng = ctx.rng
    cover = {}
    core, rest = [], []
    for wname, build in W.items():
        for dname, derive in D.items():
            o = build()
            try:
                with np.errstate(all="ignore"):
                    q = derive(o)
            except Exception:
                continue
            if not isinstance(q, np.ndarray) or not hasattr(q, "cls_name"):
                continue
            names = read_names(P, q)
            singles = [nm for nm in names if "." not in nm] + ["source:" + nm for nm in read_names(P, o) if "." not in nm]
            targets = mutation_targets(o, q)
            cover[dname] = cover.get(dname, 0) + 1
            ctx.count(f"D1:derivation:{dname}")
            for tl, tg in targets:
                x = tg(o, q)
                kinds = list(MUT_KINDS) + ["attr:" + att for att in ("other", "ref_pos") if x is not None and isinstance(x.__dict__.get(att), np.ndarray)]
                if x is not None and "ellipsoid" in x.__dict__:
                    kinds.append("ellipsoid")
                for mk in kinds:
                    plan = (wname, dname, tl, tg, mk, names, singles)
                    is_core = ((mk == "row0" or mk.startswith("attr:") or (mk == "ellipsoid" and tl in ("derived", "source")))
                               and (thorough or wname in QUICK_WORLDS)
                               or (mk.startswith("attr:") and dname.startswith("to:")))  # an attachment replaced on a handed-out conversion
                    (core if is_core else rest).append(plan)
            core.append((wname, dname, "derived", targets[0][1], "none", names, singles))
    # every core plan with everything read early; a random sample of all plans with one early read (and of the other
    # kinds of keys / other worlds with everything read early)
    jobs = [(pl, e) for pl in core for e in (("all", "fields", "systems") if thorough else ("all", "fields"))]
    # one derived quantity alone (no conversion is made on the way: nothing registers the object anywhere)
    jobs += [(pl, [f]) for pl in core for f in (("distance", "direction") if thorough else ("distance",)) if f in pl[5]]
    for _ in range(ctx.budget(500, 14000)):
        pl = rng.choice(core + rest)
        jobs.append((pl, "all" if pl in rest and rng.random() < 0.4 else [rng.choice(pl[6] if rng.random() < 0.8 else pl[5])]))
    ctx.extra["D1_derivations_applicable"] = cover
    ctx.extra["D1_plans"] = {"core": len(core), "other": len(rest)}
    return [(pl, early, thorough) for pl, early in jobs]


def shard_d1(job):
    import zlib

    (wname, dname, tl, tg, mk, names, singles), early, thorough = job
    return zlib.crc32(repr((wname, dname, tl, mk)).encode())


def exec_d1(ctx, mods, job, state):
    """one D1 history against the same history without the early reads (kept in `state` per plan) and against the twin"""
    position = mods[6]
    import midgard.data._position as P

    if "W" not in state:
        state["W"], state["D"], state["bases"] = worlds(position), derivations(position), {}
    W, D, bases = state["W"], state["D"], state["bases"]
    (wname, dname, tl, tg, mk, names, singles), early, thorough = job
    if True:
        build, derive = W[wname], D[dname]
        dotted = thorough or not isinstance(early, str)
        bk = (wname, dname, tl, mk, dotted)
        if bk not in bases:
            bases[bk] = d1_history(position, P, build, derive, None, tg, mk, dotted=dotted, twin=False)
        base = bases[bk]
        if base is None:
            return
        got = d1_history(position, P, build, derive, early, tg, mk, dotted=dotted)
        ename = early if isinstance(early, str) else early[0]
        case = {"part": "D1", "world": wname, "derivation": dname, "early_reads": ename, "changed": tl, "change": mk}
        ctx.case(["D1", wname, dname, ename, tl, mk], nontrivial=True)
        ctx.count(f"D1:world:{wname.split(':')[0]}")
        ctx.count(f"D1:changed:{tl.split('.')[0]}{'.' + tl.split('.')[-1] if '.' in tl else ''}")
        ctx.count(f"D1:change:{mk}")
        if got is None:
            ctx.violate(f"derived-object:applicability-depends-on-history:{dname}",
                        "the same construction and change raise only when quantities were read before", case)
            return
        compared = list(base[0])
        if cache_held(dname) and tl.startswith("derived"):
            # the derived object is the one the source keeps as its conversion / .pos / .vel: writing into it (or into what is
            # attached to it) is writing into the source's own cached result (see the assumption on part B); its own reads
            # must still be right
            compared = [nm for nm in compared if not nm.startswith("source:")]
        bad = [nm for nm in compared if got[0][nm] != base[0][nm]]
        bad.sort(key=lambda nm: (nm.split(":")[-1] not in ("distance", "llh", "enu", "trs", "kepler", "vector"), nm.startswith("source:")))
        if bad:
            nm = bad[0]
            who = "o." + nm[7:] if nm.startswith("source:") else "q." + nm
            key = f"derived-object-stale:{dname}:{tl}"
            if dname.startswith("to:") and tl.startswith("derived") and mk.startswith("attr:") and nm.startswith("source:"):
                # the attachment of a conversion the source keeps in its cache is replaced (attribute assignment on the returned
                # object): only item assignment to it is reported back to the source
                key = "handed-out-conversion:attachment-replaced"
            if mk == "ellipsoid" and not ((tl == "derived" and not nm.startswith("source:")) or (tl == "source" and nm.startswith("source:"))):
                # the ellipsoid of an object is replaced and a *different* object (one that has it as other / ref_pos, or shares its
                # memory) returns a stale value: __setattr__ of a plain attribute clears the object's own cache only
                key = "ellipsoid-replaced:other-object-stale"
            ctx.violate(key,
                        f"{wname}: q = {dname}(o); read {ename}; change {tl} ({mk}); then {who} gave "
                        f"{show(got[0][nm])} but {show(base[0][nm])} when nothing was read before the change "
                        f"({len(bad)} of {len(compared)} reads differ)", case)
            return
        if got[1] is not None:
            badt = [nm for nm in got[1] if not close(got[0][nm], got[1][nm])]
            if badt:
                nm = badt[0]
                ctx.violate(f"derived-object-differs-from-twin:{dname}:{tl}",
                            f"{wname}: q = {dname}(o); read {ename}; change {tl} ({mk}); q.{nm} gave "
                            f"{show(got[0][nm])} but a freshly built object with the same contents gives {show(got[1][nm])}", case)


def run_d1(ctx, mods, thorough):
    jobs, state = plan_d1(ctx, mods, thorough), {}
    for job in jobs:
        exec_d1(ctx, mods, job, state)
    return len(jobs)


# ------------------------------------------------------------------------------------------------ D2

EXCLUDED_METHODS = {"add_dependency", "remove_dependency", "to_system", "subset", "insert", "unit", "create", "convert_to",
                    "__setattr__", "__getattr__", "__getitem__", "__setitem__", "__deepcopy__", "__array_finalize__", "__new__",
                    "_clear_dependent_caches", "_share_memory_with", "_read", "_write",
                    # NumPy protocol hooks (called by NumPy with its own output arrays, not with another position)
                    "__array_wrap__", "__array_ufunc__", "__array_function__", "__array_prepare__", "__array_interface__",
                    "__reduce__", "__reduce_ex__", "__setstate__", "__getstate__", "__copy__", "__init__", "__init_subclass__",
                    "__class_getitem__", "__contains__", "__dir__", "__len__"}

ARITHMETIC_DUNDERS = {"__add__", "__sub__", "__radd__", "__rsub__", "__iadd__", "__isub__", "__mul__", "__rmul__", "__imul__", "__truediv__",
                      "__rtruediv__", "__itruediv__", "__floordiv__", "__rfloordiv__", "__ifloordiv__", "__matmul__", "__rmatmul__",
                      "__imatmul__", "__pow__", "__rpow__", "__ipow__", "__neg__", "__eq__", "__ne__", "__lt__", "__le__", "__gt__", "__ge__"}


def methods_with_object_argument(q):
    """Python-defined methods of q's classes of the form m(self, x) — found by introspection"""
    out = []
    seen = set()
    for cls in type(q).__mro__:
        if not getattr(cls, "__module__", "").startswith("midgard"):
            continue
        for n, v in vars(cls).items():
            if n in seen or n in EXCLUDED_METHODS:
                continue
            if not inspect.isfunction(v):
                continue
            try:
                params = list(inspect.signature(v).parameters.values())
            except (TypeError, ValueError):
                continue
            req = [p for p in params[1:] if p.default is inspect.Parameter.empty and p.kind in (p.POSITIONAL_ONLY, p.POSITIONAL_OR_KEYWORD)]
            # public methods and the arithmetic dunders; no other dunder machinery
            if len(params) >= 2 and len(req) == 1 and (not n.startswith("_") or n in ARITHMETIC_DUNDERS):
                seen.add(n)
                out.append(n)
    return sorted(out)


def d2_args(position, wname, o):
    """argument objects for a method of o: name -> getter(o) (fresh or attached)"""
    W = worlds(position)
    args = {
        "attached": lambda o: o.__dict__.get("other") if o.__dict__.get("other") is not None else o.__dict__.get("ref_pos"),
        "self": lambda o: o,
        "row-view-of-self": lambda o: o[0:len(o)] if np.ndim(o) == 2 else o[:],
    }
    def moved(b):
        # an object of that kind somewhere else than the receiver (built, then shifted before anything is read)
        def get(o):
            x = b()
            raw = np.asarray(x)
            # (another latitude / longitude; for Cartesian kinds the components rotated: another direction from the origin)
            raw[...] = raw + np.array([-0.35, 0.6, 11.0] * (raw.shape[-1] // 3)) if x.system == "llh" else np.roll(raw, 1, axis=-1) * 1.25 + 3.0
            return x
        return get

    for other_w in ("pos:n", "pos:1", "pos:13", "pos:n:llh", "pos:n:chain", "delta:n", "delta:1", "delta:n:enu", "posvel:n", "posvel:1", "pvdelta:n", "pvdelta:1"):
        args["new:" + other_w] = moved(W[other_w])
    return args


def call(o, m, arg):
    try:
        with np.errstate(all="ignore"):
            r = getattr(o, m)(arg)
    except Exception as e:  # noqa
        return ("ERR", type(e).__name__), None
    if r is NotImplemented:
        return ("NotImplemented",), None
    return obs_val(r), r


def d2_history(position, build, argget, m1, write, target, mkind, m2):
    o = build()
    arg = argget(o)
    if arg is None:
        return None
    if m1 is not None:
        _, r = call(o, m1, arg)
        # a result that uses the memory of the argument or of the receiver is not a private result: writing into it is a change of
        # that object (covered by the `changed` step), not the step "modifying a returned result"
        if (write and isinstance(r, np.ndarray) and r.flags.writeable and r.dtype.kind == "f"
                and not np.shares_memory(r, arg) and not np.shares_memory(r, o)):
            try:
                np.asarray(r)[...] = 7.0
            except Exception:
                pass
    objs = {"arg": arg, "self": o}
    for p in attached_paths(arg, 1):
        objs["arg." + p[0]] = follow(arg, p)
    for p in attached_paths(o, 1):
        objs["self." + p[0]] = follow(o, p)
    x = objs.get(target)
    if x is None:
        return None
    try:
        if mkind.startswith("attr:"):
            if not replace_attachment(position, x, mkind[5:]):
                return None
        elif mkind != "none" and not item_assign(x, mkind):
            return None
    except Exception:
        return None
    res, _ = call(o, m2, arg)
    tw = None
    try:
        to = twin_of(position, o)
        ta = to if arg is o else twin_of(position, arg)
        if arg is o.__dict__.get("other") or arg is o.__dict__.get("ref_pos"):
            ta = to.__dict__.get("other") if to.__dict__.get("other") is not None else to.__dict__.get("ref_pos")
        if to is not None and ta is not None:
            tw, _ = call(to, m2, ta)
    except Exception:
        tw = None
    return res, tw


def plan_d2(ctx, mods, thorough):
    position = mods[6]
    W = worlds(position)
    rng = ctx.rng
    found = {}
    targets = ["arg", "arg.other", "arg.ref_pos", "self", "self.other", "self.ref_pos"]
    kinds = MUT_KINDS + ["attr:other", "attr:ref_pos"]
    core, rest = [], []
    for wname, build in W.items():
        o = build()
        methods = methods_with_object_argument(o)
        found[type(o).__mro__[1].__name__] = methods
        for aname, argget in d2_args(position, wname, o).items():
            # methods that do something with this kind of argument (anything but an exception / NotImplemented)
            live = []
            for m in methods:
                oo = build()
                a = argget(oo)
                if a is None:
                    continue
                ob, _ = call(oo, m, a)
                if ob[0] not in ("ERR", "NotImplemented"):
                    live.append(m)
            for m1 in live:
                for m2 in live:
                    for tgt in targets:
                        for mk in kinds:
                            for write in (False, True):
                                job = (wname, aname, m1, write, tgt, mk, m2)
                                (core if (m1 == m2 and mk == "row0" and not write) or (thorough and mk == "row0") else rest).append(job)
    jobs = core + [rng.choice(rest) for _ in range(ctx.budget(1500, 60000))]
    ctx.extra["D2_methods_found"] = found
    ctx.extra["D2_plans"] = {"core": len(core), "other": len(rest)}
    return jobs


def shard_d2(job):
    import zlib

    wname, aname, m1, write, tgt, mk, m2 = job
    return zlib.crc32(repr((wname, aname, tgt, mk, m2)).encode())


def exec_d2(ctx, mods, job, state):
    position = mods[6]
    if "W" not in state:
        state["W"], state["bases"] = worlds(position), {}
    W, bases = state["W"], state["bases"]
    wname, aname, m1, write, tgt, mk, m2 = job
    if True:
        build, argget = W[wname], d2_args(position, wname, None)[aname]
        bk = (wname, aname, tgt, mk, m2)
        if bk not in bases:
            bases[bk] = d2_history(position, build, argget, None, False, tgt, mk, m2)
        base = bases[bk]
        if base is None:
            return
        got = d2_history(position, build, argget, m1, write, tgt, mk, m2)
        case = {"part": "D2", "world": wname, "argument": aname, "first_call": m1, "write_into_first_result": write,
                "changed": tgt, "change": mk, "second_call": m2}
        ctx.case(["D2", wname, aname, m1, write, tgt, mk, m2], nontrivial=True)
        ctx.count(f"D2:method:{m2}")
        ctx.count(f"D2:arg:{aname.split(':')[0]}")
        ctx.count(f"D2:changed:{tgt}")
        if got is None:
            return
        if got[0] != base[0]:
            ctx.violate(f"argument-method-stale:{m2}:{tgt}",
                        f"{wname}: o.{m1}(x){' (result overwritten)' if write else ''}; change {tgt} ({mk}); o.{m2}(x) with x = {aname} gave "
                        f"{show(got[0])} but {show(base[0])} without the first call", case)
        elif got[1] is not None and not close(got[0], got[1]):
            ctx.violate(f"argument-method-differs-from-twin:{m2}",
                        f"{wname}: o.{m1}(x); change {tgt} ({mk}); o.{m2}(x) with x = {aname} gave {show(got[0])} but freshly built "
                        f"objects with the same contents give {show(got[1])}", case)


def run_d2(ctx, mods, thorough):
    jobs, state = plan_d2(ctx, mods, thorough), {}
    for job in jobs:
        exec_d2(ctx, mods, job, state)
    return len(jobs)


# ------------------------------------------------------------------------------------------------ E: other in-place routes
# The property speaks of item assignment.  NumPy offers many other ways of changing an array in place; for each of them the
# real code either does not change the object (refused / a new object is made), or drops the caches (it passes through
# PosBase.__setitem__), or silently leaves the cached values stale.  The table pins the outcome per route: a route known
# to leave stale values is reported under its family's `inplace-route-stale:<family>` key (listed in known_findings.txt);
# a route that is expected to be harmless and is not is a new violation.

NEWROW3 = np.array([2_102_940.4, 721_569.4, 5_958_192.1])

ROUTES = {
    # name: (family, expected, action)
    "p[0] = v": ("setitem", "invalidates", lambda p: p.__setitem__(0, NEWROW3)),
    "p.T[:, 0] = v": ("setitem", "invalidates", lambda p: p.T.__setitem__((slice(None), 0), NEWROW3)),
    "p[0][:] = v": ("setitem", "invalidates", lambda p: p[0].__setitem__(slice(None), NEWROW3)),
    "p.real[0] = v": ("setitem", "invalidates", lambda p: p.real.__setitem__(0, NEWROW3)),
    "for r in p: r[:] = v": ("setitem", "invalidates", lambda p: [r.__setitem__(slice(None), NEWROW3) for r in p][:0]),
    "np.put_along_axis(p, ...)": ("setitem", "invalidates", lambda p: np.put_along_axis(p, np.zeros((len(p), 1), dtype=int), 1.3e6, axis=1)),
    "np.random.shuffle(p)": ("setitem", "invalidates", lambda p: np.random.RandomState(1).shuffle(p)),
    "p += ndarray": ("augmented", "not-in-place", lambda p: p.__iadd__(np.ones(3))),
    "p -= ndarray": ("augmented", "not-in-place", lambda p: p.__isub__(np.ones(3))),
    "p *= 0.99": ("augmented", "not-in-place", lambda p: p.__imul__(0.99)),
    "p /= 2": ("augmented", "not-in-place", lambda p: p.__itruediv__(2.0)),
    "p.resize(p.shape)": ("resize", "not-in-place", lambda p: p.resize(p.shape)),
    "p.resize((1, 3))": ("resize", "not-in-place", lambda p: p.resize((1, 3))),
    "np.add(p, 1000, out=p)": ("ufunc-out", "invalidates", lambda p: np.add(p, 1000.0, out=p)),
    "np.multiply(a, .99, out=p)": ("ufunc-out", "invalidates", lambda p: np.multiply(np.asarray(p), 0.99, out=p)),
    "np.add.at(p, (0, 0), 5000)": ("flat-iterator-buffer", "stale", lambda p: np.add.at(p, (0, 0), 5000.0)),
    "p.clip(0, 5e6, out=p)": ("ufunc-out", "invalidates", lambda p: p.clip(0, 5e6, out=p)),
    "p.round(-3, out=p)": ("ufunc-out", "invalidates", lambda p: p.round(-3, out=p)),
    "np.cumsum(a, axis=0, out=p)": ("function", "invalidates", lambda p: np.cumsum(np.asarray(p), axis=0, out=p)),
    "np.matmul(a, m, out=p)": ("ufunc-out", "invalidates", lambda p: np.matmul(np.asarray(p), np.eye(3) * 0.99, out=p)),
    "np.dot(a, m, out=p)": ("function", "invalidates", lambda p: np.dot(np.asarray(p), np.eye(3) * 0.99, out=p)),
    "np.take(a, idx, axis=0, out=p)": ("function", "invalidates", lambda p: np.take(np.asarray(p), list(range(len(p)))[::-1], axis=0, out=p)),
    "np.copyto(p, v)": ("function", "invalidates", lambda p: np.copyto(p, np.asarray(p) * 0.99)),
    "p.fill(v)": ("method", "invalidates", lambda p: p.fill(6.0e6)),
    "p.put(0, v)": ("method", "invalidates", lambda p: p.put(0, 1.3e6)),
    "np.put(p, 0, v)": ("method", "invalidates", lambda p: np.put(p, 0, 1.3e6)),
    "np.place(p, mask, v)": ("function", "invalidates", lambda p: np.place(p, np.asarray(p) > 6e6, 6.1e6)),
    "np.putmask(p, mask, v)": ("function", "invalidates", lambda p: np.putmask(p, np.asarray(p) > 6e6, 6.1e6)),
    "p.setfield(v, float)": ("method", "invalidates", lambda p: p.setfield(6.0e6, np.float64)),
    "p.byteswap(inplace=True)": ("method", "invalidates", lambda p: p.byteswap(inplace=True)),
    "np.copyto(dst=p, src=v)": ("function", "invalidates", lambda p: np.copyto(dst=p, src=np.asarray(p) * 0.99)),
    "np.fill_diagonal(p, v)": ("function", "invalidates", lambda p: np.fill_diagonal(p, 6.0e6)),
    "np.sum(a, axis=0, out=p[0])": ("function", "invalidates", lambda p: np.sum(np.asarray(p), axis=0, out=p[0])),
    "p.sort(axis=0)": ("method", "invalidates", lambda p: p.sort(axis=0)),
    "p.partition(1, axis=0)": ("method", "invalidates", lambda p: p.partition(1, axis=0)),
    "p.flat[0] = v": ("flat-iterator-buffer", "stale", lambda p: p.flat.__setitem__(0, 1.3e6)),
    "np.nditer(p, readwrite)": ("flat-iterator-buffer", "stale", lambda p: [x.__setitem__(..., x * 0.99) for x in np.nditer(p, op_flags=["readwrite"])][:0]),
    "memoryview(p) write": ("flat-iterator-buffer", "stale", lambda p: memoryview(p).cast("B").cast("d").__setitem__(0, 1.3e6)),
    "p.val[0] = v": ("plain-ndarray-view", "stale", lambda p: p.val.__setitem__(0, NEWROW3)),
    "np.asarray(p)[0] = v": ("plain-ndarray-view", "stale", lambda p: np.asarray(p).__setitem__(0, NEWROW3)),
    "p.view(np.ndarray)[0] = v": ("plain-ndarray-view", "stale", lambda p: p.view(np.ndarray).__setitem__(0, NEWROW3)),
    "p.x[0] = v": ("plain-ndarray-view", "stale", lambda p: p.x.__setitem__(0, 1.3e6)),
    "p.mat[0] = v": ("plain-ndarray-view", "stale", lambda p: p.mat.__setitem__(0, NEWROW3[:, None])),
    # the constructor keeps the caller's float64 C-contiguous array as the memory of the object: the caller changing it
    "a = array given to Position(a); a[0] = v": ("plain-ndarray-view", "stale", lambda p: p.base.__setitem__(0, NEWROW3)),
}


def run_routes(ctx, mods):
    position = mods[6]
    P = position.Position

    def make():
        sat = P(SAT[:3].copy(), system="trs")
        return P(STA[:3].copy(), system="trs", other=sat), sat

    def reads(p):
        with np.errstate(all="ignore"):
            return {n: np.array(getattr(p, n), dtype=float, copy=True) for n in ("llh", "distance", "azimuth", "elevation")}

    table = {}
    for where in ("self", "other"):
        for name, (family, expected, act) in ROUTES.items():
            p, sat = make()
            reads(p)  # everything cached
            before = (np.array(p, copy=True), np.array(sat, copy=True))
            try:
                with np.errstate(all="ignore"):
                    act(p if where == "self" else sat)
                raised = None
            except Exception as e:  # noqa
                raised = type(e).__name__
            changed = not (np.array_equal(before[0], np.asarray(p)) and np.array_equal(before[1], np.asarray(sat)))
            if not changed:
                outcome = "not-in-place" + (f" ({raised})" if raised else "")
            else:
                got = reads(p)
                fresh = reads(P(np.array(p), system="trs", other=P(np.array(sat), system="trs")))
                stale = [n for n in got if not (got[n].shape == fresh[n].shape and np.allclose(got[n], fresh[n], rtol=1e-12, atol=0, equal_nan=True))]
                outcome = "stale" if stale else "invalidates"
            table[f"{where}: {name}"] = outcome
            ctx.case(["E", where, name], nontrivial=True)
            ctx.count(f"E:{outcome.split(' ')[0]}")
            case = {"part": "E", "object": "p = Position(STA, other=sat)", "route_applied_to": "p" if where == "self" else "sat (= p.other)",
                    "route": name, "then": "p.llh / p.distance / p.azimuth / p.elevation compared with freshly built objects"}
            if outcome == "stale" and expected == "stale":
                ctx.violate(f"inplace-route-stale:{family}",
                            f"{name} (applied to {'p' if where == 'self' else 'p.other'}) changes the contents but p.{stale[0]} still returns the value of the old contents", case)
            elif outcome == "stale":
                ctx.violate(f"inplace-route-regressed:{name}",
                            f"{name} (applied to {'p' if where == 'self' else 'p.other'}) used to be {expected} and now leaves p.{stale[0]} stale", case)
            elif expected != "stale" and not outcome.startswith(expected):
                ctx.count(f"E:outcome-changed:{name}")
    ctx.extra["E_inplace_routes"] = table
    return len(table)


# ------------------------------------------------------------------------------------------------ F: raw functions and objects on one memory
# `Position(val=a)` keeps the caller's float64 C-contiguous array `a` as its memory (np.asarray does not copy).  Histories
# interleave the cached *functions* (trs2llh / llh2trs / enu2trs / trs2enu) called on that very memory — on `a`, on the
# object itself, on `p.val`, on rows of either, on the columns of `p.llh` — with reads of the object's conversions and derived
# quantities, item assignment through the object, and writes into the arrays the functions returned.  Demanded: every function
# result equals an uncached evaluation of the current contents; no call makes `a`, the object or the array passed read-only;
# every object read equals that of a freshly built twin; writing into a returned array changes nothing else.
# (Changing `a` directly, behind the object, is the `plain-ndarray-view` route of part E.)


def run_shared(ctx, mods, budget):
    tr, rot, ell, nputil, T, Time, position = mods
    P = position.Position
    rng = ctx.rng
    raw_trs2llh, raw_llh2trs = tr._trs2llh.__wrapped__, tr._llh2trs.__wrapped__
    raw_enu2trs, raw_trs2enu = rot.enu2trs.__wrapped__.__wrapped__, rot.trs2enu.__wrapped__.__wrapped__

    def bits(x):
        x = np.asarray(x)
        return (x.shape, str(x.dtype), x.tobytes())

    n_hist = 0
    for _ in range(budget):
        shape = rng.choice(["n3", "n3", "13", "3"])
        rows = {"n3": rng.choice([2, 3, 4]), "13": 1, "3": 1}[shape]
        a = STA[:rows].copy() + np.array([rng.uniform(-500, 500) for _ in range(3)])
        if shape == "3":
            a = a[0].copy()
        sat = P((SAT[:rows] if shape != "3" else SAT[0]).copy(), system="trs")
        p = P(a, system="trs", other=sat)
        ctx.count(f"F:constructor-keeps-callers-memory:{bool(np.shares_memory(p, a))}")
        ops, held = [], []
        case = {"part": "F", "shape": shape, "rows": rows, "ops": ops}
        ok = True
        for _step in range(rng.randint(3, 14)):
            k = rng.random()
            if k < 0.45:
                fn = rng.choice(["trs2llh", "trs2llh", "llh2trs", "enu2trs", "trs2enu"])
                if fn == "trs2llh":
                    srcs = {"a": lambda: a, "p": lambda: p, "p.val": lambda: p.val, "asarray(p)": lambda: np.asarray(p)}
                    if np.ndim(a) == 2:
                        srcs.update({"a[0]": lambda: a[0], "p[0]": lambda: p[0], "a[0:1]": lambda: a[0:1]})
                elif fn == "llh2trs":
                    srcs = {"p.llh": lambda: p.llh, "p.llh.val": lambda: p.llh.val, "copy(p.llh)": lambda: np.array(p.llh.val)}
                else:
                    srcs = {"columns of p.llh": lambda: p.llh.val, "copy": lambda: np.array(p.llh.val)}
                sname = rng.choice(sorted(srcs))
                ops.append(f"{fn}({sname})")
                src = srcs[sname]()
                try:
                    with np.errstate(all="ignore"):
                        if fn == "trs2llh":
                            r = tr.trs2llh(src)
                            exp = raw_trs2llh(nputil.HashArray(np.array(src, dtype=float)), ell.GRS80)
                        elif fn == "llh2trs":
                            r = tr.llh2trs(src)
                            exp = raw_llh2trs(nputil.HashArray(np.array(src, dtype=float)), ell.GRS80)
                        else:
                            lat, lon = (src[..., 0], src[..., 1])
                            if np.ndim(lat) == 0:
                                lat, lon = float(lat), float(lon)
                            r = getattr(rot, fn)(lat, lon)
                            exp = (raw_enu2trs if fn == "enu2trs" else raw_trs2enu)(np.array(lat) if np.ndim(lat) else lat, np.array(lon) if np.ndim(lon) else lon)
                except Exception as e:  # noqa
                    ctx.violate(f"shared-memory:raises:{fn}", f"{fn}({sname}) raised {type(e).__name__}: {e}", dict(case, ops=list(ops)))
                    ok = False
                    break
                held.append(r)
                if bits(r) != bits(exp):
                    ctx.violate(f"shared-memory:raw-result-stale:{fn}", f"{fn}({sname}) does not equal an uncached evaluation of the current contents", dict(case, ops=list(ops)))
                    ok = False
                for nm, arr in (("a", a), ("p", p), (sname, src)):
                    if isinstance(arr, np.ndarray) and not arr.flags.writeable and nm != "p.llh.val" and not nm.startswith("columns"):
                        ctx.violate(f"shared-memory:argument-made-readonly:{fn}", f"after {fn}({sname}) the array {nm} is read-only", dict(case, ops=list(ops)))
                        ok = False
            elif k < 0.65:
                nm = rng.choice(["llh", "distance", "azimuth", "elevation", "enu2trs", "trs2enu", "trs", "direction"])
                ops.append(f"read p.{nm}")
                with np.errstate(all="ignore"):
                    got = obs_val(getattr(p, nm))
                    twin = obs_val(getattr(P(np.array(p), system="trs", other=P(np.array(sat), system="trs")), nm))
                if not close(got, twin, 1e-12):
                    ctx.violate(f"shared-memory:object-read-stale:{nm}", f"p.{nm} gave {show(got)} but a freshly built twin gives {show(twin)}", dict(case, ops=list(ops)))
                    ok = False
            elif k < 0.82:
                who = rng.choice(["p", "sat"])
                x = p if who == "p" else sat
                row = new_row(x, 0)
                ops.append(f"{who}[0] = ..." if np.ndim(x) == 2 else f"{who}[:] = ...")
                try:
                    if np.ndim(x) == 2:
                        x[0] = row
                    else:
                        x[:] = row
                except ValueError as e:
                    ctx.violate("shared-memory:item-assignment-refused", f"item assignment to {who} raised {e} after a cached function was called on its memory", dict(case, ops=list(ops)))
                    ok = False
                    break
            elif held:
                j = rng.randrange(len(held))
                ops.append(f"result[{j}][...] = junk")
                try:
                    np.asarray(held[j])[...] = 1.0e9 + j
                except ValueError:
                    ops[-1] += " (refused)"
            if not ok:
                break
        n_hist += 1
        ctx.case(["F", shape, list(ops)], nontrivial=len(ops) > 2)
        ctx.count("F:shared-memory-history")
    return n_hist


# ------------------------------------------------------------------------------------------------ G: results of time objects
# Every format / property of a time object is memoised per process under the epoch values: all equal time objects receive
# the same result object.  "Modifying a returned result never changes later results": for every readable name (formats,
# properties, found by introspection), on every scale and for array / one-epoch / scalar times, read – try to write into every
# array that can be reached in the result (the result itself, the members of a tuple result) – read again on the same
# object and on a freshly built equal one.  A write must be refused, or must not show.


def _tsnap(x):
    if isinstance(x, tuple):
        return ("tuple",) + tuple(_tsnap(v) for v in x)
    if isinstance(x, np.ndarray):
        a = np.asarray(x)
        vals = tuple(map(str, a.ravel())) if a.dtype.kind in "OUS" else a.tobytes()
        return (type(x).__name__, getattr(x, "fmt", None), a.shape, str(a.dtype), vals)
    return (type(x).__name__, repr(x))


def _try_write(x, log):
    """write into every array reachable in x; log what happened"""
    if isinstance(x, tuple):
        for v in x:
            _try_write(v, log)
        return
    if not isinstance(x, np.ndarray):
        return
    a = np.asarray(x)
    if a.size == 0:
        return
    junk = {"f": 7.0, "i": 7, "u": 7, "U": "x", "S": b"x", "O": None, "b": True}.get(a.dtype.kind)
    if a.dtype.kind not in "fiuUSOb":
        return
    for how, act in (("item assignment", lambda: a.__setitem__(Ellipsis, junk)),
                     ("out=", (lambda: np.add(a, 1, out=a)) if a.dtype.kind in "fiu" else None)):
        # (switching the flag back on with setflags(write=True) is a deliberate act of the caller, not tried)
        if act is None:
            continue
        try:
            act()
            log.append(how + ": accepted")
        except (ValueError, TypeError):
            log.append(how + ": refused")


def run_time_results(ctx, mods):
    T, Time = mods[4], mods[5]
    fmts = sorted(T._FORMATS.get("TimeFormat", {}))
    n = 0
    for scale in ("utc", "gps", "tai", "tt", "tcg", "tdb"):
        for shape in ("n", "1", "0"):
            def make(scale=scale, shape=shape):
                jd1 = np.array([2457754.5, 2457755.5, 2457790.5]) if shape == "n" else np.array([2457754.5])
                jd2 = np.array([0.25, 0.5, 0.125]) if shape == "n" else np.array([0.25])
                if shape == "0":
                    return Time(float(jd1[0]), val2=float(jd2[0]), fmt="jd", scale=scale)
                return Time(jd1, val2=jd2, fmt="jd", scale=scale)
            try:
                t = make()
            except Exception:
                continue
            props = []
            for cls in type(t).__mro__:
                if getattr(cls, "__module__", "").startswith("midgard"):
                    props += [k for k, v in vars(cls).items() if isinstance(v, property) and not k.startswith("_")]
            for name in sorted(set(fmts + props)):
                t = make()
                try:
                    r0 = getattr(t, name)
                except Exception:
                    continue
                s0 = _tsnap(r0)
                log = []
                _try_write(r0, log)
                try:
                    s1, s2 = _tsnap(getattr(t, name)), _tsnap(getattr(make(), name))
                except Exception as e:  # noqa
                    s1 = s2 = ("ERR", type(e).__name__)
                n += 1
                ctx.case(["G", scale, shape, name], nontrivial=True)
                ctx.count("G:" + ("write-accepted" if any(x.endswith("accepted") for x in log) else "all-writes-refused" if log else "no-array-in-result"))
                if s1 != s0 or s2 != s0:
                    ctx.violate(f"returned-result-shared:time:{name}",
                                f"{scale} time, shape {shape}: r = t.{name}; writing into r ({', '.join(log)}) changed what "
                                f"{'the same object' if s1 != s0 else 'a freshly built equal time'} returns for .{name}: {str(s1 if s1 != s0 else s2)[:200]} instead of {str(s0)[:200]}",
                                {"part": "G", "scale": scale, "shape": shape, "name": name, "writes": log})
    return n


# ------------------------------------------------------------------------------------------------ H: time objects made from time objects
# The D1 question for the time classes: an array made from a time array (view, transpose, reshape, ravel, copy, slices, ...)
# must carry the epochs of its current contents whatever was indexed / computed on the source before (`t[i]`, `t.max`,
# iteration, slices, masks, conversions).  Read: the two-part Julian dates and every scale conversion (type, format, shape,
# bytes) and every format; compared exactly with the same construction without the earlier operations.


def run_time_derivations(ctx, mods, thorough):
    import copy as _copy

    T, Time = mods[4], mods[5]
    rng = ctx.rng
    jd1 = np.array([2457754.5, 2457755.5, 2457790.5, 2457791.5])
    jd2 = np.array([0.25, 0.5, 0.125, 0.75])
    mask = np.array([True, False, True, False])
    early = {
        "t[1]": lambda t: t[1], "t[-1]": lambda t: t[-1], "t[np.int64(2)]": lambda t: t[np.int64(2)], "t.max": lambda t: t.max,
        "t.min": lambda t: t.min, "t.mean": lambda t: t.mean, "t[1:3]": lambda t: t[1:3], "t[mask]": lambda t: t[mask],
        "t[[0, 2]]": lambda t: t[[0, 2]], "for x in t": lambda t: [x for x in t], "t.tai": lambda t: t.tai, "t.mjd": lambda t: t.mjd,
        "t.datetime": lambda t: t.datetime, "t[...]": lambda t: t[...], "t.T": lambda t: t.T, "t[1].tai": lambda t: t[1].tai,
        "t.year": lambda t: t.year, "t.jd_frac": lambda t: t.jd_frac,
    }
    derive = {
        "view": lambda t: t.view(), "T": lambda t: t.T, "reshape": lambda t: t.reshape(t.shape), "ravel": lambda t: t.ravel(),
        "copy": lambda t: t.copy(), "copy.copy": lambda t: _copy.copy(t), "deepcopy": lambda t: _copy.deepcopy(t), "t[...]": lambda t: t[...],
        "t[:]": lambda t: t[:], "t[0:2]": lambda t: t[0:2], "t[::2]": lambda t: t[::2], "flatten": lambda t: t.flatten(),
        "squeeze": lambda t: np.squeeze(t), "asanyarray": lambda t: np.asanyarray(t), "t[mask]": lambda t: t[mask], "t[2]": lambda t: t[2],
        "itself": lambda t: t,
    }
    fmts = sorted(T._FORMATS.get("TimeFormat", {}))
    scales = ["utc", "tai", "gps", "tt", "tcg"]

    def reads(q):
        out = {}
        for nm in ["jd1", "jd2"] + fmts:
            try:
                out[nm] = _tsnap(getattr(q, nm))
            except Exception as e:  # noqa
                out[nm] = ("ERR", type(e).__name__)
        for sc in scales:
            try:
                r = getattr(q, sc)
                out[sc] = (type(r).__name__, r.fmt, np.shape(r.jd1), np.asarray(r.jd1, dtype=float).tobytes(), np.asarray(r.jd2, dtype=float).tobytes(), _tsnap(r))
            except Exception as e:  # noqa
                out[sc] = ("ERR", type(e).__name__)
        return out

    n = 0
    for fmt in ("jd", "datetime", "mjd"):
        for scale in ("utc", "gps"):
            def make(fmt=fmt, scale=scale):
                t = Time(jd1.copy(), val2=jd2.copy(), fmt="jd", scale=scale)
                return t if fmt == "jd" else Time(getattr(t, fmt), fmt=fmt, scale=scale)
            plans = [(e,) for e in early]
            pairs = [(a, b) for a in early for b in early]
            plans += pairs if thorough else [rng.choice(pairs) for _ in range(40)]
            for dname, dfn in derive.items():
                try:
                    base = reads(dfn(make()))
                except Exception:
                    continue
                for plan in plans:
                    t = make()
                    try:
                        for e in plan:
                            early[e](t)
                        got = reads(dfn(t))
                    except Exception as e:  # noqa
                        got = {"jd1": ("ERR", type(e).__name__)}
                    n += 1
                    ctx.case(["H", fmt, scale, dname, list(plan)], nontrivial=True)
                    ctx.count(f"H:derivation:{dname}")
                    bad = [k for k in base if got.get(k) != base[k]]
                    if bad:
                        k = bad[0]
                        ctx.violate(f"time-derived-object-depends-on-history:{dname}",
                                    f"{scale} time in format {fmt}: {'; '.join(plan)}; q = {dname}(t); q.{k} gave {str(got.get(k))[:160]} but {str(base[k])[:160]} "
                                    f"without the earlier operations ({len(bad)} of {len(base)} reads differ)",
                                    {"part": "H", "fmt": fmt, "scale": scale, "earlier": list(plan), "derivation": dname})
    return n


# ------------------------------------------------------------------------------------------------ I: the same numbers under two scales
# Every cache of the time classes is keyed by the time object (`__hash__` of the two-part Julian date, `__eq__`).  Two time
# objects with bit-identical jd1 / jd2 in *different scales* are different epochs: for every ordered pair of scales, array and
# scalar, every scale conversion / format / property (by introspection) is read on the first and then on the second; what the
# second returns must equal what a freshly built equal object returns when every cache has been cleared before.


def run_time_scale_shadows(ctx, mods):
    from . import c08

    T, Time = mods[4], mods[5]
    caches = c08.all_lru_caches(mods)
    fmts = sorted(T._FORMATS.get("TimeFormat", {}))
    scales = ["utc", "tai", "gps", "tt", "tcg"]

    def clear():
        for c in caches:
            c.cache_clear()

    def snap(x):
        s = _tsnap(x)
        if isinstance(x, np.ndarray) and hasattr(x, "jd1"):
            s += (type(x).__name__, np.asarray(x.jd1, dtype=float).tobytes(), np.asarray(x.jd2, dtype=float).tobytes())
        return s

    def read(t, name):
        try:
            return snap(getattr(t, name))
        except Exception as e:  # noqa
            return ("ERR", type(e).__name__)

    n = 0
    for shape in ("n", "0"):
        def make(scale, shape=shape):
            if shape == "0":
                return Time(2457754.5, val2=0.25, fmt="jd", scale=scale)
            return Time(np.array([2457754.5, 2457755.5, 2457790.5]), val2=np.array([0.25, 0.5, 0.125]), fmt="jd", scale=scale)
        for s1 in scales:
            for s2 in scales:
                if s1 == s2:
                    continue
                try:
                    t2 = make(s2)
                except Exception:
                    continue
                props = []
                for cls in type(t2).__mro__:
                    if getattr(cls, "__module__", "").startswith("midgard"):
                        props += [k for k, v in vars(cls).items() if isinstance(v, property) and not k.startswith("_")]
                for name in sorted(set(scales + fmts + props)):
                    clear()
                    ref = read(make(s2), name)
                    clear()
                    first = read(make(s1), name)
                    got = read(make(s2), name)
                    n += 1
                    ctx.case(["I", shape, s1, s2, name], nontrivial=True)
                    ctx.count("I:scale-shadow")
                    if got != ref:
                        ctx.violate(f"scale-shadow:{name}",
                                    f"two times with the same Julian date numbers (shape {shape}): {s1}_time.{name} was read first, then {s2}_time.{name} gave "
                                    f"{str(got)[:200]} instead of {str(ref)[:200]} (its value with all caches cleared){'; it is what the ' + s1 + ' time returned' if got == first else ''}",
                                    {"part": "I", "shape": shape, "first_scale": s1, "second_scale": s2, "name": name})
    clear()
    return n
