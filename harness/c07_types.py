"""C07 — the numeric type and memory layout of the array handed to `PosVel(...)` must not matter.

The constructors of the position types take `np.asarray(val, dtype=float, order="C")`: whatever is handed in, the library
works in float64 on exactly the numbers it was given.  A case takes states (or Kepler elements) whose values the input type
holds exactly and hands them over as

    float32 array, int32 / int64 array (states rounded to whole metres and metres/second), nested list, tuple, list of
    Python floats (one state), object array, big-endian float64, Fortran-ordered array, rows / columns cut out of a larger
    array with strides, rows in reverse order (negative stride), read-only array, (float16 never holds a semi-major axis or
    a position in metres: not applicable)

and requires, against the object built from the float64 C-contiguous copy of the same values (judging as in
harness/c20_types.py, but without a reduced-precision allowance: the constructor's contract is float64):

    np.asarray(obj).dtype is float64 (native), C-contiguous, holds the same values bit for bit; obj.kepler / obj.trs,
    .M and .f are float64 and equal those of the float64 copy to 1e-11 (scaled; the same float64 values in another
    buffer may be summed in another order by NumPy's reductions: differences of an ulp occur; single precision is 1e-7);
    the array handed in is not modified.

correspondence: row 0 of the conversion of the typed object against the Float model of the kernel on the exact values.
"""
from __future__ import annotations

import math

import numpy as np

from .geo_common import PI, disagree as gdisagree, violate as gviolate, fline, floats


def variants(base: np.ndarray, rng):
    """(class, array-like) for the float64 C-contiguous `base`, whose values every variant holds exactly"""
    out = []
    two_d = base.ndim == 2
    if np.array_equal(base.astype(np.float32).astype(float), base):
        out.append(("float32", base.astype(np.float32)))
    if np.array_equal(np.rint(base), base) and np.all(np.abs(base) < 2 ** 31 - 1):
        out.append(("int32", base.astype(np.int32)))
        out.append(("int64", base.astype(np.int64)))
    out.append(("list", base.tolist()))
    out.append(("tuple", tuple(map(tuple, base.tolist())) if two_d else tuple(base.tolist())))
    out.append(("object", np.array(base.tolist(), dtype=object)))
    out.append(("bigendian", base.astype(">f8")))
    ro = base.copy()
    ro.flags.writeable = False
    out.append(("readonly", ro))
    if two_d:
        n, k = base.shape
        out.append(("fortran", np.asfortranarray(base)))
        big = np.full((2 * n + 1, k + 3), 7.25)
        big[1:2 * n:2, 2:k + 2] = base
        out.append(("strided", big[1:2 * n:2, 2:k + 2]))
        out.append(("reversed", base[::-1].copy()[::-1]))
    else:
        big = np.full(2 * base.shape[0] + 1, 7.25)
        big[1::2][: base.shape[0]] = base
        out.append(("strided", big[1::2][: base.shape[0]]))
        out.append(("reversed", base[::-1].copy()[::-1]))
    return out


def bits_equal(a, b) -> bool:
    a, b = np.asarray(a), np.asarray(b)
    return a.shape == b.shape and a.dtype == b.dtype and a.tobytes() == b.tobytes()


TOL = 1e-11   # the same float64 values in another buffer: NumPy's reductions (einsum, norm) may sum in another order


def close_f64(a, b) -> bool:
    a, b = np.asarray(a), np.asarray(b)
    if a.shape != b.shape or a.dtype != np.dtype("float64"):
        return False
    with np.errstate(invalid="ignore"):
        d = np.abs(a - b) / np.maximum(1.0, np.abs(b))
    return bool(np.all((d <= TOL) | (np.isnan(a) & np.isnan(b))))


def typed_case(ctx, PosVel, GM, gen_elements, how=None):
    """one base array (states or elements, one state or several; values chosen so that the narrow types hold them)"""
    rng = ctx.rng
    how = how or rng.choice(["trs:float32", "trs:float32", "trs:int", "kepler:float32", "trs:any", "kepler:any"])
    system, prec = how.split(":")
    m = rng.choice([1, 1, 2, 3, 6])
    els = np.array([gen_elements(rng) for _ in range(m)], dtype=float)
    if system == "kepler":
        base = els.astype(np.float32).astype(float) if prec == "float32" else els
    else:
        st = np.array(np.asarray(PosVel(els, "kepler").trs, dtype=float), copy=True).reshape(-1, 6)
        base = st.astype(np.float32).astype(float) if prec == "float32" else (np.rint(st) + 0.0 if prec == "int" else st)   # + 0.0: no -0.0
    if m == 1 and rng.random() < 0.6:
        base = base[0].copy()
    base = np.ascontiguousarray(base, dtype=float)
    run_typed(ctx, PosVel, GM, system, base, how)


def run_typed(ctx, PosVel, GM, system, base, how="recorded"):
    rng = ctx.rng
    other = "kepler" if system == "trs" else "trs"
    case0 = {"fn": "typed-input", "system": system, "how": how, "values": base.tolist()}
    ref = PosVel(base.copy(), system)
    ref_conv = np.array(np.asarray(getattr(ref, other)), copy=True)
    kep_ref = ref if system == "kepler" else getattr(ref, other)
    ref_M, ref_f = np.array(kep_ref.M, copy=True), np.array(kep_ref.f, copy=True)
    for cls, v in variants(base, rng):
        case = {**case0, "given_as": cls}
        ctx.count(f"typed:{system}:{cls}")
        keep = v.copy() if isinstance(v, np.ndarray) else None
        try:
            obj = PosVel(v, system)
            arr = np.asarray(obj)
            conv = np.asarray(getattr(obj, other))
            kep = obj if system == "kepler" else getattr(obj, other)
            M, f = np.asarray(kep.M), np.asarray(kep.f)
        except Exception as e:  # noqa: BLE001
            gviolate(ctx, f"typed-input:{cls}:raises:{type(e).__name__}", f"PosVel(<{cls}>, {system!r}) / its conversion raised {type(e).__name__}: {e}", case)
            continue
        if arr.dtype != np.dtype("float64") or not arr.dtype.isnative or not arr.flags.c_contiguous or np.asarray(obj.val).dtype != np.dtype("float64"):
            gviolate(ctx, f"typed-input:{cls}:dtype", f"PosVel(<{cls}>, {system!r}) holds dtype {arr.dtype} (C-contiguous: {arr.flags.c_contiguous}), expected native float64, C order", case)
        if not bits_equal(arr.astype(float), base):
            gviolate(ctx, f"typed-input:{cls}:values", f"PosVel(<{cls}>, {system!r}) holds {np.ravel(arr)[:6].tolist()} but was given {np.ravel(base)[:6].tolist()}", case)
        cmp_a, cmp_b = conv, ref_conv
        if other == "kepler" and conv.shape == ref_conv.shape and conv.dtype == np.dtype("float64"):
            # Omega, omega, E are angles: an ulp in `u - vega` around 0 makes the wrap return 2 pi instead of 0
            cmp_a, cmp_b = conv.copy(), ref_conv.copy()
            dang = (cmp_a[..., 3:] - cmp_b[..., 3:] + PI) % (2 * PI) - PI
            cmp_a[..., 3:] = cmp_b[..., 3:] + dang
        if not close_f64(cmp_a, cmp_b):
            d = float(np.nanmax(np.abs(conv.astype(float) - ref_conv) / np.maximum(1.0, np.abs(ref_conv)))) if conv.shape == ref_conv.shape else float("nan")
            gviolate(ctx, f"typed-input:{cls}:conversion", f"PosVel(<{cls}>, {system!r}).{other} is {np.ravel(conv)[:6].tolist()} (dtype {conv.dtype}) but the float64 copy of the same values "
                     f"gives {np.ravel(ref_conv)[:6].tolist()} (largest scaled difference {d:.3e})", case)
        for name, got, want in (("M", M, ref_M), ("f", f, ref_f)):
            if not close_f64(got, want):
                gviolate(ctx, f"typed-input:{cls}:{name}", f"{name} of the Kepler side of PosVel(<{cls}>, {system!r}) is {np.ravel(got)[:4].tolist()} (dtype {got.dtype}) but "
                         f"{np.ravel(want)[:4].tolist()} for the float64 copy", case)
        if keep is not None and not (v.dtype == keep.dtype and np.array_equal(v, keep)):
            gviolate(ctx, f"typed-input:{cls}:argument-modified", f"the {cls} array handed to PosVel was modified", case)
        # correspondence: row 0 against the Float model on the exact values
        row, got = np.asarray(base, dtype=float).reshape(-1, 6)[0], conv.astype(float).reshape(-1, 6)[0]
        if not (np.all(np.isfinite(row)) and np.all(np.isfinite(got))):
            continue
        drv = ctx.driver
        if system == "kepler":
            mm = floats(drv.ask1(f"c07 f kepler2trs {fline(GM, *row)}"))
            rn, vn = float(np.linalg.norm(mm[:3])), float(np.linalg.norm(mm[3:]))
            bad = (max(abs(x - y) for x, y in zip(got[:3], mm[:3])) > 16 * 2.3e-16 * rn or max(abs(x - y) for x, y in zip(got[3:], mm[3:])) > 16 * 2.3e-16 * vn)
        else:
            mm = floats(drv.ask1(f"c07 f trs2kepler {fline(GM, *row)}"))
            a, e, inc = mm[0], mm[1], mm[2]
            if not (1e-4 < e < 0.99 and 1e-3 < inc < PI - 1e-3 and a > 0):
                continue
            bad = abs(got[0] - a) > 1e-13 * a or abs(got[1] - e) > 1e-14 / e or abs(got[2] - inc) > 1e-13 / math.sin(inc)
        if bad:
            gdisagree(ctx, f"conversion of a PosVel built from a {cls} input (Float model of the kernel on the exact values)", case, mm, got.tolist())
